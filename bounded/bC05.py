"""C05 (bounded, API level): a cut commits within its documented scope and nowhere else.

    PYTHONPATH=/verif /verif/.venv/bin/python -m bounded.bC05 quick|thorough [seed]

The real model (`specpeg.to_model(d).parse`) against the documented cut semantics (`specpeg.evaluate`:
docs/syntax.rst section `~`, DESIGN Appendix C) over

* `grammars.CUT_GRAMMARS`: `~` at every position of a two-token body, in every context of the property's
  quantifier -- first / middle / last option, optional, closure and positive closure (first and later
  iterations), join / gather of both kinds (first element, after a separator), nested choice inside a group,
  plain and non-capturing group, rule body, lookaheads, and the cut inside an inner optional / closure /
  choice of the body, a cut in a separator, two nesting levels, the docs' own `','.{name '=' ~ expression}`;
  every alternative / continuation is chosen so that an input failing right after the cut would be accepted
  if the cut were ignored and another input is accepted only by backtracking outside the cut's scope;
* x ALL inputs over {a,b,c} up to the length bound (so every input "that fails right after each cut" and
  every committed-path input is in the domain), nameguard off; the thorough tier adds the default
  configuration with the same inputs blank-separated, and the exhaustive small grammars of bC01 that contain
  a cut with all inputs over {a,b,' '}.

Comparison, admissible open aspects, classes of failures: see bounded/bC01.py.
"""
from __future__ import annotations

import os
import sys
import time

from bounded import bC01
from bounded import grammars as G
from bounded import specpeg as S
from bounded.common import JOBS, Budget

PROP = 'C05'
FUNCTION = ('tatsu.peg.Grammar.parse (Choice/Optional/closure/join/rule cut handling) == specpeg.evaluate '
            '(docs/syntax.rst `~`)')
RULE = bC01.RULE


def _drop_cuts(e):
    """the expression without its cuts; a cut that is a whole body / operand becomes `&()` (succeeds, consumes
    nothing, has no value, contains nothing)"""
    k = e[0]
    if k == 'cut':
        return ('la', ('void',))
    if k == 'seq':
        xs = []
        for x in e[1]:
            if x[0] == 'cut':
                continue
            y = _drop_cuts(x)
            if y is None:
                return None
            xs.append(y)
        if not xs:
            return ('la', ('void',))
        return xs[0] if len(xs) == 1 else ('seq', tuple(xs))
    if k == 'choice':
        ys = [_drop_cuts(x) for x in e[1]]
        return None if any(y is None for y in ys) else ('choice', tuple(ys))
    cs = S.children(e)
    if not cs:
        return e
    ys = [_drop_cuts(c) for c in cs]
    if any(y is None for y in ys):
        return None
    if k in ('named', 'namedlist'):
        return (k, e[1], ys[0])
    return (k, *ys)


# classes of C01 that concern the shape of the AST only
VALUE_CLASSES = {'names-undefined-unless-sequence', 'none-dropped-at-frame-start', 'open-list-spliced',
                 'internal-override-key-in-ast',
                 'pattern-first-group-only'}


def not_about_cut(d, cfg, text, start, o, r, cls):
    """True when the failure is of a known AST-shape class of C01 AND the twin grammar with every cut removed
    shows the same disagreement (same acceptance on both sides, and the same outcomes or at least a failure of
    the same class): it then belongs to C01, not to C05.  Anything else (in particular every unexplained
    failure) stays a C05 failure."""
    if not set(cls.split('+')) <= VALUE_CLASSES:
        return False
    rules = []
    for rule in d:
        b = _drop_cuts(rule[1])
        if b is None:
            return False
        rules.append((rule[0], b, *rule[2:]))
    twin = tuple(rules)
    if twin == d or not S.wellformed(twin):
        return False
    try:
        o2, info2 = S.evaluate_info(twin, text, start, **cfg)
        r2 = bC01.real_parse(S.to_model(twin, **cfg), text, start)
    except Exception:  # noqa: BLE001
        return False
    if isinstance(o2, S.Unspecified) or o2.ok != o.ok or r2[0] != r[0]:
        return False
    if o2 == o and r2 == r:
        return True
    # same acceptance on both sides; the twin must fail as well, and with the same class
    if bC01.agrees(o2, r2) or bC01._admissible(twin, text, start, cfg, r2, info2['open']) is not None:
        return False
    return bC01.classify(twin, text, start, cfg, r2)[0] == cls


def _has_cut(d):
    return any('cut' in S.kinds_of(r[1]) for r in d)


def run(tier='quick', seed=0, info=None):
    budget = Budget(float(os.environ.get('VERIF_BOUNDED_BUDGET_S', 0)) or (100 if tier == 'quick' else 1000))
    items, summary = [], []

    def go(name, descs, plan, **kw):
        its, st, wall = bC01.run_domain(name, descs, plan, function=FUNCTION, prop=PROP, rule=RULE,
                                        suppress=not_about_cut, **kw)
        items.extend(its)
        summary.append((name, st, wall))

    maxlen = 6 if tier == 'quick' else 8
    ins = G.inputs(G.CUT_ALPHABET, maxlen)
    descs = [d for _n, d in G.CUT_GRAMMARS]
    go('cut-grammars', descs, [('B', ins, (None,))],
       domain=f'{len(descs)} curated grammars (grammars.CUT_GRAMMARS: ~ at each position of a two-token body in '
              'every option / optional / closure / join / group / rule / lookahead context, inner scopes, separator '
              f'cuts) x nameguard off x all {len(ins)} inputs over {{a,b,c}} of length <= {maxlen}',
       bound=f'input length <= {maxlen}', exhaustive=True, chunk=JOBS * 3)
    if tier != 'quick':
        spaced = [' '.join(s) for s in G.inputs(G.CUT_ALPHABET, 6)] + [' ' + ' '.join(s) + ' ' for s in
                                                                      G.inputs(G.CUT_ALPHABET, 4)]
        go('cut-grammars-default-config', descs, [('A', spaced, (None,))],
           domain='the same grammars x default configuration (whitespace skipped, nameguard on) x all inputs over '
                  '{a,b,c} of length <= 6 with the letters separated by blanks (and <= 4 with leading / trailing '
                  'blanks)',
           bound='6 letters', exhaustive=True, chunk=JOBS * 3)
    # the exhaustive small grammars that contain a cut
    in4 = G.inputs('ab ', 4)
    if tier == 'quick':
        small = [d for d in bC01.single_rule(3) if _has_cut(d)]
        small += [d for d in bC01.single_rule(4, 'core', exact=True) if _has_cut(d)]
        plan = [('B', bC01.IN_MID, (None,))]
        dom = ('every grammar `start = e` containing a cut with e of <= 3 nodes (full leaves) or 4 nodes (core '
               'leaves) x nameguard off x the 23 inputs bC01.IN_MID')
        bound = '<= 4 nodes, 23 inputs of length <= 3'
    else:
        small = [d for d in bC01.single_rule(4) if _has_cut(d)]
        small += [d for d in bC01.single_rule(5, 'core', exact=True) if _has_cut(d)
                  and S.kinds_of(d[0][1]) & {'closure', 'pclosure', 'join', 'pjoin', 'gather', 'pgather', 'opt',
                                             'choice'}]
        plan = [('B', in4, (None,))]
        dom = ('every grammar `start = e` containing a cut with e of <= 4 nodes (full leaves), or of 5 nodes (core '
               "leaves) with a choice / optional / repetition, x nameguard off x all inputs over {a,b,' '} <= 4")
        bound = '<= 5 nodes, input length <= 4'
    go('small-grammars-with-cut', small, plan, domain=dom, bound=bound, exhaustive=True)
    head = bC01.repo_head()
    for it in items:
        it.extra['repo_head'] = head
    if info is not None:
        info.setdefault('bounded', []).append({'run': 'bC05', 'tier': tier, 'wall_s': round(budget.spent(), 1),
                                               'repo_head': head})
    run.summary = summary
    return items


def main(argv=None):
    argv = sys.argv[1:] if argv is None else argv
    tier = argv[0] if argv else 'quick'
    seed = int(argv[1]) if len(argv) > 1 else 0
    t0 = time.time()
    items = run(tier, seed, {})
    bC01.print_summary(items, run.summary, time.time() - t0)
    return 0


if __name__ == '__main__':
    sys.exit(main())
