"""C04 (bounded, API level): memoization, memo-cache capacity, pruning at cuts, tracing, colouring and parse
information never change what a parse returns.

    PYTHONPATH=/verif /verif/.venv/bin/python -m bounded.bC04 quick|thorough [seed]

For every grammar of the domain and every input, the outcome under the REFERENCE configuration (the defaults:
memoization on, perlinememos 8, prune_memos_on_cut on, no trace, no parseinfo)

    outcome = success + asjson(AST)  |  failure + the exact class of the exception

is compared with the outcome under each variant

    memoization=False                      (grammars without left recursion only: it disables left recursion)
    perlinememos=0.01, perlinememos=1      (memo capacity max(1, p) * lines: a single entry for one-line inputs)
    prune_memos_on_cut=False / True
    trace=True (+ colorize False / True)   (output discarded: stdout / stderr of the worker go to os.devnull)
    colorize=False / True
    parseinfo=True                         (may only ADD parseinfo entries: they are stripped before comparing
                                            and must exist on every AST node of the result)

and, with a counting semantics object (one action per rule, returns the AST unchanged), the number of action
calls per rule with memoization on must never exceed the number with memoization off, and the results must be
equal.

Domain: a seeded sample of the non-left-recursive grammars of bounded/grammars.py (two-rule grammars in which a
rule is retried at the same position after backtracking are preferred), CUT_GRAMMARS, the C03 schemas, and
MEMO_GRAMMARS (texts with @nomemo / @nostak rules called at their caller's start position, two different such
rules tried at the same position, memo entries behind a cut, more memo entries than the cache holds); for the
text grammars the generated parser is put through the same matrix.
"""
from __future__ import annotations

import contextlib
import os
import random
import sys
import time

import tatsu  # noqa: F401  (imported before forking)
import tatsu.exceptions
from tatsu.util import asjson

from bounded import bC03
from bounded import grammars as G
from bounded import specpeg as S
from bounded.bC02 import PI, canon, has_pi, load_generated, time_limit, Hang
from bounded.common import Budget, bitem, pmap

PROP = 'C04'
FUNCTION = ('Grammar.parse(text, memoization=, perlinememos=, prune_memos_on_cut=, trace=, colorize=, parseinfo=) '
            '(core.memo/memoize/cut, engine.rule_call/call, BoundedDict, ConsoleTracer, set_parseinfo)')
RULE = ('a case is (grammar, input, variant); distinct non-trivial = the cases of the (grammar, input) pairs for which the input '
        'is accepted, or (grammars without left recursion) some action runs more than once or memoization saves an action '
        'call, or the grammar contains a cut; counted once per variant')

VARIANTS = (
    ('memoization-off', {'memoization': False}),
    ('perlinememos-0.01', {'perlinememos': 0.01}),
    ('perlinememos-1', {'perlinememos': 1}),
    ('prune-off', {'prune_memos_on_cut': False}),
    ('prune-on', {'prune_memos_on_cut': True}),
    ('trace', {'trace': True}),
    ('trace-no-color', {'trace': True, 'colorize': False}),
    # a trace column narrower than a rule name: the tracer has to shorten the rule stack it prints
    ('trace-narrow', {'trace': True, 'trace_length': 3}),
    ('colorize-off', {'colorize': False}),
    ('colorize-on', {'colorize': True}),
    ('parseinfo', {'parseinfo': True}),
)

MEMO_GRAMMARS = (
    ('nomemo-retried', "start = x 'b' | x 'c' ;\n@nomemo\nx = 'a' ;", 'abc '),
    ('nostak-at-caller-start', "start = x 'b' $ ;\n@nostak\nx = 'a' ;", 'ab '),
    ('two-nostak-same-position', "start = x 'b' | y 'c' ;\n@nostak\nx = 'a' ;\n@nostak\ny = /a+/ ;", 'abc'),
    ('two-nomemo-same-position', "start = x 'b' | y 'c' ;\n@nomemo\nx = 'a' ;\n@nomemo\ny = /a+/ ;", 'abc'),
    ('nostak-and-nomemo', "start = x 'b' | y 'c' | z ;\n@nostak\n@nomemo\nx = 'a' ;\n@nostak\ny = 'a' 'a' ;\nz = x y ;", 'abc'),
    ('nostak-nested', "start = p 'c' | q ;\np = x 'b' ;\nq = x y ;\n@nostak\nx = 'a' ;\n@nostak\ny = x | 'b' ;", 'abc'),
    ('nostak-named', "start = l:x r:y $ | l:y $ ;\n@nostak\nx = v:'a' ;\n@nostak\ny = w:/[ab]/ ;", 'ab '),
    ('same-rule-two-options', "start = a 'b' | a 'c' | a ;\na = x:'a' {y+:'a'} ;", 'abc '),
    ('memo-behind-cut', "start = a 'b' | a 'c' ;\na = 'a' ~ q | 'c' ;\nq = 'a' | 'c' 'c' ;", 'abc'),
    ('cut-then-retry-earlier-rule', "start = {s} $ ;\ns = w 'b' ~ w | w 'c' ;\nw = /a+/ ;", 'abc'),
    ('more-memos-than-cache', "start = {a} 'b' $ | {a} 'c' $ | {a b_} $ ;\na = 'a' ;\nb_ = 'b' | 'c' ;", 'abc '),
    ('failure-memo', "start = p q | p r | r ;\np = 'a' ;\nq = 'b' 'b' ;\nr = 'b' | 'a' 'c' ;", 'abc'),
    # a rule fails twice at one position (recomputed, or replayed from the memo table) and another expression fails in between
    # at the same furthest position with an error of another class: the error that is reported must not depend on the replay
    ('failure-replayed-between-failures', "start = p 'x' | q | p 'z' ;\np = /a+/ 'b' ;\nq = /a+/ /c+/ ;", 'abc'),
    ('failure-replayed-nested', "start = s 'x' | t ;\ns = p 'b' | q 'b' ;\nt = q 'c' | p 'c' | p ;\np = 'a' 'a' ;\nq = 'a' /b+/ ;", 'abc'),
    ('lookahead-memo', "start = &a a 'b' | !b a 'c' | b ;\na = 'a' ;\nb = 'a' 'a' | 'b' ;", 'abc'),
    ('token-rule-blanks', "start = 'a' W 'b' $ | 'a' w 'b' 'b' $ ;\nW = /b*/ ;\nw = /b*/ ;", 'ab '),
    ('multi-line', "start = {l} $ ;\nl = w ';' | w '.' ;\nw = /a+/ ;", 'a;.\n'),
)


def _sample_descriptions(tier, seed):
    rnd = random.Random(seed)
    n = 36 if tier == 'quick' else 600
    pool = [d for d in G.two_rule(3, 2, 'core', 'core') if 'choice' in S.kinds_of(d[0][1])]
    out = rnd.sample(pool, min(n, len(pool)))
    out += rnd.sample(G.two_rule(2, 2), min(n // 2, 3114))
    out += rnd.sample(G.single_rule(3), min(n // 2, 1521))
    return G.dedup(out)


class Counting:
    """one action per rule: counts the call, returns the AST unchanged"""

    def __init__(self, rules):
        self.counts = dict.fromkeys(rules, 0)

    def _default(self, ast, *args, **kwargs):
        self.counts['?'] = self.counts.get('?', 0) + 1
        return ast


def counting_semantics(rules):
    ns = {}

    def make(name):
        def action(self, ast, *args, **kwargs):
            self.counts[name] += 1
            return ast
        return action

    from tatsu.util import safe_name
    for r in rules:
        ns[safe_name(r)] = make(r)
    return type('CountingSemantics', (Counting,), ns)(rules)


def exact_outcome(fn):
    """('ok', json) | ('fail', exact exception class name)"""
    from tatsu.exceptions import ParseException
    try:
        return ('ok', canon(asjson(fn())))
    except Hang:
        raise
    except ParseException as e:
        return ('fail', type(e).__name__)
    except RecursionError:
        return ('exc', 'RecursionError')
    except Exception as e:  # noqa: BLE001
        return ('exc', type(e).__name__, str(e)[:100])


def _dict_nodes_have_parseinfo(v, top=True):
    """every dict node of the result carries the parseinfo marker"""
    if isinstance(v, dict):
        if v.get('parseinfo') != PI:
            return False
        return all(_dict_nodes_have_parseinfo(x, False) for k, x in v.items() if k not in ('parseinfo', '__parseinfo__'))
    if isinstance(v, list):
        return all(_dict_nodes_have_parseinfo(x, False) for x in v)
    return True


def _strip(v):
    if isinstance(v, dict):
        return {k: _strip(x) for k, x in v.items() if k not in ('parseinfo', '__parseinfo__')}
    if isinstance(v, list):
        return [_strip(x) for x in v]
    return v


@contextlib.contextmanager
def _silenced():
    """stdout / stderr (file descriptors and python objects) -> os.devnull"""
    sys.stdout.flush()
    sys.stderr.flush()
    saved = os.dup(1), os.dup(2)
    null = os.open(os.devnull, os.O_WRONLY)
    try:
        os.dup2(null, 1)
        os.dup2(null, 2)
        with open(os.devnull, 'w') as f, contextlib.redirect_stdout(f), contextlib.redirect_stderr(f):
            yield
    finally:
        os.dup2(saved[0], 1)
        os.dup2(saved[1], 2)
        for fd in (*saved, null):
            os.close(fd)


def check_parser(label, text, parse, rules, lrec, inputs, stats, failures, samples, who='model'):
    """the variant matrix on one parse function `parse(input, **settings)`"""
    for inp in inputs:
        ref = exact_outcome(lambda: parse(inp))
        interesting = ref[0] == 'ok'
        w0 = {'grammar': text, 'input': inp, 'parser': who}
        for vname, vs in VARIANTS:
            if lrec and 'memoization' in vs:
                continue
            stats['cases'] += 1
            got = exact_outcome(lambda: parse(inp, **vs))
            if vname == 'parseinfo':
                if got[0] == 'ok':
                    if not _dict_nodes_have_parseinfo(got[1]):
                        failures.append({'witness': {**w0, 'settings': vs}, 'cls': 'parseinfo-entry-missing',
                                         'detail': f'parseinfo=True: an AST node without a parseinfo entry: {got[1]!r}'})
                    if has_pi(got[1]):
                        stats['parseinfo_seen'] += 1
                    got = ('ok', _strip(got[1]))
                want = ('ok', _strip(ref[1])) if ref[0] == 'ok' else ref
            else:
                want = ref
            if got != want:
                failures.append({'witness': {**w0, 'settings': vs}, 'cls': f'{vname}-changes-the-outcome',
                                 'detail': f'reference configuration: {want!r}; with {vs}: {got!r}'})
        # action counters
        if not lrec:
            on, off = counting_semantics(rules), counting_semantics(rules)
            r_on = exact_outcome(lambda: parse(inp, semantics=on))
            r_off = exact_outcome(lambda: parse(inp, semantics=off, memoization=False))
            stats['cases'] += 1
            if any(v > 1 for v in off.counts.values()) or sum(off.counts.values()) > sum(on.counts.values()):
                interesting = True
            if r_on != r_off or r_on != ref:
                failures.append({'witness': {**w0, 'settings': 'counting semantics (actions return the AST unchanged)'},
                                 'cls': 'memoization-changes-the-outcome-with-actions',
                                 'detail': f'no semantics: {ref!r}; memoization on: {r_on!r}; off: {r_off!r}'})
            more = {r: (on.counts[r], off.counts[r]) for r in on.counts if on.counts[r] > off.counts.get(r, 0)}
            if more:
                failures.append({'witness': {**w0, 'settings': 'counting semantics'},
                                 'cls': 'memoization-increases-action-calls',
                                 'detail': f'action calls (memoization on, off) per rule: {more}'})
            if len(samples) < 2 and sum(off.counts.values()) > sum(on.counts.values()):
                samples.append({'grammar': text, 'input': inp, 'action_calls_memo_on': on.counts, 'action_calls_memo_off': off.counts})
        if interesting or '~' in text:
            stats['nontrivial'] += len(VARIANTS) - (1 if lrec else 0)


def _work(chunk):
    stats = {'grammars': 0, 'cases': 0, 'nontrivial': 0, 'parseinfo_seen': 0, 'skipped': 0}
    failures, samples = [], []
    with _silenced():
        for label, text, inputs, generated in chunk:
            try:
                model = tatsu.compile(text)
            except Exception:  # noqa: BLE001
                stats['skipped'] += 1
                continue
            stats['grammars'] += 1
            rules = [r.name for r in model.rules]
            lrec = any(r.is_lrec for r in model.rules)
            try:
                with time_limit(90):
                    check_parser(label, text, model.parse, rules, lrec, inputs, stats, failures, samples)
                    if generated:
                        _src, cls = load_generated(text)
                        check_parser(label, text, lambda i, **kw: cls().parse(i, **kw), rules, lrec, inputs, stats,
                                     failures, samples, who='generated parser')
            except Hang:
                failures.append({'witness': {'grammar': text}, 'cls': 'parse-does-not-terminate',
                                 'detail': 'the variant matrix did not finish within 90s'})
    by, kept, counts = {}, [], {}
    for f in failures:
        by.setdefault(f['cls'], []).append(f)
    for c, fs in by.items():
        fs.sort(key=lambda f: len(repr(f['witness'])))
        counts[c] = len(fs)
        kept += fs[:5]
    return stats, kept, counts, samples[:2]


def run(tier='quick', seed=0, info=None):
    budget = Budget(60 if tier == 'quick' else 900)
    n = 4 if tier == 'quick' else 5
    work = []
    descs = _sample_descriptions(tier, seed)
    in_ab = G.inputs('ab ', n)
    for d in descs:
        work.append(('desc', S.to_text(d), in_ab, False))
    in_cut = G.inputs(G.CUT_ALPHABET, n)
    for _nm, d in G.CUT_GRAMMARS:
        work.append(('cut', S.to_text(d), in_cut, False))
    for name, desc, _leaders, starts, alpha, _ref in bC03.SCHEMAS:
        _rules, text = bC03.schema_text(desc, starts[:1])
        # the schema's first start rule is made the grammar's first rule by `start =`
        text = f'start = {bC03.TOP}{starts[0]} ;\n' + text
        work.append((f'lr/{name}', text, G.inputs(alpha, n if len(alpha) <= 4 else n - 1), False))
    for name, text, alpha in MEMO_GRAMMARS:
        work.append((f'memo/{name}', text, G.inputs(alpha, n + 1 if len(alpha) <= 3 else n), True))
    work.sort(key=lambda w: -len(w[2]) * (2 if w[3] else 1))  # one grammar per job, the largest first
    results = pmap(_work, [[w] for w in work])
    stats = {'grammars': 0, 'cases': 0, 'nontrivial': 0, 'parseinfo_seen': 0, 'skipped': 0}
    failures, counts, samples = [], {}, []
    for st, fs, cn, sm in results:
        for k in stats:
            stats[k] += st[k]
        failures += fs
        samples += sm
        for c, k in cn.items():
            counts[c] = counts.get(c, 0) + k
    items = bitem(PROP, 'configuration-matrix', function=FUNCTION,
                  domain=f'{len(descs)} sampled non-left-recursive grammars of bounded/grammars.py (two_rule(3,2,core) with a '
                         f'choice, two_rule(2,2), single_rule(3)) + {len(G.CUT_GRAMMARS)} CUT_GRAMMARS + {len(bC03.SCHEMAS)} '
                         f'left-recursive schemas of bC03 + {len(MEMO_GRAMMARS)} MEMO_GRAMMARS (@nomemo / @nostak rules at the '
                         "caller's start position, two such rules at one position, memos behind a cut, more memos than the cache "
                         f'holds; model and generated parser) x ALL inputs over the 3-4 letter alphabets of length <= {n} x '
                         f'{len(VARIANTS)} variants ({", ".join(v[0] for v in VARIANTS)}) + action counters',
                  bound=f'input length <= {n} ({n + 1} for 3-letter MEMO_GRAMMARS)', cases=stats['cases'],
                  distinct_nontrivial=stats['nontrivial'], rule=RULE, exhaustive=False, samples=samples[:4], failures=failures)
    for it in items:
        it.extra['programs'] = stats['grammars']
        it.extra['parseinfo_results_seen'] = stats['parseinfo_seen']
        c = it.id.rsplit('/', 1)[-1]
        if c in counts:
            it.extra['failing_cases'] = counts[c]
    if info is not None:
        info.setdefault('bounded', []).append({'run': 'bC04', 'tier': tier, 'wall_s': round(budget.spent(), 1)})
    run.summary = [('configuration-matrix', stats, budget.spent())]
    return items + veto_items()


# semantic actions that veto a rule (FailedSemantics): the failure the parse reports must not depend on memoization either
class _Veto:
    """vetoes the rule `strict` always, and the rule `a` for the text 'aa'"""

    def strict(self, ast):
        from tatsu.exceptions import FailedSemantics
        raise FailedSemantics('strict mode is not enabled')

    def a(self, ast):
        from tatsu.exceptions import FailedSemantics
        if ast == 'aa':
            raise FailedSemantics('aa is not allowed')
        return ast


VETO_GRAMMARS = (
    ('predicate-rule-tried-twice', "start = stmt $ ;\nstmt = 'let' strict name '=' name | 'let' strict '(' name ')' ;\nstrict = () ;\nname = /[a-z]+/ ;",
     ('let (x)', 'let x = y', 'let', 'let x', '')),
    ('vetoed-rule-three-options', "start = a 'b' $ | a 'c' $ | a $ ;\na = /a+/ ;", tuple(G.inputs('abc', 4))),
    ('vetoed-rule-in-closure', "start = {a ','} a $ | {a ';'} $ ;\na = /a+/ ;", tuple(G.inputs('a,;', 5))),
)


def veto_items():
    cases, failures, samples = 0, [], []
    with _silenced():
        for name, text, inputs in VETO_GRAMMARS:
            model = tatsu.compile(text)
            _src, cls = load_generated(text)
            for who, parse in (('model', model.parse), ('generated parser', lambda i, **kw: cls().parse(i, **kw))):
                for inp in inputs:
                    ref = exact_outcome(lambda: parse(inp, semantics=_Veto()))
                    for vname, settings in VARIANTS:
                        if 'parseinfo' in settings:
                            continue
                        cases += 1
                        got = exact_outcome(lambda: parse(inp, semantics=_Veto(), **settings))
                        if got != ref:
                            failures.append({'witness': {'grammar': text, 'input': inp, 'parser': who, 'settings': settings,
                                                         'semantics': 'FailedSemantics from the action of `strict` (always) / of `a` for "aa"'},
                                             'cls': f'{vname}-changes-the-outcome-of-a-vetoed-parse',
                                             'detail': f'reference configuration: {ref!r}; with {settings}: {got!r}'})
                    if len(samples) < 2 and ref[0] == 'fail':
                        samples.append({'grammar': text, 'input': inp, 'reference': repr(ref)})
    return bitem(PROP, 'semantic-veto-matrix', function=FUNCTION,
                 domain=f'{len(VETO_GRAMMARS)} grammars whose semantic actions veto a rule with FailedSemantics (a zero-width predicate rule tried by two '
                        'alternatives at one position; a vetoed rule under three options; in closures) x their inputs x the variants, model and generated parser',
                 bound='inputs listed / all strings <= 4-5 over 3 letters', cases=cases, distinct_nontrivial=cases // 2, rule='a case is (grammar, input, parser, variant)',
                 exhaustive=True, samples=samples, failures=failures)


def main(argv=None):
    from bounded.bC02 import print_summary
    argv = sys.argv[1:] if argv is None else argv
    tier = argv[0] if argv else 'quick'
    seed = int(argv[1]) if len(argv) > 1 else 0
    t0 = time.time()
    items = run(tier, seed, {})
    print_summary(items, run.summary, time.time() - t0)
    return 0


if __name__ == '__main__':
    sys.exit(main())
