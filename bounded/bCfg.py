"""Bounded companion of contracts/c_configs.py (C09/C10): the layering functions of tatsu/util/configs.py on REAL
ParserConfig objects against the reading of the contract, evaluated in python.

The contract speaks about the constructor arguments of the new object (before __post_init__ normalises them); here the
expected object is built by the same constructor -- dataclasses.replace(cfg, **expected_changes) -- and compared field by
field with the object the real function returns, so normalisation is the same on both sides.  It gives a failing input
where the proof part can only say `undecided` (quantified facts keep the solvers from producing counter-models).
"""
from __future__ import annotations

import dataclasses
import itertools
import warnings

from bounded.common import bitem

FIELDS = ('grammar', 'source', 'trace_length', 'comments', 'keywords', 'parseinfo', 'namechars', 'owner')


def _values():
    from tatsu.util.undefined import Undefined
    return {
        'grammar': [None, Undefined, 'G', ''],
        'source': [None, 's.ebnf', ''],
        'trace_length': [None, 0, 10],
        'comments': [None, '', '#.*'],
        'keywords': [None, (), ('if',), [], ['x']],
        'parseinfo': [None, False, True],
        'namechars': [None, '', '-'],
        'owner': [None, {}, {'k': 1}, set(), {1}, [], [0]],
    }


def _erases(cfg, name, value):
    from tatsu.util.undefined import Undefined
    if value is None or value is Undefined:
        return True
    if isinstance(value, (list, set, dict)):
        return bool(getattr(cfg, name)) and not value
    return False


def _noninit(cfg):
    return {f.name for f in dataclasses.fields(cfg) if not f.init}


def _expected(cfg, settings, *, hard=False, fill_only=False):
    """the object the contract describes, or the exception class"""
    unknown = [n for n in settings if not hasattr(cfg, n)]
    if unknown:
        return ValueError
    noninit = _noninit(cfg)
    changes = {}
    for n, v in settings.items():
        if n in noninit:
            continue
        if not hard and _erases(cfg, n, v):
            continue
        if fill_only and getattr(cfg, n, None) is not None:
            continue
        changes[n] = v
    new = dataclasses.replace(cfg, **changes)
    # ParserConfig.override (the wrapper around Config.override): the name follows the grammar name whenever a `grammar`
    # setting is passed to it -- merge passes only the settings it kept, the other functions pass what they were given
    if 'grammar' in (changes if fill_only else settings):
        new.name = new.grammar
    return new


def _same(a, b):
    if isinstance(a, type) or isinstance(b, type):
        return a is b
    return type(a) is type(b) and a.asdict() == b.asdict()


def _call(fn):
    try:
        return fn()
    except Exception as e:  # noqa: BLE001
        return type(e)


def run(prop, tier='quick', seed=0):
    from tatsu.config import ParserConfig
    warnings.simplefilter('ignore')
    vals = _values()
    bases = [ParserConfig(), ParserConfig(grammar='Base', source='b.ebnf', comments='//.*', keywords=('let',), namechars='_', owner={'o': 1}),
             ParserConfig(grammar='', parseinfo=True, owner=[1])]
    failures, cases, nontriv, samples = [], 0, 0, []

    def check(what, cfg, settings, got, want, extra=''):
        nonlocal cases, nontriv
        cases += 1
        if not isinstance(want, type) and not _same(want, cfg):
            nontriv += 1
        if len(samples) < 3:
            samples.append({'call': what, 'settings': repr(settings)})
        if not _same(got, want):
            diff = ''
            if not isinstance(got, type) and not isinstance(want, type):
                diff = '; fields that differ: ' + repr([(n, a, b) for n, a, b in got.diff(want)][:4])
            failures.append({'witness': {'call': what, 'config': repr({f: getattr(cfg, f) for f in FIELDS}), 'settings': repr(settings)},
                             'detail': f'{what}: got {got if isinstance(got, type) else "an object"}, the contract says '
                                       f'{want if isinstance(want, type) else "dataclasses.replace(cfg, **kept settings)"}{diff}{extra}',
                             'cls': what.split('(')[0] + '-differs-from-its-contract'})

    names = list(FIELDS)
    pairs = list(itertools.combinations(names, 2)) if tier == 'thorough' else list(itertools.combinations(names, 2))[::3]
    for cfg in bases:
        # one and two settings at a time, plus an unknown name
        combos = [{n: v} for n in names for v in vals[n]]
        for a, b in pairs:
            combos += [{a: va, b: vb} for va in vals[a] for vb in vals[b]]
        combos += [{'no_such_setting': 1}, {'grammar': 'X', 'no_such_setting': None}, {}]
        for st in combos:
            check('override(**settings)', cfg, st, _call(lambda: cfg.override(**st)), _call(lambda: _expected(cfg, st)))
            check('hard_override(**settings)', cfg, st, _call(lambda: cfg.hard_override(**st)), _call(lambda: _expected(cfg, st, hard=True)))
            check('merge(**settings)', cfg, st, _call(lambda: cfg.merge(**st)), _call(lambda: _expected(cfg, st, fill_only=True)))
        # a whole configuration laid over / merged into this one
        for other in bases:
            for n in names:
                for v in vals[n]:
                    o = _call(lambda: dataclasses.replace(other, **{n: v}))
                    if isinstance(o, type):
                        continue
                    od = o.asdict()
                    check('override_config(other)', cfg, {n: v}, _call(lambda: cfg.override_config(o)), _call(lambda: _expected(cfg, od)))
                    check('merge_config(other)', cfg, {n: v}, _call(lambda: cfg.merge_config(o)), _call(lambda: _expected(cfg, od, fill_only=True)))
        got = cfg.override_config(None)
        cases += 1
        if got is not cfg:
            failures.append({'witness': {'call': 'override_config(None)'}, 'detail': 'did not return the object itself', 'cls': 'override_config-differs-from-its-contract'})
        # the argument objects are never modified and the result is a new object
        before = cfg.asdict()
        r = cfg.override(grammar='Z')
        cases += 1
        if cfg.asdict() != before or r is cfg:
            failures.append({'witness': {'call': "override(grammar='Z')"}, 'detail': 'the receiver was modified or returned', 'cls': 'override-modifies-its-receiver'})
    return bitem(prop, 'config-layering-functions',
                 function='Config.override / hard_override / merge / override_config / merge_config on ParserConfig objects',
                 domain='3 configurations x (every value of 8 fields alone, sampled pairs of fields, unknown names, empty) incl. None / Undefined / empty and '
                        'non-empty list, set, dict, tuple values; 3 x 3 configurations for the *_config forms',
                 bound='at most 2 settings per call (quick: a third of the field pairs)', cases=cases, distinct_nontrivial=nontriv,
                 rule='a case is (function, configuration, settings); non-trivial when the expected result differs from the receiver',
                 exhaustive=False, samples=samples, failures=failures)
