"""C19 bounded stand-in: the packet encoding is lossless and the file queue delivers each packet once, in order.

(a) function-level inverses on the REAL functions (compact.py rle_*, escape.py compress/expand, packet.py
    hashed/unhashed, class_escape/class_unescape, util/tty.py tty_escape/tty_unescape, pack/unpack) over every
    string up to a length bound over the alphabet the encoding itself uses, run-structured strings (long runs,
    two-digit counts) and nested dict/list payloads of depth <= 2 with class-marker keys.
(b) queue histories on the REAL PacketzQueue (temp files under /var/tmp): every interleaving of sends and
    receives (two long-lived readers, one of them also consuming one packet at a time from a suspended
    `receive()` generator, optionally the sender itself), plus a late reader.
(c) crash points: the last record cut at EVERY byte offset (cold reader, writer resumes, live reader, a new
    record glued behind the partial one) and single-byte corruptions of a complete record.

A failing round trip is attributed to a layer by re-running each layer's inverse on the intermediate value
the real pipeline produced (this only chooses the `cls` slug, the verdict comes from the real pack/unpack).
"""
from __future__ import annotations

import contextlib
import io
import itertools
import json
import os
import random
import re
import shutil
import sys
import tempfile
import time
import warnings
from collections import Counter

from bounded.common import JOBS, Budget, bitem, pmap

PROP = 'C19'
ALPHA = ['~', 'a', '1', ' ', '\\', 'e', '"', '@', ':']
SCRATCH_PARENT = '/var/tmp'

# strings outside the alphabet that the layers are sensitive to (applied to every string-level pair and to pack)
CURATED = ['\\x1b', '\\\\x1b', 'f{a', 'f{a}', '\\e[1m', '\\e[1mab\\e[0m', '\x1b[1mab\x1b[0m', '\x1b', '}', '{', '"}', '}"', 'a\nb',
           '\n', '\r', ' ', '\x85', 'é', '€~€€€€€', '~' * 12, 'a' * 12, '1' * 11, '1' * 4 + '2', '~a12~', '~11~', '~~a1~~',
           ' ' * 10 + '~', '~' + ' ' * 10, '~5~', '~~5~~', ' ' * 5 + '5', '"__class__":', '"@":', '__class__', '@', '\\u001b',
           '\\\\e', '\\\\\\e', '\n' * 4, 'a' + '\n' * 5 + 'b', '\r' * 6, '\u2028' * 4, 'αβγ', '퟿', '\x00', '\x7f', 'x' * 300, ' ' * 300 + '~~' + 'y' * 300]


def _imports():
    from tatsu.packetz import compact, escape, packet
    from tatsu.util import tty
    return compact, escape, packet, tty


_TOKEN = re.compile(r'~~|~([^~])(\d+)~')


def ref_rle_decode(s):
    """reference reading of the compact.py format: one left-to-right pass over the tokens `~~` (a literal tilde)
    and `~cN~` (N times c); used only to tell an encoder fault from a decoder fault"""
    return _TOKEN.sub(lambda m: '~' if m.group(0) == '~~' else m.group(1) * int(m.group(2)), s)


def rle_cls(t, compact):
    try:
        enc_ok = ref_rle_decode(compact.rle_encode(t)) == t
    except Exception:
        enc_ok = False
    # encoder output is fine, the real two-pass decoder reads a doubled literal tilde as the start of a run marker
    return 'rle-literal-run-marker' if enc_ok else 'rle-encode-lossy'


@contextlib.contextmanager
def quiet():
    """unhashed() reports bad lines through ERROR_print (stderr + warnings.warn)"""
    with warnings.catch_warnings(), contextlib.redirect_stderr(io.StringIO()):
        warnings.simplefilter('ignore')
        yield


def same(a, b):
    """type-strict deep equality (a Style or a namespace is not the str / dict that was sent)"""
    if type(a) is not type(b):
        return False
    if isinstance(a, dict):
        return list(a.keys()) == list(b.keys()) and all(same(a[k], b[k]) for k in a)
    if isinstance(a, list):
        return len(a) == len(b) and all(same(x, y) for x, y in zip(a, b))
    return a == b


def short(x, n=160):
    r = repr(x)
    return r if len(r) <= n else r[:n] + '...'


# ------------------------------------------------------------------------------------------------
# attribution of a pack/unpack failure to a layer

def _leaves(v, keys=False):
    if isinstance(v, str):
        yield v
    elif isinstance(v, dict):
        for k, x in v.items():
            if keys:
                yield k
            yield from _leaves(x, keys)
    elif isinstance(v, list):
        for x in v:
            yield from _leaves(x, keys)


def _has_key(v, key):
    if isinstance(v, dict):
        return key in v or any(_has_key(x, key) for x in v.values())
    if isinstance(v, list):
        return any(_has_key(x, key) for x in v)
    return False


def attribute(p, to, data):
    compact, escape, packet, tty = _imports()
    from tatsu.util.asjson import asjson
    out = []
    try:
        v0 = asjson(p)
        for s in _leaves(v0):
            if compact.rle_decode(compact.rle_encode(s)) != s:
                out.append(rle_cls(s, compact))
                break
        v1 = compact.compact_value(v0)
        j = json.dumps(v1, separators=(',', ':'), ensure_ascii=False)
        names = packet.pack.__code__.co_names
        c = j
        if 'class_escape' in names:
            c = packet.class_escape(j)
            if packet.class_unescape(c) != j:
                out.append('class-marker-key-at')
        t = c
        if 'tty_escape' in names:
            t = tty.tty_escape(c)
            if tty.tty_unescape(t) != c:
                out.append('tty-escape-literal-backslash-e' if '\\e' in c else
                           'tty-escape-literal-backslash-x1b' if '\\x1b' in c else 'tty-roundtrip-other')
        try:
            if packet.unhashed(packet.hashed(t)) != t:
                out.append('hashed-roundtrip')
        except Exception:
            out.append('hashed-roundtrip')
    except Exception as e:  # attribution must never mask the finding
        out.append(f'attribution-failed-{type(e).__name__}')
    if not out:
        if _has_key(data, '__class__'):
            out.append('class-marker-key-dunder-class')
        elif any(s.startswith(('\\e[', 'f{')) for s in _leaves([to, data])):
            out.append('fromjson-style-sniff')
        else:
            out.append('unpack-other')
    return out


def check_pack(to, data):
    """-> list of (cls, detail) for Packet(to=to, data=data) through the real pack/unpack"""
    compact, escape, packet, tty = _imports()
    p = packet.Packet(to=to, data=data)
    try:
        s = packet.pack(p)
    except Exception as e:
        return [('pack-raises', f'pack raised {type(e).__name__}: {e}')]
    if '\n' in s:
        return [('packed-text-has-newline', f'pack produced a text with a newline: {short(s)}')]
    try:
        q = packet.unpack(s)
    except Exception as e:
        detail = f'unpack(pack(p)) raised {type(e).__name__}: {short(str(e), 120)}; packed text {short(s)}'
        return [(c, detail) for c in attribute(p, to, data)]
    ok = type(q) is type(p) and q.id == p.id and same(q.to, to) and same(q.data, data)
    if ok:
        return []
    detail = (f'sent to={short(to, 60)} data={short(data)}; got back {type(q).__name__} to={short(getattr(q, "to", None), 60)} '
              f'data={short(getattr(q, "data", None))} (id kept: {getattr(q, "id", None) == p.id}); packed text {short(s)}')
    return [(c, detail) for c in attribute(p, to, data)]


# ------------------------------------------------------------------------------------------------
# (a) strings

def string_pairs():
    compact, escape, packet, tty = _imports()
    pack_names = packet.pack.__code__.co_names
    pairs = [
        ('rle', compact.rle_encode, compact.rle_decode,
         lambda t: rle_cls(t, compact), True),
        ('escape', escape.compress, escape.expand, lambda t: 'escape-compress-roundtrip', True),
        ('hashed', packet.hashed, packet.unhashed, lambda t: 'hashed-roundtrip', True),
        ('class', packet.class_escape, packet.class_unescape,
         lambda t: 'class-marker-key-at' if '"@":' in t else 'class-escape-roundtrip-other', 'class_escape' in pack_names),
        ('tty', tty.tty_escape, tty.tty_unescape,
         lambda t: 'tty-escape-literal-backslash-e' if '\\e' in t else
         'tty-escape-literal-backslash-x1b' if '\\x1b' in t else 'tty-roundtrip-other', 'tty_escape' in pack_names),
    ]
    return pairs


class Acc:
    """per chunk: cases / non-trivial counts and the smallest failure per (item, cls)"""

    def __init__(self):
        self.cases = Counter()
        self.nontrivial = Counter()
        self.fails = {}
        self.nfail = Counter()

    def fail(self, item, cls_, witness, detail):
        self.nfail[(item, cls_)] += 1
        cur = self.fails.get((item, cls_))
        if cur is None or len(repr(witness)) < len(repr(cur[0])):
            self.fails[(item, cls_)] = (witness, detail)

    def merge(self, other):
        self.cases.update(other.cases)
        self.nontrivial.update(other.nontrivial)
        self.nfail.update(other.nfail)
        for k, (w, d) in other.fails.items():
            cur = self.fails.get(k)
            if cur is None or len(repr(w)) < len(repr(cur[0])):
                self.fails[k] = (w, d)
        return self


def check_string(t, acc, pairs, hashed_ok=True, with_to=True):
    for name, enc, dec, classify, _in_pipeline in pairs:
        if name == 'hashed' and not hashed_ok:
            continue
        acc.cases[name] += 1
        try:
            e = enc(t)
            if name == 'hashed':
                nt = bool(t)
            elif name in ('class', 'tty'):
                nt = e != t or dec(t) != t
            else:
                nt = e != t
            acc.nontrivial[name] += nt
            back = dec(e)
        except Exception as x:
            acc.fail(name, classify(t), t, f'{dec.__name__}({enc.__name__}(t)) raised {type(x).__name__}: {short(str(x), 100)}')
            continue
        if back != t:
            acc.fail(name, classify(t), t, f'{dec.__name__}({enc.__name__}({t!r})) = {back!r}; encoded {e!r}')
    acc.cases['pack-data'] += 1
    acc.nontrivial['pack-data'] += (pairs[0][1](t) != t or json.dumps(t, ensure_ascii=False) != f'"{t}"' or '\\e' in t or '@' in t)
    for cls_, detail in check_pack('r', t):
        acc.fail('pack-data', cls_, dict(to='r', data=t), detail)
    if with_to:
        acc.cases['pack-to'] += 1
        acc.nontrivial['pack-to'] += (json.dumps(t, ensure_ascii=False) != f'"{t}"' or '\\e' in t or '@' in t or '~' in t)
        for cls_, detail in check_pack(t, 0):
            acc.fail('pack-to', cls_, dict(to=t, data=0), detail)


def strings_chunk(arg):
    prefix, maxlen, tolen = arg
    acc = Acc()
    pairs = string_pairs()
    with quiet():
        if prefix is None:  # the short ones
            for n in range(0, 2):
                for tup in itertools.product(ALPHA, repeat=n):
                    check_string(''.join(tup), acc, pairs)
            return acc
        for n in range(0, maxlen - len(prefix) + 1):
            for tup in itertools.product(ALPHA, repeat=n):
                t = prefix + ''.join(tup)
                check_string(t, acc, pairs, with_to=len(t) <= tolen)
    return acc


def runs_chunk(arg):
    """run-structured strings: up to `blocks` blocks c*n"""
    firsts, chars, counts, blocks = arg
    acc = Acc()
    pairs = [p for p in string_pairs() if p[0] in ('rle', 'escape')]
    with quiet():
        for first in firsts:
            for nb in range(0, blocks):
                for rest in itertools.product(itertools.product(chars, counts), repeat=nb):
                    t = first[0] * first[1] + ''.join(c * n for c, n in rest)
                    for name, enc, dec, classify, _ in pairs:
                        acc.cases['runs-' + name] += 1
                        e = enc(t)
                        acc.nontrivial['runs-' + name] += e != t
                        back = dec(e)
                        if back != t:
                            acc.fail('runs-' + name, classify(t), t, f'{dec.__name__}({enc.__name__}({short(t, 80)})) = {short(back, 80)}; encoded {short(e, 80)}')
                    acc.cases['runs-pack'] += 1
                    acc.nontrivial['runs-pack'] += 1
                    for cls_, detail in check_pack(None, t):
                        acc.fail('runs-pack', cls_, dict(to=None, data=t), detail)
    return acc


def curated_acc():
    acc = Acc()
    pairs = string_pairs()
    with quiet():
        for t in CURATED:
            check_string(t, acc, pairs, hashed_ok='\n' not in t and '\r' not in t)
    return acc


# nested payloads -----------------------------------------------------------------------------------

def nested_payloads(tier, rng):
    leaves = ['', 'a', 'aaaaa', '~', '~a1~', '\\e', '@', '"@":', ':', '1111', ' ' * 6, 'f{a', '\\e[1m', '__class__', 'Packet',
              0, 1, -7, 1.5, True, False, None]
    keys = ['a', '@', '__class__', '~a4~', 'aaaa', '\\e', 'x"@', ':', '', 'e', 'id', 'data', 'to', '1']
    if tier != 'quick':
        leaves += [''.join(t) for t in itertools.product(ALPHA, repeat=2)][::3] + ['~~', 'x' * 40, '\\x1b', 'é']
        keys += ['"', '~', '@@', '__class__:', 'hash', ' ', '~a1~', '"@"']
    out = [leaf for leaf in leaves]
    out += [[]] + [{}]
    out += [[leaf] for leaf in leaves] + [[a, b] for a, b in itertools.product(leaves[:8], repeat=2)]
    out += [{k: leaf} for k in keys for leaf in leaves]
    out += [{k1: 'x', k2: 1} for k1, k2 in itertools.permutations(keys, 2)]
    out += [{k: [leaf]} for k in keys for leaf in leaves]
    out += [[{k: leaf}] for k in keys for leaf in leaves]
    out += [[[leaf]] for leaf in leaves]
    out += [{k: {k2: leaf}} for k in keys for k2 in keys for leaf in leaves]
    out += [{k: {}} for k in keys] + [{k: []} for k in keys] + [[{}], [[]]]
    return out


def nested_chunk(payloads):
    acc = Acc()
    with quiet():
        for d in payloads:
            acc.cases['pack-nested'] += 1
            acc.nontrivial['pack-nested'] += isinstance(d, (dict, list)) and bool(d)
            for cls_, detail in check_pack('r', d):
                acc.fail('pack-nested', cls_, dict(to='r', data=d), detail)
    return acc


# ------------------------------------------------------------------------------------------------
# (b) queue histories

DATA = ['m0', {'k': [1, 'x'], 'n': None}, 'zzzzzz~ end', ['é', 2.5], 'm4']


class Scratch:
    """cwd moved into a fresh directory under /var/tmp (PacketzQueue creates ./.packetz in the cwd)"""

    def __init__(self, tag):
        self.tag = tag

    def __enter__(self):
        self.old = os.getcwd()
        self.dir = tempfile.mkdtemp(prefix=f'bC19-{self.tag}-', dir=SCRATCH_PARENT)
        os.chdir(self.dir)
        return self.dir

    def __exit__(self, *a):
        os.chdir(self.old)
        shutil.rmtree(self.dir, ignore_errors=True)


def seq_verdict(sent, got):
    """safety of what one reader has been given so far; -> (cls, detail) or None"""
    ids = [p.id for p in got]
    sids = [p.id for p in sent]
    if ids == sids[:len(ids)]:
        for s, g in zip(sent, got):
            if not (same(g.to, s.to) and same(g.data, s.data)):
                return 'queue-content-changed', f'sent {short(s.data)} delivered {short(g.data)}'
        return None
    if len(set(ids)) < len(ids):
        return 'queue-packet-repeated', f'delivered ids {ids} for sent {sids}'
    if any(i not in sids for i in ids):
        return 'queue-unsent-packet-delivered', f'delivered ids {ids} for sent {sids}'
    it = iter(sids)
    if all(i in it for i in ids):
        return 'queue-packet-lost', f'a packet was skipped: delivered ids {ids} for sent {sids}'
    return 'queue-out-of-order', f'delivered ids {ids} for sent {sids}'


def run_history(ops, self_send, path):
    from tatsu.packetz.queue import PacketzQueue
    if os.path.exists(path):
        os.unlink(path)
    A, B = PacketzQueue(path), PacketzQueue(path)
    W = A if self_send else PacketzQueue(path)
    readers = {'A': A, 'B': B}
    sent = []
    got = {'A': [], 'B': []}
    gens = {}
    fails = []

    def receive(name, op):
        R = readers[name]
        g = gens.pop(name, None)
        fresh = g is None
        if fresh:
            g = R.receive()
        try:
            if op == 'step':
                try:
                    got[name].append(next(g))
                    gens[name] = g
                except StopIteration:
                    pass
            else:
                got[name].extend(g)
        except Exception as e:
            fails.append(('queue-receive-raises', f'{type(e).__name__}: {e}'))
            return
        v = seq_verdict(sent, got[name])
        if v:
            fails.append(v)
        elif fresh and op == 'drain' and len(got[name]) != len(sent):
            fails.append(('queue-packet-not-delivered', f'reader {name}: a new receive() after {len(sent)} completed sends '
                          f'has delivered {len(got[name])} packets in total'))

    for op in ops:
        if op == 'S':
            i = len(sent)
            try:
                sent.append(W.send(to=f'r{i}', data=DATA[i]))
            except Exception as e:
                fails.append(('queue-send-raises', f'{type(e).__name__}: {e}'))
        elif op in 'AB':
            receive(op, 'drain')
        elif op == 'a':
            receive('A', 'step')
        if fails:
            break
    if not fails:
        for g in gens.values():
            g.close()
        gens.clear()
        readers['C'] = PacketzQueue(path)
        got['C'] = []
        for name in 'ABC':
            receive(name, 'drain')
            if fails:
                break
        if not fails:
            for name in 'ABC':  # and nothing comes twice on yet another call
                before = len(got[name])
                receive(name, 'drain')
                if not fails and len(got[name]) != before:
                    fails.append(('queue-packet-repeated', 'a further receive() delivered more'))
    return fails


def histories(smax, rmax):
    out = []

    def rec(seq, s, r):
        out.append(seq)
        if s < smax:
            rec(seq + 'S', s + 1, r)
        if r < rmax:
            for op in 'ABa':
                rec(seq + op, s, r + 1)
    rec('', 0, 0)
    return out


def histories_chunk(arg):
    idx, chunk = arg
    acc = Acc()
    with Scratch(f'h{idx}') as d, quiet():
        path = os.path.join(d, 'q.pktz.jsonl')
        for ops, self_send in chunk:
            acc.cases['histories'] += 1
            acc.nontrivial['histories'] += ('S' in ops and any(c in ops for c in 'ABa'))
            for cls_, detail in run_history(ops, self_send, path):
                acc.fail('histories', cls_, dict(ops=ops, sender='reader A' if self_send else 'separate writer',
                                                 legend='S send, A/B receive() drained by reader A/B, a = one next() on reader A\'s suspended receive()'),
                         detail)
    return acc


# ------------------------------------------------------------------------------------------------
# (c) crash points and corruption

FIXED_IDS = ['αβγδεζηθ', 'ικλμνξοπ', 'ρστυφχψω', 'αααααααβ', 'ωωωωωωωα']
CRASH_VARIANTS = {
    'ascii': ('r', 'xyz'),
    'nonascii': ('ré', ['é€', 'aaaaa~']),
    'dict': (None, {'k': [1, 2.5, None], 'é': 'v'}),
    # thorough only: a record longer than the text layer's 8192-byte read chunk, two-byte characters throughout
    'big': ('r', ''.join('αβγδεζ'[i % 6] for i in range(4300))),
}


def mk_record(i, to, data):
    from tatsu.packetz.packet import Packet, pack
    p = Packet(to=to, data=data)
    p.id = FIXED_IDS[i]
    return p, (pack(p) + '\n').encode('utf-8')


def drain(R, log):
    """one receive() call, fully consumed; -> exception or None"""
    try:
        for p in R.receive():
            log.append(p)
    except Exception as e:
        return e
    return None


def exc_cls(e):
    n = type(e).__name__
    if n == 'UnicodeDecodeError':
        return 'receive-raises-unicodedecodeerror'
    if n == 'CannotUnPacketError':
        return 'receive-raises-cannotunpacket'
    return f'receive-raises-{n.lower()}'


def deliver_verdict(log, must, may=()):
    """delivered packets `log` against the sent ones: `must` (in order, once), `may` optional"""
    ids = [p.id for p in log]
    allowed = {p.id: p for p in list(must) + list(may)}
    if len(set(ids)) < len(ids):
        return 'queue-packet-repeated', f'delivered ids {ids}'
    for p in log:
        s = allowed.get(p.id)
        if s is None or not (same(p.to, s.to) and same(p.data, s.data)):
            return 'corrupt-line-delivered', f'delivered a packet that was never sent: id={p.id!r} to={short(p.to, 40)} data={short(p.data, 80)}'
    want = [p.id for p in must]
    core = [i for i in ids if i in set(want)]
    if core != want:
        return 'queue-packet-lost', f'complete packets {want} but delivered {ids}'
    order = [p.id for p in list(must) + list(may)]
    pos = [order.index(i) for i in ids]
    if pos != sorted(pos):
        return 'queue-out-of-order', f'delivered ids {ids}'
    return None


def crash_chunk(arg):
    idx, variant, n_before, part, nparts = arg
    from tatsu.packetz.queue import PacketzQueue
    acc = Acc()
    to, data = CRASH_VARIANTS[variant]
    with Scratch(f'c{idx}') as d, quiet():
        path = os.path.join(d, 'q.pktz.jsonl')
        before = [mk_record(i, f'r{i}', DATA[i]) for i in range(n_before)]
        last_p, last_b = mk_record(n_before, to, data)
        nxt_p, nxt_b = mk_record(n_before + 1, 'n', 'next')
        head = b''.join(b for _, b in before)
        sent_before = [p for p, _ in before]
        L = len(last_b)

        def write(b):
            with open(path, 'wb') as f:
                f.write(b)

        def wit(scn, k):
            return dict(scenario=scn, complete_records_before=n_before, last_record=variant, cut_at_byte=k, of=L,
                        bytes_around_cut=repr(last_b[max(0, k - 6):k]) + '|' + repr(last_b[k:k + 4]))

        def step(scn, k, R, log, must, may=()):
            e = drain(R, log)
            if e is not None:
                acc.fail('crash', exc_cls(e), wit(scn, k), f'receive() raised {type(e).__name__}: {short(str(e), 120)}')
            v = deliver_verdict(log, must, may) if e is None else deliver_verdict(log, [p for p in must if p.id in {q.id for q in log}], list(must) + list(may))
            if v:
                acc.fail('crash', v[0], wit(scn, k), v[1])

        for k in range(part, L + 1, nparts):
            complete = k == L
            now = sent_before + ([last_p] if complete else [])
            # cold reader on the cut file, then the writer finishes the record
            acc.cases['crash'] += 1
            acc.nontrivial['crash'] += 0 < k < L
            write(head + last_b[:k])
            R, log = PacketzQueue(path), []
            step('cold reader', k, R, log, now)
            write(head + last_b)
            step('cold reader, then the writer completes the record', k, R, log, sent_before + [last_p])
            step('cold reader, record completed, one more receive()', k, R, log, sent_before + [last_p])
            # live reader: saw the complete part, then the partial record, then the rest
            acc.cases['crash'] += 1
            acc.nontrivial['crash'] += 0 < k < L
            write(head)
            R, log = PacketzQueue(path), []
            step('live reader, before the write', k, R, log, sent_before)
            write(head + last_b[:k])
            step('live reader, partial record present', k, R, log, now)
            write(head + last_b)
            step('live reader, record completed', k, R, log, sent_before + [last_p])
            # the writer died: a new complete record lands behind the partial one
            acc.cases['crash'] += 1
            acc.nontrivial['crash'] += 0 < k < L
            write(head + last_b[:k])
            R, log = PacketzQueue(path), []
            drain(R, log)  # (already judged above)
            log = [p for p in log]
            write(head + last_b[:k] + nxt_b)
            must = now + ([nxt_p] if k in (0, L) else [])
            may = [] if k in (0, L) else [nxt_p]
            e = drain(R, log)
            if e is not None:
                acc.fail('crash', exc_cls(e), wit('partial record followed by a new complete record', k),
                         f'receive() raised {type(e).__name__}: {short(str(e), 120)}')
            else:
                v = deliver_verdict(log, must, may)
                if v:
                    acc.fail('crash', v[0], wit('partial record followed by a new complete record', k), v[1])
    return acc


def corrupt_chunk(arg):
    idx, which = arg
    from tatsu.packetz.queue import PacketzQueue
    acc = Acc()
    with Scratch(f'x{idx}') as d, quiet():
        path = os.path.join(d, 'q.pktz.jsonl')
        recs = [mk_record(0, 'r0', DATA[0]), mk_record(1, 'ré', {'k': ['é€', 'aaaaa~'], 'n': 12}), mk_record(2, 'r2', DATA[2])]
        target = recs[which][1]
        others = [p for i, (p, _) in enumerate(recs) if i != which]
        muts = []
        for j in range(len(target) - 1):
            muts.append(('delete', j, target[:j] + target[j + 1:]))
            for rep in (b'#', b'}', b'"', b'\n', b'0', b'\xce'):
                if target[j:j + 1] != rep:
                    muts.append((f'replace by {rep!r}', j, target[:j] + rep + target[j + 1:]))
        for kind, j, bad in muts:
            acc.cases['corrupt'] += 1
            acc.nontrivial['corrupt'] += 1
            with open(path, 'wb') as f:
                f.write(b''.join(bad if i == which else b for i, (_, b) in enumerate(recs)))
            R, log = PacketzQueue(path), []
            w = dict(record=which, of=3, mutation=kind, at_byte=j, bytes_around=repr(target[max(0, j - 6):j]) + '|' + repr(target[j:j + 4]))
            e = drain(R, log)
            if e is not None:
                acc.fail('corrupt', exc_cls(e), w, f'receive() raised {type(e).__name__}: {short(str(e), 120)}')
                e2 = drain(R, log)  # the consumer retries
                if e2 is not None:
                    continue
            v = deliver_verdict(log, others)
            if v:
                acc.fail('corrupt', v[0], w, v[1])
    return acc


def hostile_and_clock():
    """queue-level view of the encoding findings, and id collisions under a controlled clock"""
    from tatsu.packetz.queue import PacketzQueue
    import tatsu.util.misc as misc
    acc = Acc()
    with Scratch('q') as d, quiet():
        path = os.path.join(d, 'q.pktz.jsonl')
        for hostile in ['\\e', 'x\\ey', '~a1~', {'@': 1}, {'__class__': 'x'}, 'f{a', 'plain']:
            if os.path.exists(path):
                os.unlink(path)
            W, R = PacketzQueue(path), PacketzQueue(path)
            sent = [W.send(to='r', data='first'), W.send(to='r', data=hostile), W.send(to='r', data='third')]
            acc.cases['hostile'] += 1
            acc.nontrivial['hostile'] += hostile != 'plain'
            log = []
            w = dict(sent_data=['first', hostile, 'third'])
            for _attempt in range(3):
                e = drain(R, log)
                if e is None:
                    break
                acc.fail('hostile', exc_cls(e), w, f'receive() raised {type(e).__name__}: {short(str(e), 100)} (the packet is consumed: '
                         f'the next receive() continues behind it); delivered so far {[short(p.data, 30) for p in log]}')
            ids = [p.id for p in log]
            if ids.count(sent[0].id) != 1 or ids.count(sent[2].id) != 1 or ids.index(sent[0].id) > ids.index(sent[2].id):
                acc.fail('hostile', 'queue-packet-lost', w, f'clean neighbours not delivered once in order: {[short(p.data, 30) for p in log]}')
            mid = [p for p in log if p.id == sent[1].id]
            if len(mid) != 1 or not same(mid[0].data, hostile):
                p = sent[1]
                for cls_ in attribute(p, 'r', hostile):
                    acc.fail('hostile', cls_, w, f'second packet: sent {short(hostile)} delivered {[short(x.data) for x in mid]}')
        # ids are time.monotonic_ns() mod 10**8: two sends exactly k * 0.1 s apart collide, the reader drops the second
        real_time = misc.time
        for gap in (1, 10 ** 8, 3 * 10 ** 8):
            ticks = iter([123456789012, 123456789012 + gap])

            class Clock:
                def __getattr__(self, name):
                    return getattr(real_time, name)

                def monotonic_ns(self):
                    return next(ticks)
            if os.path.exists(path):
                os.unlink(path)
            W, R = PacketzQueue(path), PacketzQueue(path)
            misc.time = Clock()
            try:
                sent = [W.send(to='r', data='one'), W.send(to='r', data='two')]
            finally:
                misc.time = real_time
            acc.cases['clock'] += 1
            acc.nontrivial['clock'] += gap != 1
            log = []
            e = drain(R, log)
            if e is not None or [p.data for p in log] != ['one', 'two']:
                acc.fail('clock', 'id-collision-mod-1e8', dict(monotonic_ns_of_the_two_sends=[123456789012, 123456789012 + gap]),
                         f'two completed sends {gap} ns apart get ids {[p.id for p in sent]}; receive() delivered {[p.data for p in log]}'
                         + (f' and raised {e!r}' if e else '') + ' (ids are monotonic_ns mod 10**8, duplicates are dropped by the reader)')
    return acc


def writer_matches_pack():
    """the crash/corruption files are built from pack(); confirm that is byte for byte what send() writes"""
    from tatsu.packetz.packet import pack
    from tatsu.packetz.queue import PacketzQueue
    with Scratch('w') as d, quiet():
        path = os.path.join(d, 'q.pktz.jsonl')
        W = PacketzQueue(path)
        ps = [W.send(to='ré', data=x) for x in DATA]
        raw = open(path, 'rb').read()
        return raw == b''.join((pack(p) + '\n').encode('utf-8') for p in ps)


# ------------------------------------------------------------------------------------------------

ITEMS = {
    'rle': ('rle-pair', 'tatsu/packetz/compact.py:rle_encode, rle_decode', 'rle_decode(rle_encode(t)) == t'),
    'escape': ('compress-expand-pair', 'tatsu/packetz/escape.py:compress, expand', 'expand(compress(t)) == t'),
    'hashed': ('hashed-pair', 'tatsu/packetz/packet.py:hashed, unhashed', 'unhashed(hashed(d)) == d'),
    'class': ('class-escape-pair', 'tatsu/packetz/packet.py:class_escape, class_unescape', 'class_unescape(class_escape(s)) == s'),
    'tty': ('tty-escape-pair', 'tatsu/util/tty.py:tty_escape, tty_unescape', 'tty_unescape(tty_escape(s)) == s'),
    'pack-data': ('unpack-pack-data-strings', 'tatsu/packetz/packet.py:pack, unpack', 'unpack(pack(Packet(to="r", data=t))) has the same id, to, data'),
    'pack-to': ('unpack-pack-to-strings', 'tatsu/packetz/packet.py:pack, unpack', 'unpack(pack(Packet(to=t, data=0))) has the same id, to, data'),
}


def run(tier, seed, info):
    budget = Budget(90 if tier == 'quick' else 900)
    quick = tier == 'quick'
    maxlen = 5 if quick else 7
    tolen = 4 if quick else 5
    rng = random.Random(seed * 104729 + 19)
    items = []
    pack_names = _imports()[2].pack.__code__.co_names

    # (a) strings --------------------------------------------------------------------------------
    plen = 2 if quick else 3
    prefixes = [''.join(t) for t in itertools.product(ALPHA, repeat=plen)]
    args = [(None, maxlen, tolen)] + [(p, maxlen, tolen) for p in prefixes]
    if plen == 3:
        args += [(''.join(t), 2, tolen) for t in itertools.product(ALPHA, repeat=2)]  # the length-2 strings themselves
    acc = Acc()
    for a in pmap(strings_chunk, args):
        acc.merge(a)
    cur = curated_acc()
    nstrings = sum(len(ALPHA) ** n for n in range(maxlen + 1))
    for key, (name, fn, law) in ITEMS.items():
        in_pipeline = not (key == 'tty' and 'tty_escape' not in pack_names) and not (key == 'class' and 'class_escape' not in pack_names)
        fails = []
        for src in (acc, cur):
            for (it, cls_), (w, dtl) in src.fails.items():
                if it == key:
                    fails.append(dict(witness=w, detail=dtl + f' [{src.nfail[(it, cls_)]} failing inputs of this class in the '
                                      f'{"alphabet" if src is acc else "curated"} domain]', cls=cls_))
        note = ''
        if not in_pipeline:
            # the pair is an obligation of C19 only as a layer of pack/unpack
            note = f'bounded: {fn} -- not called by pack/unpack in this tree: failures of the bare pair are reported as information only'
            info_fails, fails = fails, []
        n = acc.cases[key] + cur.cases[key]
        L = maxlen if key != 'pack-to' else tolen
        its = bitem(PROP, name, function=fn,
                    domain=f'{law}; every string of length <= {L} over {{~ a 1 space \\ e " @ :}} plus {len(CURATED)} curated strings '
                           '(ESC, \\x1b, f{, braces, newlines, non-ASCII, long runs, literal markers)'
                           + ('; newline-containing strings left out: pack never produces them' if key == 'hashed' else ''),
                    bound=f'length <= {L} ({sum(len(ALPHA) ** i for i in range(L + 1))} strings) + curated', cases=n,
                    distinct_nontrivial=acc.nontrivial[key] + cur.nontrivial[key],
                    rule={'hashed': 'non-empty strings', 'rle': 'strings the encoder changes (a tilde or a run of >= 4)',
                          'escape': 'strings the encoder changes (a tilde or >= 5 spaces)',
                          'class': 'strings that class_escape or class_unescape changes',
                          'tty': 'strings that tty_escape or tty_unescape changes',
                          'pack-data': 'strings that some layer rewrites (tilde, run, JSON escape, backslash-e, @)',
                          'pack-to': 'strings that some layer rewrites (tilde, JSON escape, backslash-e, @)'}[key],
                    exhaustive=True, samples=[dict(t=t) for t in ('~a1~', 'aaaaa', '\\e', '"@":', '~~ 1')], failures=fails, note=note)
        if not in_pipeline and info_fails:
            its[0].extra['informational_failures'] = [dict(cls=f['cls'], witness=f['witness']) for f in info_fails][:4]
        items += its

    # run-structured strings
    if quick:
        chars, counts, blocks = ['~', 'a', '1', ' ', '\\', '\n'], [1, 3, 4, 5, 9, 10, 11, 12, 100], 3
    else:
        chars, counts, blocks = [*ALPHA, '\n', '\r', '\u2028'], [1, 2, 3, 4, 5, 9, 10, 11, 12, 99, 100, 101, 1000], 3
    firsts = [(c, n) for c in chars for n in counts]
    racc = Acc()
    for a in pmap(runs_chunk, [([f], chars, counts, blocks) for f in firsts]):
        racc.merge(a)
    for key, name, fn, law in (('runs-rle', 'rle-pair-runs', ITEMS['rle'][1], ITEMS['rle'][2]),
                               ('runs-escape', 'compress-expand-pair-runs', ITEMS['escape'][1], ITEMS['escape'][2]),
                               ('runs-pack', 'unpack-pack-runs', ITEMS['pack-data'][1], 'unpack(pack(Packet(data=t))) has the same id, to, data')):
        fails = [dict(witness=w, detail=dtl + f' [{racc.nfail[k]} failing inputs of this class]', cls=k[1])
                 for k, (w, dtl) in racc.fails.items() if k[0] == key]
        items += bitem(PROP, name, function=fn,
                       domain=f'{law}; strings made of 1..{blocks} blocks c*n, c in {chars}, n in {counts} (runs across the 4/5 thresholds, '
                              'two and three digit counts, runs of digits and of tildes)',
                       bound=f'<= {blocks} blocks', cases=racc.cases[key], distinct_nontrivial=racc.nontrivial[key],
                       rule='strings the encoder changes' if key != 'runs-pack' else 'every string (all have >= 1 block)', exhaustive=True,
                       samples=[dict(t='a*12'), dict(t='1*11 + ~*4'), dict(t='space*100 + 1*4')], failures=fails)

    # nested payloads
    nested = nested_payloads(tier, rng)
    nacc = Acc()
    nchunks = [nested[i::JOBS * 2] for i in range(JOBS * 2)]
    for a in pmap(nested_chunk, [c for c in nchunks if c]):
        nacc.merge(a)
    fails = [dict(witness=w, detail=dtl + f' [{nacc.nfail[k]} failing payloads of this class]', cls=k[1]) for k, (w, dtl) in nacc.fails.items()]
    items += bitem(PROP, 'unpack-pack-nested', function=ITEMS['pack-data'][1],
                   domain='unpack(pack(Packet(to="r", data=d))) has the same id, to, data (type-strict); d: leaves (strings with tildes, runs, '
                          'markers, backslash-e, @, f{ ; ints, float, bools, None), lists and dicts of depth <= 2 over keys including "@", '
                          '"__class__", \'x"@\', "~a4~", "", "id", "data", "to"',
                   bound='depth <= 2, keys and leaves from fixed lists', cases=nacc.cases['pack-nested'], distinct_nontrivial=nacc.nontrivial['pack-nested'],
                   rule='non-empty containers', exhaustive=True, samples=[dict(data={'@': 1}), dict(data={'a': {'__class__': 'x'}}), dict(data=[['~a1~']])],
                   failures=fails)

    # (b) histories ------------------------------------------------------------------------------
    smax, rmax = (3, 3) if quick else (4, 4)
    hs = [(h, ss) for h in histories(smax, rmax) for ss in (False, True)]
    hacc = Acc()
    hchunks = [hs[i::JOBS * 2] for i in range(JOBS * 2)]
    for a in pmap(histories_chunk, [(i, c) for i, c in enumerate(hchunks) if c]):
        hacc.merge(a)
    fails = [dict(witness=w, detail=dtl + f' [{hacc.nfail[k]} failing histories of this class]', cls=k[1]) for k, (w, dtl) in hacc.fails.items()]
    items += bitem(PROP, 'queue-histories', function='tatsu/packetz/queue.py:PacketzQueue.send, receive',
                   domain=f'every sequence of <= {smax} sends and <= {rmax} receive operations (reader A drains / reader B drains / reader A '
                          'takes one packet from a receive() generator left suspended across later sends), sender = separate instance or reader A; '
                          'then A, B and a late reader C drain twice. Each reader: delivered == sent so far, in order, once; a new receive() '
                          'delivers everything sent before it',
                   bound=f'<= {smax} sends x <= {rmax} receives, 3 kinds of receive, 2 senders', cases=hacc.cases['histories'],
                   distinct_nontrivial=hacc.nontrivial['histories'], rule='histories with at least one send and one receive', exhaustive=True,
                   samples=[dict(ops='SaSAB'), dict(ops='SSaaSA'), dict(ops='ASBSa')], failures=fails)

    # (c) crash points ---------------------------------------------------------------------------
    ok_writer = writer_matches_pack()
    cargs = [(v, n, 0, 1) for v, n in itertools.product(('ascii', 'nonascii', 'dict'), (0, 1, 2) if quick else (0, 1, 2, 3))]
    if not quick:
        cargs += [('big', n, part, 16) for n in (0, 1) for part in range(16)]
    cargs = [(i, *a) for i, a in enumerate(cargs)]
    cacc = Acc()
    for a in pmap(crash_chunk, cargs):
        cacc.merge(a)
    fails = [dict(witness=w, detail=dtl + f' [{cacc.nfail[k]} failing (scenario, offset) pairs of this class]', cls=k[1]) for k, (w, dtl) in cacc.fails.items()]
    if not ok_writer:
        fails.append(dict(witness='send()', detail='send() does not write pack(packet) + newline: the crash files do not model the writer', cls='harness-writer-model'))
    items += bitem(PROP, 'queue-crash-points', function='tatsu/packetz/queue.py:PacketzQueue.receive',
                   domain='0..2 complete records followed by a last record (ascii / non-ASCII / dict payload) cut at EVERY byte offset 0..len; '
                          'scenarios: cold reader; the writer then completes the record; live reader that had consumed the complete part; a new '
                          'complete record written behind the partial one. receive() never raises, delivers exactly the complete packets in '
                          'order once, the completed record exactly once, never a packet that was not sent',
                   bound='every byte offset of the last record, 3 payload shapes, 0..2 earlier records, 4 scenarios' if quick else
                         'every byte offset of the last record, 3 payload shapes with 0..3 earlier records + a 8.7 kB record (longer than the '
                         'text layer read chunk) with 0..1 earlier records, 4 scenarios', cases=cacc.cases['crash'],
                   distinct_nontrivial=cacc.nontrivial['crash'], rule='(scenario, offset) with 0 < offset < len(record)', exhaustive=True,
                   samples=[dict(variant='nonascii', before=1, cut='every offset')], failures=fails)

    xacc = Acc()
    for a in pmap(corrupt_chunk, [(i, w) for i, w in enumerate((0, 1, 2))]):
        xacc.merge(a)
    fails = [dict(witness=w, detail=dtl + f' [{xacc.nfail[k]} failing mutations of this class]', cls=k[1]) for k, (w, dtl) in xacc.fails.items()]
    items += bitem(PROP, 'queue-corrupt-lines', function='tatsu/packetz/queue.py:PacketzQueue.receive',
                   domain='3 complete records, one of them (first / middle / last) with one byte deleted or replaced by # } " newline 0 0xCE at '
                          'every offset: receive() never raises, never delivers the damaged line as a packet, delivers the two intact packets once in order',
                   bound='every byte offset x 7 mutations x 3 positions', cases=xacc.cases['corrupt'], distinct_nontrivial=xacc.nontrivial['corrupt'],
                   rule='every mutation changes the file', exhaustive=True, samples=[dict(record=1, mutation='delete', at='every offset')], failures=fails)

    qacc = hostile_and_clock()
    fails = [dict(witness=w, detail=dtl, cls=k[1]) for k, (w, dtl) in qacc.fails.items() if k[0] == 'hostile']
    items += bitem(PROP, 'queue-hostile-payloads', function='PacketzQueue.send, receive + pack, unpack',
                   domain='three sends, the middle one with data in {\\e, x\\ey, ~a1~, {"@":1}, {"__class__":"x"}, f{a, plain}: all three delivered '
                          'unchanged, once, in order, receive() does not raise',
                   bound='7 payloads', cases=qacc.cases['hostile'], distinct_nontrivial=qacc.nontrivial['hostile'], rule='hostile payloads',
                   exhaustive=True, samples=[dict(data='\\e')], failures=fails)
    fails = [dict(witness=w, detail=dtl, cls=k[1]) for k, (w, dtl) in qacc.fails.items() if k[0] == 'clock']
    items += bitem(PROP, 'queue-id-collision', function='tatsu/util/misc.py:new_id + PacketzQueue.receive',
                   domain='two sends with time.monotonic_ns() (as seen by tatsu.util.misc) 1 ns, 0.1 s and 0.3 s apart: both delivered',
                   bound='3 clock scripts', cases=qacc.cases['clock'], distinct_nontrivial=qacc.nontrivial['clock'], rule='gaps that are a multiple of 10**8 ns',
                   exhaustive=False, samples=[dict(gap_ns=10 ** 8)], failures=fails,
                   note='bounded: controlled clock (the only stub: the `time` name inside tatsu.util.misc)')

    # thorough: random longer strings / payloads beyond the exhaustive bound
    if not quick:
        racc2 = Acc()
        seeds = [rng.getrandbits(40) for _ in range(JOBS * 2)]
        for a in pmap(random_chunk, [(s, 6000) for s in seeds]):
            racc2.merge(a)
        fails = [dict(witness=w, detail=dtl + f' [{racc2.nfail[k]} failing samples of this class]', cls=k[1]) for k, (w, dtl) in racc2.fails.items()]
        items += bitem(PROP, 'unpack-pack-random', function=ITEMS['pack-data'][1],
                       domain='random strings of length 8..40 over the alphabet (run-biased) as data, and random nested payloads of depth <= 3',
                       bound=f'{racc2.cases["random"]} samples, seed {seed}', cases=racc2.cases['random'], distinct_nontrivial=racc2.nontrivial['random'],
                       rule='samples some layer rewrites', exhaustive=False, samples=[], failures=fails)
    if isinstance(info, dict):
        info.setdefault('assumptions', set()).add('C19 bounded: single process; concurrent writers in separate processes are not exercised')
        info.setdefault('samples', []).append({'C19_wall_s': round(budget.spent(), 1)})
    return items


def random_chunk(arg):
    sd, count = arg
    rng = random.Random(sd)
    acc = Acc()
    compact = _imports()[0]

    def rstr():
        out = []
        for _ in range(rng.randint(1, 8)):
            out.append(rng.choice(ALPHA) * rng.choice((1, 1, 1, 2, 3, 4, 5, 6, 10, 12)))
        return ''.join(out)[:40]

    def rval(depth):
        r = rng.random()
        if depth == 0 or r < 0.45:
            return rng.choice([rstr(), rstr(), rng.randint(-5, 5), None, True, 1.25])
        if r < 0.7:
            return [rval(depth - 1) for _ in range(rng.randint(0, 3))]
        return {rng.choice(['a', 'k', '~', 'e', ':', ' ', 'aaaa', '1', rstr()[:3]]): rval(depth - 1) for _ in range(rng.randint(0, 3))}
    with quiet():
        for i in range(count):
            d = rstr() if i % 2 else rval(3)
            acc.cases['random'] += 1
            acc.nontrivial['random'] += any(compact.rle_encode(s) != s or '\\' in s or '"' in s for s in _leaves(d))
            for cls_, detail in check_pack(rstr()[:6] if i % 5 == 0 else None, d):
                acc.fail('random', cls_, dict(data=d), detail)
    return acc


def main(argv=None):
    argv = argv or sys.argv[1:]
    tier = argv[0] if argv else 'quick'
    seed = int(argv[1]) if len(argv) > 1 else 0
    t = time.time()
    items = run(tier, seed, {})
    for it in items:
        print(f'{it.status:8} {it.id}  cases={it.extra.get("cases")} distinct={it.extra.get("distinct_nontrivial")} '
              f'exhaustive={it.extra.get("exhaustive")}')
        if it.status == 'refuted':
            print(f'         witness: {short(it.witness, 300)}\n         detail: {it.detail[:420]}')
        if it.extra.get('informational_failures'):
            print(f'         (information only) {it.extra["informational_failures"]}')
    bad = [i for i in items if i.status != 'clean']
    print(f'C19 bounded [{tier}]: {len(items)} items, {len(bad)} refuted, {sum({i.id.split("/")[1]: i.extra.get("cases", 0) for i in items}.values())} cases, {time.time() - t:.1f}s')
    return 1 if bad else 0


if __name__ == '__main__':
    sys.exit(main())
