"""Enumerators for the bounded API-level runs (DESIGN Appendix D, row `grammars_small`).

* `exprs(n, ctx, calls, leaves)` every expression with exactly `n` nodes that the concrete syntax allows in
                              context `ctx` ('expre' > 'option' > 'element' > 'term' > 'atom')
* `single_rule`, `two_rule`, `small_grammars`  grammar descriptions (see bounded/specpeg.py), exhaustive up to
                              the bound, structurally deduplicated, canonical up to renaming of names / tokens
* `inputs(alphabet, maxlen)`  all strings
* `CUT_GRAMMARS`              curated C05 list: `~` at every position of options, optionals, closure and
                              join bodies (first and later iterations), nested choices in groups, rule
                              bodies -- used with ALL inputs over {a,b,c} up to a length bound, which contain
                              the inputs that fail right after each cut

Measured sizes (tokens 'a' 'b', pattern /a+/, names x y; every node kind of specpeg occurs from 3 nodes on):

    nodes                         1     2      3       4        5
    exprs, full leaves           10   140   1860   31680
      canonical                   9   108   1404   22458
    exprs, core leaves            5    70    820   11560   171010     (core = 'a' 'b' /a+/ () ~)
      canonical                   4    48    546    7256   102974

    single_rule(3) 1521   single_rule(4) 23979   single_rule(4,'core',exact) 7256
    two_rule(2,2) 3114    two_rule(3,0,'core',exact,callees=CALLEES) 3588    two_rule(3,2,'full','core') 24992
    inputs('ab ',4) 121   inputs('ab ',3) 40   IN_MID 23   CUT_GRAMMARS 109   inputs('abc',6) 1093  ('abc',8) 9841
"""
from __future__ import annotations

import itertools
from functools import lru_cache

from bounded import specpeg as S

TOKENS = ('a', 'b')
PATTERN = 'a+'
NAMES = ('x', 'y')

ATOM_LEAVES = (('tok', 'a'), ('tok', 'b'), ('pat', PATTERN), ('const', 1), ('dot',), ('eof',))
TERM_LEAVES = (('void',), ('fail',), ('emptyclosure',), ('cut',))
UNARY_EXPRE = ('group', 'skipgroup')  # atoms
UNARY_EXPRE_T = ('opt', 'closure', 'pclosure')  # terms over an expre
UNARY_TERM = ('la', 'nla', 'skipto')  # terms over a term
JOINS = ('join', 'pjoin', 'gather', 'pgather')
ALL_KINDS = frozenset(
    ['tok', 'pat', 'const', 'dot', 'eof', 'void', 'fail', 'emptyclosure', 'cut', 'call', 'seq', 'choice', 'group',
     'skipgroup', 'opt', 'closure', 'pclosure', 'la', 'nla', 'skipto', 'named', 'namedlist', 'override',
     'overridelist', *JOINS])


def _compositions(total, parts, minimum=1):
    """ordered ways to write `total` as a sum of `parts` integers >= minimum"""
    if parts == 1:
        if total >= minimum:
            yield (total,)
        return
    for first in range(minimum, total - minimum * (parts - 1) + 1):
        for rest in _compositions(total - first, parts - 1, minimum):
            yield (first, *rest)


# the reduced leaf alphabet used where the full one is too large: one representative per behaviour class
# (whitespace-skipping consumer x2, non-skipping consumer, non-consuming value-less, cut)
CORE_LEAVES = frozenset([('tok', 'a'), ('tok', 'b'), ('pat', PATTERN), ('void',), ('cut',)])


TOKEN_LEAVES = frozenset([('tok', 'a'), ('tok', 'b')])


@lru_cache(maxsize=None)
def exprs(n, ctx='expre', calls=(), leaves='full'):
    """all expressions with exactly n nodes, well-formed in context ctx; `calls`: callable rule names;
    leaves: 'full', 'core' (CORE_LEAVES), 'tokens' (TOKEN_LEAVES) or a frozenset of leaf expressions"""
    return tuple(_exprs(n, ctx, calls, leaves))


def _exprs(n, ctx, calls, leaves):
    def exprs(n, ctx, calls):  # noqa: F811  (recursive calls keep the leaf alphabet)
        return globals()['exprs'](n, ctx, calls, leaves)

    def keep(ls):
        if leaves == 'full':
            return list(ls)
        allowed = CORE_LEAVES if leaves == 'core' else TOKEN_LEAVES if leaves == 'tokens' else leaves
        return [x for x in ls if x in allowed]

    out = []
    if n < 1:
        return ()
    # atoms
    if n == 1:
        out += keep(ATOM_LEAVES)
        out += [('call', c) for c in calls]
    else:
        for k in UNARY_EXPRE:
            out += [(k, e) for e in exprs(n - 1, 'expre', calls)]
    if ctx == 'atom':
        return tuple(out)
    # terms
    if n == 1:
        out += keep(TERM_LEAVES)
    else:
        for k in UNARY_EXPRE_T:
            out += [(k, e) for e in exprs(n - 1, 'expre', calls)]
        for k in UNARY_TERM:
            out += [(k, e) for e in exprs(n - 1, 'term', calls)]
        for i in range(1, n - 1):
            j = n - 1 - i
            for sep in exprs(i, 'atom', calls):
                for body in exprs(j, 'expre', calls):
                    out += [(k, sep, body) for k in JOINS]
    if ctx == 'term':
        return tuple(out)
    # elements
    if n >= 2:
        for t in exprs(n - 1, 'term', calls):
            for name in NAMES:
                out.append(('named', name, t))
                out.append(('namedlist', name, t))
            out.append(('override', t))
            out.append(('overridelist', t))
    if ctx == 'element':
        return tuple(out)
    # options: sequences of >= 2 elements
    for k in range(2, n):
        for sizes in _compositions(n - 1, k):
            for combo in itertools.product(*(exprs(s, 'element', calls) for s in sizes)):
                out.append(('seq', combo))
    if ctx == 'option':
        return tuple(out)
    # expre: choices of >= 2 options
    for k in range(2, n):
        for sizes in _compositions(n - 1, k):
            for combo in itertools.product(*(exprs(s, 'option', calls) for s in sizes)):
                out.append(('choice', combo))
    return tuple(out)


def _first_use(e, pick, acc):
    v = pick(e)
    if v is not None and v not in acc:
        acc.append(v)
    for c in S.children(e):
        _first_use(c, pick, acc)
    return acc


def canonical(desc):
    """True iff names are used in the order x, y and -- when the grammar has no pattern, so that it is
    symmetric under a<->b -- tokens in the order a, b (the mirrored grammar on the mirrored input is the
    same computation)"""
    names, toks, haspat = [], [], False
    for r in desc:
        _first_use(r[1], lambda e: e[1] if e[0] in ('named', 'namedlist') else None, names)
        _first_use(r[1], lambda e: e[1] if e[0] == 'tok' else None, toks)
        haspat = haspat or 'pat' in S.kinds_of(r[1])
    if names and names[0] != NAMES[0]:
        return False
    if not haspat and toks and toks[0] != TOKENS[0]:
        return False
    return True


def _has_call(e, name=None):
    if e[0] == 'call' and (name is None or e[1] == name):
        return True
    return any(_has_call(c, name) for c in S.children(e))


# callee bodies of the two-rule grammars: every value shape a rule can have (None / str / list / dict /
# override), with and without names, consuming and not consuming
CALLEE_BODIES_SMALL = tuple(exprs(1, 'expre')) + tuple(exprs(2, 'expre'))


def small_grammars(max_rules=2, max_nodes=4, callee_nodes=2, second_names=('r', 'R'), leaves='full'):
    """grammar descriptions, exhaustively and without structural duplicates:

    * one rule `start` whose body has <= max_nodes nodes;
    * (max_rules >= 2) two rules: `start` with <= max_nodes - 1 nodes containing at least one call to the
      second rule, and a second rule (named `r`: skips whitespace at entry; `R`: does not) with
      <= callee_nodes nodes which does not call anything (left recursion is C03's business).
    """
    seen = set()
    for d in single_rule(max_nodes, leaves):
        if d not in seen:
            seen.add(d)
            yield d
    if max_rules >= 2:
        for d in two_rule(max_nodes - 1, callee_nodes, leaves, leaves, second_names):
            if d not in seen:
                seen.add(d)
                yield d


def inputs(alphabet='ab ', maxlen=4):
    return [''.join(p) for n in range(maxlen + 1) for p in itertools.product(alphabet, repeat=n)]


def dedup(descs):
    seen, out = set(), []
    for d in descs:
        if d not in seen:
            seen.add(d)
            out.append(d)
    return out


def kinds_covered(descs):
    acc = set()
    for d in descs:
        for r in d:
            S.kinds_of(r[1], acc)
    return acc


# --------------------------------------------------------------------------------------------------
# C05: curated cut grammars
# --------------------------------------------------------------------------------------------------

def _T(s):
    return ('tok', s)


def _seq(*xs):
    xs = [x for x in xs if x is not None]
    return xs[0] if len(xs) == 1 else ('seq', tuple(xs))


def _ch(*xs):
    return ('choice', tuple(xs))


_CUT = ('cut',)


def single_rule(max_nodes, leaves='full', name='start', exact=False):
    out = []
    for n in range(max_nodes if exact else 1, max_nodes + 1):
        for body in exprs(n, 'expre', (), leaves):
            d = ((name, body),)
            if canonical(d):
                out.append(d)
    return out


def two_rule(start_nodes, callee_nodes, leaves='full', callee_leaves='full', names=('r', 'R'), exact=False,
             callees=None):
    out = []
    if callees is None:
        callees = [c for m in range(1, callee_nodes + 1) for c in exprs(m, 'expre', (), callee_leaves)]
    for callee in names:
        for n in range(start_nodes if exact else 1, start_nodes + 1):
            for body in exprs(n, 'expre', (callee,), leaves):
                if not _has_call(body, callee):
                    continue
                for cbody in callees:
                    d = (('start', body), (callee, cbody))
                    if canonical(d):
                        out.append(d)
    return out


_NAMING = {'named', 'namedlist', 'override', 'overridelist'}
_SCOPES = {'opt', 'closure', 'pclosure', 'choice', 'join', 'pjoin', 'gather', 'pgather'}


def named_in_scopes(nodes=5, wide=False):
    """`start = e`, e of exactly `nodes` nodes over the tokens 'a' 'b' only, with at least one name / override
    and at least one optional / closure / choice (the smallest grammars in which a sequence pre-defines a name
    that an inner scope may leave unmatched have 5 nodes); wide=False leaves out joins, lookaheads, skip-to and
    non-capturing groups"""
    out = []
    for e in exprs(nodes, 'expre', (), 'tokens'):
        k = S.kinds_of(e)
        if not (k & _NAMING and k & _SCOPES):
            continue
        if not wide and k & {'la', 'nla', 'skipto', 'skipgroup', 'join', 'pjoin', 'gather', 'pgather'}:
            continue
        d = (('start', e),)
        if canonical(d):
            out.append(d)
    return out


# one callee per shape a rule value can take (str, None, list, closed list, dict, override of each kind) and
# one that fails after a cut
CALLEES = (
    _T('a'), ('pat', 'a+'), ('void',), ('opt', _T('a')), ('closure', _T('a')), _seq(_T('a'), _T('b')),
    ('named', 'x', _T('a')), ('override', _T('a')), ('overridelist', _T('a')),
    ('override', ('group', _seq(_T('a'), _T('b')))), _seq(_T('a'), ('cut',), _T('b')),
)

# all inputs over {a,b} up to length 3 and the blank in every position relative to one or two letters
IN_MID = tuple(inputs('ab', 3)) + (' a', 'a ', 'a b', 'b a', ' ab', 'ab ', 'a a', 'b b')


def _with_cut(elems, pos):
    """the sequence `elems` with `~` inserted before element `pos` (pos == len: at the end; None: no cut)"""
    if pos is None:
        return _seq(*elems)
    return _seq(*elems[:pos], _CUT, *elems[pos:])


def _cut_contexts(X, tag):
    """X: an expression (sequence 'a' 'b' with a cut somewhere).  Every context of the C05 quantifier.
    The alternatives / continuations are chosen so that (i) some input fails right after the cut and would
    be accepted by a later alternative / by ending the repetition if the cut were ignored, and (ii) some
    input is accepted only by backtracking OUTSIDE the cut's scope."""
    a, b, c = _T('a'), _T('b'), _T('c')
    ac = _seq(a, c)
    out = []

    def add(name, *rules):
        out.append((f'{name}/{tag}', tuple(rules)))

    # options of a choice: first, middle, last
    add('option-first', ('start', _ch(X, ac, a)))
    add('option-middle', ('start', _ch(c, X, ac)))
    add('option-last', ('start', _ch(ac, X)))
    add('option-then-eof', ('start', _seq(('group', _ch(X, ac)), ('eof',))))
    # optional
    add('optional', ('start', _seq(('opt', X), a, c)))
    add('optional-in-option', ('start', _ch(_seq(('opt', X), a, c), _seq(a, a))))
    add('optional-alone', ('start', ('opt', X)))
    # closures: the continuation 'a' 'c' is what the input looks like when an iteration fails after 'a'
    add('closure', ('start', _seq(('closure', X), a, c)))
    add('positive-closure', ('start', _seq(('pclosure', X), a, c)))
    add('closure-in-option', ('start', _ch(_seq(('closure', X), a, c), _seq(a, b, a))))
    add('closure-in-optional', ('start', _seq(('opt', ('closure', X)), ('closure', a), ('closure', c))))
    # joins / gathers: separator 'c'
    for k in ('join', 'pjoin', 'gather', 'pgather'):
        add(k, ('start', _seq((k, c, X), ('closure', c), ('closure', a))))
        add(k + '-in-option', ('start', _ch(_seq((k, c, X), c), _seq(a, b, c, a))))
    # nested choice inside a group: the cut commits the inner choice only
    add('group-choice', ('start', _ch(_seq(('group', _ch(X, ac)), c), _seq(a, c, b), a)))
    add('group-choice-in-closure', ('start', _seq(('closure', ('group', _ch(X, ac))), ('closure', a))))
    # a group without a choice: "scoped to the nearest enclosing brackets (group, ...)"
    add('group', ('start', _ch(_seq(('group', X), c), ac, a)))
    add('skipgroup', ('start', _ch(_seq(('skipgroup', X), c), ac, a)))
    add('named-group', ('start', _ch(_seq(('named', 'x', ('group', X)), c), ('named', 'y', ('group', ac)))))
    # a group is not a cut scope: the cut of a bracketed body still belongs to the closure iteration / optional around the group
    # (an optional around something that "cannot fail" may only be dropped when no cut can escape from it)
    add('group-in-closure-in-optional', ('start', _seq(('opt', ('closure', ('group', X))), a, c)))
    add('group-in-optional-in-optional', ('start', _seq(('opt', ('opt', ('group', X))), a, c)))
    add('group-in-closure', ('start', _seq(('closure', ('group', X)), a, c)))
    # rule bodies: the callee contains its cut
    add('rule', ('start', _ch(_seq(('call', 'r'), c), ac, a)), ('r', X))
    add('rule-in-closure', ('start', _seq(('closure', ('call', 'r')), ('closure', a), ('closure', c))), ('r', X))
    add('rule-with-choice', ('start', _ch(('call', 'r'), _seq(a, c, b))), ('r', _ch(X, ac)))
    # lookaheads around a bracketed cut
    add('lookahead', ('start', _ch(_seq(('la', ('group', X)), a), ac)))
    add('negative-lookahead', ('start', _ch(_seq(('nla', ('group', X)), a, c), _seq(a, b))))
    return out


def cut_grammars():
    a, b = _T('a'), _T('b')
    out = []
    for pos in (0, 1, 2):
        X = _with_cut([a, b], pos)
        out += _cut_contexts(X, f'cut@{pos}')
    # the cut inside an inner optional / closure / choice of the body: contained there
    c = _T('c')
    inner = {
        'inner-optional': _seq(a, ('opt', _seq(b, _CUT, c)), b),
        'inner-closure': _seq(a, ('closure', _seq(b, _CUT, c)), b),
        'inner-choice': _seq(a, ('group', _ch(_seq(b, _CUT, c), b)), b),
    }
    for tag, X in inner.items():
        out += [(n, d) for n, d in _cut_contexts(X, tag)
                if n.split('/')[0] in ('option-first', 'optional', 'closure', 'join', 'rule', 'group')]
    # a cut in the separator of a join, and after the join
    out.append(('join-sep-cut', (('start', _ch(_seq(('join', ('group', _seq(c, _CUT, c)), a), c), _seq(a, c, a))),)))
    out.append(('gather-sep-cut', (('start', _ch(_seq(('gather', ('group', _seq(c, _CUT, c)), a), c), _seq(a, c, a))),)))
    # two cuts, one per nesting level
    out.append(('two-levels', (('start', _ch(_seq(a, _CUT, ('group', _ch(_seq(b, _CUT, c), b)), a), _seq(a, b, b))),)))
    # the documented example: ','.{name '=' ~ expression}
    out.append(('docs-parameters', (('start', _seq(('gather', c, _seq(a, b, _CUT, a)), ('closure', c), ('eof',))),)))
    # the no-cut twins (a cut "never changes the result for an input that the committed path parses")
    seen, res = set(), []
    for n, d in out:
        if d not in seen:
            seen.add(d)
            res.append((n, d))
    return res


CUT_GRAMMARS = tuple(cut_grammars())
CUT_ALPHABET = 'abc'
