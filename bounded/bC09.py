"""C09 (bounded, API level): whitespace, comments, nameguard and case rules are applied uniformly, and the
configuration layers consistently.

    PYTHONPATH=/verif /verif/.venv/bin/python -m bounded.bC09 quick|thorough [seed]

(a) layout metamorphosis.  LAYOUT_GRAMMARS: grammars whose patterns match no whitespace (tokens, symbols, lower-
    and upper-case rules, constants, `$`, patterns directly and in their own rule, closures, joins, lookaheads, left
    recursion, keywords ...).  Every input is written with two markers: `·` a position where the lexical layer skips
    whitespace and comments, `¦` a position where it must NOT (before a pattern, before `/./`, at the entry of an
    upper-case rule).  Under every configuration of LAYOUT_CONFIGS (whitespace default / custom regex as directive
    and as setting / disabled by `@@whitespace :: None` and by `whitespace=''` WITH comments and / or eol_comments
    configured, comments as directives vs as parse-time settings, nameguard on / off, @@namechars, ignorecase on /
    off) the base text puts the first run of the configuration at every `·`; then every `·` in turn (and all of them
    together) is replaced by each run of the configuration (blank, tab, CR LF, blanks around a line break, a comment of
    each configured kind, comment + blank, two comments ...): the AST must stay the one of the base text.  A run at a
    `¦` position must make the parse FAIL, and so must a run that is not whitespace under the configuration (a line
    break under `[ \\t]+`, a blank when whitespace is disabled).  Model and generated parser.
(b) nameguard / ignorecase truth table: TOKENS x the character that follows x case variants of the text x nameguard
    {unset, on, off} x namechars x ignorecase x whitespace {default, disabled}; expected by the documented rule
    (docs/syntax.rst "'text'", docs/directives.rst @@nameguard / @@namechars / @@ignorecase): the token matches iff
    the text starts with it (in any case iff ignorecase) and not (nameguard and the token is alphanumeric (+namechars)
    and the next character is alphanumeric or a namechar); nameguard unset = on iff whitespace is skipped or
    namechars are given.  Settings given at parse time and, in a second pass, as directives.
(c) precedence: for each option of OPTIONS (ignorecase, nameguard, whitespace, namechars, comments, left_recursion,
    parseinfo) and each of the 2^3 presence combinations of {compile-time setting, grammar directive, parse-time
    setting} (two value assignments each), the value observed through parse behaviour must be the one of the highest
    layer present:  built-in default < compile-time setting < directive < parse-time setting.  Model
    (`tatsu.compile(g, **s)`) and generated parser (`tatsu.to_python_sourcecode(g, **s)`).  Plus the documented value
    forms of `whitespace` (docs/syntax.rst "Whitespace": a character string is a character SET, `None` / `''` disable).
"""
from __future__ import annotations

import itertools
import sys
import time

import tatsu  # noqa: F401  (imported before forking)
import tatsu.exceptions

from bounded.bC02 import load_generated, outcome
from bounded.common import JOBS, Budget, bitem, chunked, pmap

PROP = 'C09'
SEP, NOSEP = '·', '¦'

# --------------------------------------------------------------------------------------------------
# (a) layout metamorphosis
# --------------------------------------------------------------------------------------------------

# (name, rules, inputs)
LAYOUT_GRAMMARS = (
    ('tokens', "start = 'a' 'b' 'c' $ ;", ('·a·b·c·',)),
    ('symbols', "start = '(' 'x' ',' 'y' ')' $ ;", ('·(·x·,·y·)·',)),
    ('lower-case-rule', "start = w w $ ;\nw = /[a-z]+/ ;", ('·ab·cd·',)),
    ('upper-case-rule', "start = '<' W '>' $ ;\nW = /[a-z]+/ ;", ('·<¦ab·>·',)),
    ('pattern-direct', "start = '=' /\\d+/ ';' $ ;", ('·=¦12·;·',)),
    ('pattern-own-rule', "start = '=' num ';' $ ;\nnum = /\\d+/ ;", ('·=·12·;·',)),
    ('constants', "start = a:'a' k:`1` b:'b' s:`x` $ ;", ('·a·b·',)),
    # whitespace is skipped before a constant: a pattern / upper-case rule right after the constant then starts after the blanks
    ('constant-before-pattern', "start = '=' k:`1` /\\d+/ $ ;", ('·=·12·',)),
    ('constant-before-token-rule', "start = '<' `x` W '>' $ ;\nW = /\\d+/ ;", ('·<·12·>·',)),
    ('eof-in-choice', "start = 'a' ($ | 'b' $) ;", ('·a·', '·a·b·')),
    ('closure-of-rule', "start = {item}+ $ ;\nitem = n:/[a-z]+/ ',' ;", ('·ab·,·cd·,·',)),
    ('optional-and-choice', "start = ['let'] id '=' (id | num) $ ;\nid = /[a-z]+/ ;\nnum = /\\d+/ ;", ('·let·x·=·y·', '·x·=·12·')),
    ('gather', "start = ','.{num}+ $ ;\nnum = /\\d+/ ;", ('·1·,·22·,·3·',)),
    ('join', "start = ';'%{w} $ ;\nw = /[a-z]+/ ;", ('·a·;·b·', '·')),
    ('void-and-lookaheads', "start = &'a' () 'a' !'b' 'c' $ ;", ('·a·c·',)),
    ('expression', "start = e $ ;\ne = t {('+' | '-') t} ;\nt = num | '(' e ')' ;\nnum = /\\d+/ ;", ('·1·+·(·2·-·3·)·',)),
    ('left-recursion', "start = e $ ;\ne = e '+' t | t ;\nt = /\\d+/ ;", ('·1·+·2·+·3·',)),
    ('composed-token-rules', "start = ID '=' ID $ ;\nID = LETTER {LETTER | DIGIT} ;\nLETTER = /[a-z]/ ;\nDIGIT = /\\d/ ;",
     ('·ab1·=¦c2·',)),
    ('keywords', "@@keyword :: if then\nstart = 'if' name 'then' name $ ;\n@name\nname = /[a-z]+/ ;", ('·if·x·then·y·',)),
    ('override', "start = '(' @:w ')' $ ;\nw = /\\w+/ ;", ('·(·ab·)·',)),
    ('words', "start = 'select' w 'from' w $ ;\nw = /[a-z]+/ ;", ('·select·a·from·b·',)),
    ('dash', "start = 'a' '-' 'b' $ ;", ('·a·-·b·',)),
    ('any-char', "start = '=' /./ 'b' $ ;", ('·=¦x·b·',)),
    ('named-lists', "start = {k+:key ':' v+:val}+ $ ;\nkey = /[a-z]+/ ;\nval = /\\d+/ ;", ('·a·:·1·b·:·2·',)),
    ('fail-alternative', "start = 'a' !() | 'a' 'b' $ ;", ('·a·b·',)),
    ('cut', "start = 'a' ~ 'b' $ | 'a' 'c' $ ;", ('·a·b·',)),
    ('constant-in-choice', "start = (`0` 'x' | `1` 'y') $ ;", ('·x·', '·y·')),
    ('nested-joins', "start = '[' ','%{'[' ','%{num} ']'} ']' $ ;\nnum = /\\d+/ ;", ('·[·[·1·,·2·]·,·[·]·]·',)),
    ('upper-case-start-token-first', "START = '<' W $ ;\nW = /b+/ ;", ('·<¦bb·',)),
    ('upper-case-start-pattern-first', "START = /a+/ 'b' $ ;", ('¦aa·b·',)),
    ('rule-after-pattern', "start = /a+/ w $ ;\nw = /b+/ ;", ('·aa·bb·',)),
    ('optional-token-then-pattern', "start = ['+'] /\\d+/ $ ;", ('·+¦1·', '·1·')),
    ('closure-of-upper-case-rule', "start = {D}+ 'x' $ ;\nD = /\\d/ ;", ('·1¦2¦3·x·',)),
)

_C = r'\(\*(?:.|\n)*?\*\)'  # (* comment *), may span lines (the regex of docs/directives.rst)
_E = r'#[^\n]*'  # # comment to the end of the line (the line break itself is whitespace)
_EN = r'#[^\n]*\n?'  # the same including the line break (for configurations without whitespace)
WS_RUNS = (' ', '\t', '\r\n', '  \n ', '\n\n\t')
COMMENT_RUNS = ('(*c*)', '(*c*) ', ' (**)(*d d*)', '\t(* a\n*)\n')
EOL_RUNS = ('#c\n', ' # c\r\n ', '#\n#d\n')


def _directives(**d):
    lines = []
    for k, v in d.items():
        if k in ('whitespace', 'comments', 'eol_comments'):
            lines.append(f'@@{k} :: None' if v is None else f'@@{k} :: /{v}/')
        elif k == 'namechars':
            lines.append(f'@@{k} :: {v!r}')
        else:
            lines.append(f'@@{k} :: {v}')
    return '\n'.join(lines) + ('\n' if lines else '')


# (name, directive text, parse-time settings, positive runs (first = base), runs that are NOT skippable, extra:
#  None | 'nameguard-off' | 'upper')
LAYOUT_CONFIGS = (
    ('default', '', {}, WS_RUNS, (), None),
    ('comments-directives', _directives(comments=_C, eol_comments=_E), {}, WS_RUNS + COMMENT_RUNS + EOL_RUNS, (), None),
    ('comments-settings', '', {'comments': _C, 'eol_comments': _E}, WS_RUNS + COMMENT_RUNS + EOL_RUNS, (), None),
    ('comments-only-directive', _directives(comments=_C), {}, WS_RUNS + COMMENT_RUNS, ('#c\n',), None),
    ('eol-comments-only-setting', '', {'eol_comments': _E}, WS_RUNS + EOL_RUNS, ('(*c*)',), None),
    ('whitespace-regex-directive', _directives(whitespace=r'[ \t]+'), {}, (' ', '\t', ' \t '), ('\n', '\r\n'), None),
    ('whitespace-regex-setting', '', {'whitespace': r'[ \t]+'}, (' ', '\t', ' \t '), ('\n', ' \n'), None),
    ('whitespace-regex-and-comments', _directives(whitespace=r'[ \t]+', comments=_C), {'eol_comments': _EN},
     (' ', '\t', '(*c*)', ' (*c*)\t', '#c\n', ' #c\n\t(*d*)'), ('\n',), None),
    ('no-whitespace-directive-comments-directive', _directives(whitespace=None, comments=_C), {},
     ('(*c*)', '(**)', '(*c*)(*d*)'), (' ', '\n', '(*c*) '), None),
    ('no-whitespace-directive-eol-comments-directive', _directives(whitespace=None, eol_comments=_EN), {},
     ('#c\n', '#\n', '#c\n#d\n'), (' ', '#c\n '), None),
    ('no-whitespace-directive-both-comments', _directives(whitespace=None, comments=_C, eol_comments=_EN), {},
     ('(*c*)', '#c\n', '(*c*)#d\n(**)', '#c\n(*d*)'), (' ', '\t'), None),
    ('no-whitespace-setting-comments-settings', '', {'whitespace': '', 'comments': _C, 'eol_comments': _EN},
     ('(*c*)', '#c\n', '(*c*)#d\n(**)'), (' ',), None),
    ('no-whitespace-setting-comments-directive', _directives(comments=_C), {'whitespace': ''}, ('(*c*)', '(*c*)(*d*)'), (' ',), None),
    ('no-whitespace-directive-nameguard-on', _directives(whitespace=None, comments=_C, nameguard=True), {},
     ('(*c*)', '(*c*)(*d*)'), (' ',), None),
    ('nameguard-off-directive', _directives(nameguard=False), {}, WS_RUNS, (), 'nameguard-off'),
    ('nameguard-off-setting', '', {'nameguard': False}, WS_RUNS, (), 'nameguard-off'),
    ('nameguard-on-setting-comments', _directives(comments=_C), {'nameguard': True}, WS_RUNS + COMMENT_RUNS, (), None),
    ('namechars-directive', _directives(namechars='-_'), {}, WS_RUNS, (), None),
    ('namechars-setting-comments', _directives(comments=_C), {'namechars': '$-'}, WS_RUNS + COMMENT_RUNS, (), None),
    ('ignorecase-directive', _directives(ignorecase=True), {}, WS_RUNS, (), 'upper'),
    ('ignorecase-setting-comments', _directives(comments=_C, eol_comments=_E), {'ignorecase': True},
     WS_RUNS + COMMENT_RUNS + EOL_RUNS, (), 'upper'),
    ('ignorecase-off-directive', _directives(ignorecase=False), {}, WS_RUNS, (), None),
)


def render(marked, run, at=None, base=None, nosep_run=''):
    """the text of a marked input: the SEP position number `at` (None: all) gets `run`, the others `base`; the
    NOSEP positions get `nosep_run`"""
    out, i = [], 0
    for ch in marked:
        if ch == SEP:
            out.append(run if at is None or i == at else base)
            i += 1
        elif ch == NOSEP:
            out.append(nosep_run)
        else:
            out.append(ch)
    return ''.join(out)


def render_nosep(marked, base, at, run):
    """base text with `run` at the NOSEP position number `at`"""
    out, i = [], 0
    for ch in marked:
        if ch == SEP:
            out.append(base)
        elif ch == NOSEP:
            out.append(run if i == at else '')
            i += 1
        else:
            out.append(ch)
    return ''.join(out)


def _layout_work(chunk):
    stats = {'cases': 0, 'nontrivial': 0, 'negative': 0, 'skipped_base_rejected': 0}
    failures, samples = [], []
    for gname, rules, inputs, cfg, tier in chunk:
        cname, dtext, settings, runs, bad_runs, extra = cfg
        text = dtext + rules
        try:
            model = tatsu.compile(text)
            _src, cls = load_generated(text)
        except Exception as e:  # noqa: BLE001
            failures.append({'witness': {'grammar': text}, 'cls': f'compile-raises-{type(e).__name__}', 'detail': str(e)[:200]})
            continue
        parsers = (('model', lambda t: model.parse(t, **settings)),
                   ('generated parser', lambda t: cls().parse(t, **settings)))
        for marked in inputs:
            nsep, nnosep = marked.count(SEP), marked.count(NOSEP)
            base_text = render(marked, runs[0])
            for who, parse in parsers:
                base = outcome(lambda: parse(base_text))
                w0 = {'grammar': text, 'settings': settings, 'parser': who, 'base_text': base_text}
                if base[0] != 'ok':
                    # the base layout (the configuration's first run at every separator position) must be accepted:
                    # every input is a sentence of its grammar, so a rejection means that a configured run was not skipped
                    stats['skipped_base_rejected'] += 1
                    failures.append({'witness': w0, 'cls': 'configured-run-not-skipped',
                                     'detail': f'{who}: {marked!r} with the run {runs[0]!r} at every {SEP} under configuration {cname} '
                                               f'gives {base!r}'})
                    continue

                def positive(t, what):
                    stats['cases'] += 1
                    stats['nontrivial'] += 1
                    r = outcome(lambda: parse(t))
                    if r != base:
                        kind = 'comment' if ('(*' in what or '#' in what) else 'whitespace'
                        failures.append({'witness': {**w0, 'text': t}, 'cls': f'layout-changes-the-result/{kind}-run',
                                         'detail': f'{who}, configuration {cname}: base {base!r}; with run {what!r}: {r!r}'})

                def negative(t, what, cls_name):
                    stats['cases'] += 1
                    stats['negative'] += 1
                    r = outcome(lambda: parse(t))
                    if r[0] != 'fail':
                        failures.append({'witness': {**w0, 'text': t}, 'cls': cls_name,
                                         'detail': f'{who}, configuration {cname}: {what}: expected a parse failure, got {r!r}'})

                for run in runs:
                    positive(render(marked, run), f'{run!r} at every position')
                    for other in (runs if tier == 'thorough' else runs[:1]):
                        # one position gets `run`, every other position `other` (quick tier: the base run only)
                        for at in range(nsep):
                            positive(render(marked, run, at, other), f'{run!r} at position {at}, {other!r} elsewhere')
                    if run != runs[0]:
                        # a longer run: the base run followed by this one
                        positive(render(marked, runs[0] + run), f'{runs[0] + run!r} at every position')
                for bad in bad_runs:
                    # a run that is not whitespace / comment under this configuration, where a separator is needed
                    for at in range(nsep):
                        t = render(marked, bad, at, runs[0])
                        negative(t, f'{bad!r} (not skippable here) at position {at}', 'unskippable-run-accepted')
                for at in range(nnosep):
                    for run in runs[:3]:
                        negative(render_nosep(marked, runs[0], at, run),
                                 f'run {run!r} before a pattern / upper-case rule (position {at})',
                                 'whitespace-skipped-before-pattern-or-token-rule')
                if extra == 'upper':
                    # tokens in the other case; the values of tokens are the grammar's spelling, patterns keep theirs
                    up = ''.join(c.upper() if c.isalpha() else c for c in base_text)
                    if 'w = ' not in rules and 'id = ' not in rules and '/[a-z]' not in rules and '/a+/' not in rules \
                            and 'W = ' not in rules and '/./' not in rules:
                        positive(up, 'upper case')
                if extra == 'nameguard-off' and all(c not in rules for c in ('/[a-z]', '/\\w', '/a+/', '/b+/')):
                    # adjacent tokens: no run at all between elements
                    t = render(marked, '')
                    stats['cases'] += 1
                    r = outcome(lambda: parse(t))
                    if r != base:
                        failures.append({'witness': {**w0, 'text': t}, 'cls': 'nameguard-off-adjacent-tokens-differ',
                                         'detail': f'{who}, configuration {cname}: base {base!r}; without any separator: {r!r}'})
                if len(samples) < 3 and who == 'model' and nsep > 3 and len(runs) > 6:
                    samples.append({'grammar': text, 'base_text': base_text, 'variant': render(marked, runs[-1]), 'ast': base[1]})
    return stats, _keep(failures), samples[:2]


def _keep(failures, n=5):
    """the n smallest witnesses per class; every kept failure carries `n_in_worker` (on the first of its class)"""
    by = {}
    for f in failures:
        by.setdefault(f['cls'], []).append(f)
    kept = []
    for _c, fs in by.items():
        fs.sort(key=lambda f: len(repr(f['witness'])))
        for i, f in enumerate(fs[:n]):
            f = dict(f)
            f['n_in_worker'] = len(fs) if i == 0 else 0
            kept.append(f)
    return kept


def layout_jobs(tier):
    return [(gname, rules, inputs, cfg, tier) for gname, rules, inputs in LAYOUT_GRAMMARS for cfg in LAYOUT_CONFIGS]


# --------------------------------------------------------------------------------------------------
# (b) truth table
# --------------------------------------------------------------------------------------------------

TOKENS = ('ab', 'a1', 'A', 'if', '12', '1a', '+', '+=', 'a+', '+a', 'é', 'a-b', '-a', 'a_', '_a', '$x')
NEXT = ('x', 'Z', '7', '_', '-', '+', ' ', '', 'é', '$', '\n')


def is_alnum_token(tok, namechars):
    """docs/syntax.rst: "if text is alphanumeric" (+ the characters "that should also be considered part of names")"""
    return all(c.isalnum() or c in namechars for c in tok)


def expected_match(tok, text_tok, nxt, nameguard, namechars, ignorecase, ws_enabled):
    same = text_tok.lower() == tok.lower() if ignorecase else text_tok == tok
    if not same:
        return False
    guard = nameguard if nameguard is not None else (ws_enabled or bool(namechars))
    if guard and is_alnum_token(tok, namechars) and nxt != '' and (nxt.isalnum() or nxt in namechars):
        return False
    return True


def _table_work(chunk):
    stats = {'cases': 0, 'nontrivial': 0}
    failures, samples = [], []
    for tok, as_directives in chunk:
        rules = f'start = {tok!r} /[\\s\\S]*/ ;'
        for ng, nc, ic, ws in itertools.product((None, True, False), ('', '-', '_$'), (None, True), (None, '')):
            settings, d = {}, {}
            if ng is not None:
                d['nameguard'] = settings['nameguard'] = ng
            if nc:
                d['namechars'] = settings['namechars'] = nc
            if ic is not None:
                d['ignorecase'] = settings['ignorecase'] = ic
            if ws is not None:
                settings['whitespace'] = ws
                d['whitespace'] = None
            if as_directives:
                text, kw = _directives(**d) + rules, {}
            else:
                text, kw = rules, settings
            try:
                model = tatsu.compile(text)
                _src, cls = load_generated(text)
            except Exception as e:  # noqa: BLE001
                failures.append({'witness': {'grammar': text}, 'cls': f'compile-raises-{type(e).__name__}', 'detail': str(e)[:200]})
                continue
            variants = dict.fromkeys((tok, tok.upper(), tok.lower(), tok.swapcase()))
            for text_tok in variants:
                for nxt in NEXT:
                    inp = text_tok + nxt
                    want = expected_match(tok, text_tok, nxt, ng, nc, bool(ic), ws is None)
                    for who, parse in (('model', lambda t: model.parse(t, **kw)), ('generated parser', lambda t: cls().parse(t, **kw))):
                        stats['cases'] += 1
                        if text_tok != tok or (nxt and (nxt.isalnum() or nxt in '-_$')):
                            stats['nontrivial'] += 1
                        r = outcome(lambda: parse(inp))
                        got = r[0] == 'ok'
                        if r[0] == 'exc' or got != want:
                            failures.append({
                                'witness': {'grammar': text, 'settings': kw, 'input': inp, 'parser': who},
                                'cls': _table_class(tok, nxt, ng, nc, want, r),
                                'detail': f'{who}: token {tok!r} on text {inp!r} (nameguard={ng}, namechars={nc!r}, ignorecase={ic}, '
                                          f'whitespace {"default" if ws is None else "disabled"}): documented rule says '
                                          f'{"match" if want else "no match"}, got {r!r}'})
                        elif len(samples) < 2 and not want and text_tok == tok and who == 'model':
                            samples.append({'grammar': text, 'settings': kw, 'input': inp, 'result': r})
    return stats, _keep(failures), samples[:2]


def _table_class(tok, nxt, ng, nc, want, r):
    if r[0] == 'exc':
        return f'token-match-raises-{r[1]}'
    if want is False and tok[:1].isdigit() and is_alnum_token(tok, nc):
        return 'nameguard-not-applied-to-token-starting-with-a-digit'
    if want is True and ng is False and nc:
        return 'namechars-switch-nameguard-on-although-explicitly-off'
    return 'token-accepted-against-the-documented-rule' if not want else 'token-rejected-against-the-documented-rule'


# --------------------------------------------------------------------------------------------------
# (c) precedence
# --------------------------------------------------------------------------------------------------

_LR_RULES = "start = e $ ;\ne = e '+' t | t ;\nt = /\\d+/ ;"


def _probe_bool(accept_means):
    def probe(parse, text):
        r = outcome(lambda: parse(text))
        if r[0] == 'exc':
            return ('error', r[1])
        return accept_means if r[0] == 'ok' else (not accept_means)
    return probe


def _probe_which(candidates):
    """candidates: {value: input}; the observed value is the one whose input is accepted (exactly one expected)"""
    def probe(parse, _text):
        acc = []
        for v, inp in candidates.items():
            r = outcome(lambda: parse(inp))
            if r[0] == 'exc':
                return ('error', r[1])
            if r[0] == 'ok':
                acc.append(v)
        if not acc:
            return None  # no candidate value is in force
        return acc[0] if len(acc) == 1 else ('accepted', tuple(acc))
    return probe


def _probe_blocked(candidates):
    """namechars: the observed value is the string of characters after which the token 'a' is NOT matched"""
    def probe(parse, _text):
        blocked = ''
        for ch, inp in candidates.items():
            r = outcome(lambda: parse(inp))
            if r[0] == 'exc':
                return ('error', r[1])
            if r[0] != 'ok':
                blocked += ch
        return blocked
    return probe


def _probe_parseinfo(parse, text):
    r = outcome(lambda: parse(text))
    if r[0] != 'ok':
        return ('error', r[1])
    return isinstance(r[1], dict) and r[1].get('parseinfo') is not None


# option -> (rules, default, [value assignments (S, D, P)], probe, probe text, directive renderer)
OPTIONS = {
    'ignorecase': ("start = 'ab' $ ;", False, [(True, False, True), (False, True, False)], _probe_bool(True), 'AB'),
    'nameguard': ("start = 'a' 'b' $ ;", True, [(False, True, False), (True, False, True)], _probe_bool(False), 'ab'),
    'whitespace': ("start = 'a' 'b' $ ;", r'\s+', [('_+', '-+', '~+'), ('~+', '_+', '-+')],
                   _probe_which({r'\s+': 'a b', '_+': 'a_b', '-+': 'a-b', '~+': 'a~b'}), None),
    'namechars': ("start = 'a' /./ $ ;", '', [('-', '_', '~'), ('~', '-', '_')],
                  _probe_blocked({'-': 'a-', '_': 'a_', '~': 'a~'}), None),
    'comments': ("start = 'a' 'b' $ ;", None, [('%[^%]*%', r'\(\*.*?\*\)', r'\{[^}]*\}'), (r'\{[^}]*\}', '%[^%]*%', r'\(\*.*?\*\)')],
                 _probe_which({'%[^%]*%': 'a%c%b', r'\(\*.*?\*\)': 'a(*c*)b', r'\{[^}]*\}': 'a{c}b'}), None),
    'left_recursion': (_LR_RULES, True, [(True, False, True), (False, True, False), (True, True, False), (False, True, True)],
                       _probe_bool(True), '1+2'),
    'parseinfo': ("start = x:'a' $ ;", False, [(True, False, True), (False, True, False)], _probe_parseinfo, 'a'),
}


def _directive_line(option, v):
    if option in ('whitespace', 'comments'):
        return f'@@{option} :: /{v}/\n'
    if option == 'namechars':
        return f'@@{option} :: {v!r}\n'
    return f'@@{option} :: {v}\n'


def _precedence_work(chunk):
    stats = {'cases': 0, 'nontrivial': 0}
    failures, samples = [], []
    for option in chunk:
        rules, default, assignments, probe, ptext = OPTIONS[option]
        for (sv, dv, pv), (hs, hd, hp) in itertools.product(assignments, itertools.product((False, True), repeat=3)):
            S_ = {option: sv} if hs else {}
            P_ = {option: pv} if hp else {}
            text = (_directive_line(option, dv) if hd else '') + rules
            want = pv if hp else dv if hd else sv if hs else default
            if option == 'left_recursion':
                # the analysis runs when the grammar is compiled: a left-recursive grammar compiled with left
                # recursion off is refused (or fails to parse); a parse-time setting can only switch it off later
                compile_value = dv if hd else sv if hs else default
                want = compile_value and (pv if hp else True)
            if option == 'comments' and want is None and not (hs or hd or hp):
                pass
            layers = {'compile_time_setting': S_, 'directive': dv if hd else None, 'parse_time_setting': P_}
            # the parse-time layer is given as keyword settings, or inside a configuration object (`config=ParserConfig(...)`,
            # which is how tatsu.parse() and the command line pass it on): an object that does not mention the option must
            # leave it to the layers below
            for who, carrier in itertools.product(('model', 'generated parser'), ('keywords', 'config object')):
                stats['cases'] += 1
                if hs + hd + hp >= 2:
                    stats['nontrivial'] += 1
                try:
                    from tatsu.config import ParserConfig
                    kw = (lambda: dict(P_)) if carrier == 'keywords' else (lambda: {'config': ParserConfig(**P_)})
                    if who == 'model':
                        m = tatsu.compile(text, **S_)
                        parse = lambda t, m=m: m.parse(t, **kw())  # noqa: E731
                    else:
                        _src, cls = load_generated(text, **S_)
                        parse = lambda t, cls=cls: cls().parse(t, **kw())  # noqa: E731
                    got = probe(parse, ptext)
                except tatsu.exceptions.GrammarError as e:
                    got = False if option == 'left_recursion' else ('compile-error', f'GrammarError: {str(e)[:60]}')
                except Exception as e:  # noqa: BLE001
                    got = ('compile-error', f'{type(e).__name__}: {str(e)[:60]}')
                w = {'grammar': text, 'layers': layers, 'parser': who, 'parse_time_settings_given_as': carrier,
                     'probe': ptext or 'one input per candidate value'}
                if option == 'comments' and want is None:
                    ok = got is None
                else:
                    ok = got == want
                if ok:
                    if len(samples) < 2 and hs + hd + hp == 3 and who == 'model':
                        samples.append({**w, 'observed': repr(got)})
                    continue
                cls_ = _precedence_class(option, who, hs, hd, hp, sv, dv, pv, default, got, want)
                if carrier == 'config object':
                    ok_kw = [f for f in failures if f['cls'] == cls_]
                    if not ok_kw:
                        # the same layers given as keywords behave: the configuration object is what changes the outcome
                        cls_ = f"{'model' if who == 'model' else 'generated'}/config-object-resets-{option}-to-its-built-in-default" \
                            if not hp else cls_ + '/via-config-object'
                failures.append({'witness': w, 'cls': cls_,
                                 'detail': f'{who}: option {option}: layers {layers}; the highest layer present says {want!r}, '
                                           f'observed through parsing: {got!r}'})
    return stats, _keep(failures, 4), samples[:2]


def _precedence_class(option, who, hs, hd, hp, sv, dv, pv, default, got, want):
    slug = 'model' if who == 'model' else 'generated'
    if isinstance(got, tuple) and got[0] == 'compile-error':
        return (f'{slug}/compile-time-{option}-setting-is-applied-to-the-grammar-text' if hs else f'{slug}/{option}-compile-error')
    # what the layers above the compile-time setting would give without it
    without_s = pv if hp else dv if hd else default
    if option == 'left_recursion':
        without_s = (dv if hd else default) and (pv if hp else True)
    if hs and got == without_s:
        return f'{slug}/compile-time-setting-ignored'
    if hd and not hp and got == (sv if hs else default):
        return f'{slug}/directive-ignored/{option}'
    if hp and got != pv:
        return f'{slug}/parse-time-setting-ignored/{option}'
    return f'{slug}/precedence-other/{option}'


# the documented forms of the whitespace value (docs/syntax.rst, section Whitespace)
def _value_forms():
    failures, cases = [], 0
    rules = "start = 'a' 'b' $ ;"
    model = tatsu.compile(rules)
    _src, cls = load_generated(rules)
    probes = (
        # Two further forms of docs/syntax.rst are NOT probed: a plain string as a *character set* (docs/config.rst and
        # docs/directives.rst call the value a regular expression, and so does the property: "whitespace default / regex /
        # empty string") and whitespace=None at parse time (None is "not given" to every Config.override; the property does
        # not list it).  Both were reported by an earlier version of this run; they ask for more than C09 states.
        ({'whitespace': ''}, 'a b', False, 'whitespace-empty-setting-does-not-disable-whitespace', "whitespace='' disables skipping"),
        ({'whitespace': ''}, 'ab', True, 'whitespace-empty-setting-does-not-disable-whitespace', "whitespace='' : adjacent tokens parse"),
    )
    for kw, inp, want, cls_name, why in probes:
        for who, parse in (('model', lambda t: model.parse(t, **kw)), ('generated parser', lambda t: cls().parse(t, **kw))):
            cases += 1
            r = outcome(lambda: parse(inp))
            if (r[0] == 'ok') != want:
                failures.append({'witness': {'grammar': rules, 'settings': kw, 'input': inp, 'parser': who}, 'cls': cls_name,
                                 'detail': f'{who}: expected {"accept" if want else "reject"} ({why}), got {r!r}'})
    return cases, failures


# --------------------------------------------------------------------------------------------------

def _merge(results):
    stats, failures, samples, counts = {}, [], [], {}
    for st, fs, sm in results:
        for k, v in st.items():
            stats[k] = stats.get(k, 0) + v
        for f in fs:
            counts[f['cls']] = counts.get(f['cls'], 0) + f.pop('n_in_worker', 1)
        failures += fs
        samples += sm
    stats['failing'] = counts
    return stats, failures, samples


def _items(name, st, failures, **kw):
    counts = st.pop('failing', {})
    its = bitem(PROP, name, failures=failures, **kw)
    for it in its:
        c = it.id.split(f'B:{name}/', 1)[-1]
        if c in counts:
            it.extra['failing_cases'] = counts[c]
    return its


def run(tier='quick', seed=0, info=None):
    budget = Budget(60 if tier == 'quick' else 900)
    items, summary = [], []
    # (a)
    t0 = time.time()
    jobs = layout_jobs(tier)
    st, fs, sm = _merge(pmap(_layout_work, chunked(jobs, JOBS * 3)))
    items += _items('layout-metamorphosis', st, fs,
                   function='TextLinesCursor.next_token / eat_* and its call sites (token, rule entry, void, constant, eof) vs pattern, dot, upper-case rule entry',
                   domain=f'{len(LAYOUT_GRAMMARS)} grammars whose patterns match no whitespace x their marked inputs x '
                          f'{len(LAYOUT_CONFIGS)} configurations ({", ".join(c[0] for c in LAYOUT_CONFIGS)}) x every separator '
                          'position (one at a time -- thorough tier: against every other run elsewhere -- and all together) x every run of the configuration (blank, tab, CR LF, blanks '
                          'around line breaks, comments of each configured kind, comment + blank, doubled runs) incl. leading and '
                          'trailing positions; negative: runs before patterns / upper-case rules and runs that are not whitespace '
                          'under the configuration; model and generated parser',
                   bound='hand-written inputs of <= 11 lexical elements; runs of <= 12 characters', cases=st.get('cases', 0),
                   distinct_nontrivial=st.get('nontrivial', 0) + st.get('negative', 0),
                   rule='a case is (grammar, configuration, parser, input, position, run); all are non-trivial (each replaces an '
                        'existing run by a different one or inserts a run where none may be skipped)', exhaustive=False,
                   samples=sm[:3])
    summary.append(('layout-metamorphosis', st, time.time() - t0))
    # (b)
    t0 = time.time()
    toks = TOKENS if tier != 'quick' else TOKENS
    jobs = [(t, d) for t in toks for d in (False, True)]
    st, fs, sm = _merge(pmap(_table_work, [[j] for j in jobs]))
    items += _items('nameguard-ignorecase-table', st, fs, function='TextLinesCursor.match / is_name / is_name_char; ParserConfig.__post_init__ (namechars => nameguard)',
                   domain=f'{len(TOKENS)} tokens {TOKENS} x following character {NEXT} x case variants of the text x nameguard '
                          "{unset,on,off} x namechars {'', '-', '_$'} x ignorecase {unset,on} x whitespace {default, disabled}; given as "
                          'parse-time settings and as directives; model and generated parser',
                   bound='tokens of <= 3 characters, one following character', cases=st.get('cases', 0),
                   distinct_nontrivial=st.get('nontrivial', 0),
                   rule='a case is (token, text variant, next character, configuration, parser); non-trivial when the text differs '
                        'from the token in case or the next character is alphanumeric or a candidate name character',
                   exhaustive=True, samples=sm[:3])
    summary.append(('nameguard-ignorecase-table', st, time.time() - t0))
    # (c)
    t0 = time.time()
    st, fs, sm = _merge(pmap(_precedence_work, [[o] for o in OPTIONS]))
    vcases, vfails = _value_forms()
    st['cases'] = st.get('cases', 0) + vcases
    items += _items('configuration-precedence', st, fs + vfails, function='api.compile / Grammar.__init__ / new_parse_config / generated <Name>Parser.__init__ + Parser.__init__ / ParserEngine.bound (Config.override / hard_override)',
                   domain=f'{len(OPTIONS)} options {tuple(OPTIONS)} x all 2^3 presence combinations of (compile-time setting, '
                          'directive, parse-time setting) x 2-4 value assignments; model (tatsu.compile(g, **s)) and generated parser '
                          '(tatsu.to_python_sourcecode(g, **s)); + the documented value forms of `whitespace`',
                   bound='one option at a time', cases=st.get('cases', 0), distinct_nontrivial=st.get('nontrivial', 0),
                   rule='a case is (option, presence combination, value assignment, parser); non-trivial when at least two layers are present',
                   exhaustive=True, samples=sm[:3])
    summary.append(('configuration-precedence', st, time.time() - t0))
    if info is not None:
        info.setdefault('bounded', []).append({'run': 'bC09', 'tier': tier, 'wall_s': round(budget.spent(), 1)})
    run.summary = summary
    return items


def main(argv=None):
    from bounded.bC02 import print_summary
    argv = sys.argv[1:] if argv is None else argv
    tier = argv[0] if argv else 'quick'
    seed = int(argv[1]) if len(argv) > 1 else 0
    t0 = time.time()
    items = run(tier, seed, {})
    print_summary(items, run.summary, time.time() - t0)
    return 0


if __name__ == '__main__':
    sys.exit(main())
