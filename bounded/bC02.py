"""C02 (bounded, API level): the generated Python parser behaves like the in-memory grammar model.

    PYTHONPATH=/verif /verif/.venv/bin/python -m bounded.bC02 quick|thorough [seed]

For every grammar of the domain

    model   = tatsu.compile(text)
    source  = tatsu.to_python_sourcecode(text)      -> compile(source)  (must always be valid python)
    Parser  = exec(source)[<Name>Parser]

and for every input of the battery x every parse-time setting of SETTINGS (defaults, ignorecase=True,
nameguard=False, two whitespace overrides, parseinfo=True, a tagging semantics object -- the SAME object is
given to both back ends), `model.parse(text, **s)` and `Parser().parse(text, **s)` are compared:

* success / failure;
* the exception CLASS on failure: every `FailedParse` subclass is one category ("parse error"), any other
  exception type must be the same on both sides;
* the AST: `tatsu.util.asjson` of both results must be equal; the payload of a `parseinfo` entry is ignored
  (the rule name in it is the python-safe name in generated code), its PRESENCE is compared, so
  `parseinfo=True` must add the entries on both sides in the same places.

Domain
  * descriptions from bounded/grammars.py rendered with specpeg.to_text: a seeded sample of single- and
    two-rule grammars (every node kind of specpeg occurs), every named-in-scope grammar of 5 nodes in a seeded
    sample, `CUT_GRAMMARS`; battery = ALL strings over a 3-letter alphabet + blank up to length 4 (341);
  * TEXT_GRAMMARS: hand-written grammar texts with directives, rule parameters, decorators, upper-case rules,
    keyword-like rule names, names / list names in every scope, optionals that do not match, groups, joins,
    gathers, skip-to, lookaheads, overrides, constants, includes, based rules ...; hand-picked inputs.

A generator that refuses a grammar (`CodegenError`) is counted as skipped and reported in `samples`: the
documentation does not say which grammars the generator must accept.

Failures are grouped into classes (see `classify`), one Item per class with the smallest witness:
  skipto-body-not-passed-as-closure      `with ctx.skipto():` is emitted without `as cl` / `@cl.exp` (D26)
  name-binds-last-node-of-group          x:('a' 'b') binds 'b' in generated code (D5)
  name-binds-stale-previous-node         a name / override whose operand appends nothing binds the previous element (D25)
  void-or-lookahead-value-differs        x:() / x:&e / x:->&e: the model binds () / the value of e, generated code None (docs silent)
  override-nested-in-a-named-operand     x:{@:e} ...: an override inside the operand of a name / override (model: rule-wide key)
  names-predefined-by-sequences-only     an optional / an option that is not a sequence pre-defines its names in the model only
  sequence-does-not-predefine-its-names  (not on the unchanged tree) a sequence's `ctx.define` is missing
  text-None-skipped-as-comment           comments=r'None' is emitted when the grammar has no comments pattern
  based-rule-base-expression-not-generated, rule-parameter-differs-in-generated-parser (Name::Base cut to Name),
  parseinfo-directive-ignored-by-generated-parser, rule-names-collide-after-python-safe-renaming (class / class_),
  generator-raises-<Exc>, generated-source-is-not-valid-python, internal-override-key-in-ast (model side, known C01 finding),
  <who>-accepts-<who>-rejects/<node kinds> and ast-differs/<node kinds>: anything not explained above.

This module also hosts the helpers shared by bC03 / bC04 / bC09 / bC11 (`load_generated`, `outcome`, `canon`).
"""
from __future__ import annotations

import json
import os
import random
import re
import signal
import sys
import time

import tatsu  # noqa: F401  (imported HERE so that every forked worker runs the same engine code)
import tatsu.exceptions
from tatsu.util import asjson

from bounded import grammars as G
from bounded import specpeg as S
from bounded.common import JOBS, Budget, bitem, chunked, pmap

PROP = 'C02'
FUNCTION = ('exec(tatsu.to_python_sourcecode(g))[<Name>Parser]().parse(text, **s) == tatsu.compile(g).parse(text, **s) '
            '(ngparser_gen.PythonParserGenerator.walk_* + contexts/context.py managers vs peg model nodes)')
RULE = ('a case is (grammar, input, setting); distinct non-trivial = cases in which at least one back end accepted the '
        'input, plus the rejected cases of a (grammar, setting) pair that accepts some input of its battery (the rejection '
        'is then a decision of the grammar, not a dead grammar)')


# --------------------------------------------------------------------------------------------------
# shared helpers
# --------------------------------------------------------------------------------------------------

class Hang(Exception):
    pass


def _alarm(_sig, _frm):
    raise Hang('time budget of one grammar exceeded')


class time_limit:
    """SIGALRM based budget (worker processes run one grammar at a time in their main thread)"""

    def __init__(self, seconds):
        self.seconds = int(max(1, seconds))

    def __enter__(self):
        self.old = signal.signal(signal.SIGALRM, _alarm)
        signal.alarm(self.seconds)

    def __exit__(self, *exc):
        signal.alarm(0)
        signal.signal(signal.SIGALRM, self.old)
        return False


_SRC_CACHE: dict = {}


def generated_source(text, **settings):
    key = (text, json.dumps(settings, sort_keys=True, default=repr))
    if key not in _SRC_CACHE:
        _SRC_CACHE[key] = tatsu.to_python_sourcecode(text, **settings)
    return _SRC_CACHE[key]


_CLS_CACHE: dict = {}


def load_generated(text, **settings):
    """-> (source, parser class); the source is compiled with the builtin compile() first (SyntaxError = finding)"""
    key = (text, json.dumps(settings, sort_keys=True, default=repr))
    if key not in _CLS_CACHE:
        src = generated_source(text, **settings)
        code = compile(src, '<generated parser>', 'exec')
        ns: dict = {'__name__': 'generated_parser'}
        exec(code, ns)  # noqa: S102
        names = [k for k, v in ns.items() if isinstance(v, type) and k.endswith('Parser')
                 and v.__module__ == 'generated_parser']
        _CLS_CACHE[key] = (src, ns[names[0]])
    return _CLS_CACHE[key]


PI_KEYS = ('parseinfo', '__parseinfo__')
PI = '<parseinfo>'


def canon(v, keep_parseinfo=True):
    """asjson value with every non-null parseinfo payload replaced by the marker PI (or dropped)"""
    if isinstance(v, dict):
        out = {}
        for k, x in v.items():
            if k in PI_KEYS:
                if keep_parseinfo and (x is not None or k == 'parseinfo'):
                    out[k] = PI if x is not None else None
                continue
            out[k] = canon(x, keep_parseinfo)
        return out
    if isinstance(v, (list, tuple)):
        return [canon(x, keep_parseinfo) for x in v]
    return v


def has_pi(v):
    if isinstance(v, dict):
        return any(x == PI for x in v.values()) or any(has_pi(x) for x in v.values())
    if isinstance(v, list):
        return any(has_pi(x) for x in v)
    return False


def outcome(fn, keep_parseinfo=True):
    """('ok', canonical json) | ('fail', FailedParse subclass name) | ('exc', class name, message)"""
    from tatsu.exceptions import FailedParse
    try:
        return ('ok', canon(asjson(fn()), keep_parseinfo))
    except FailedParse as e:
        return ('fail', type(e).__name__)
    except Hang:
        raise
    except RecursionError:
        return ('exc', 'RecursionError', '')
    except Exception as e:  # noqa: BLE001
        return ('exc', type(e).__name__, str(e)[:120])


def same_outcome(a, b):
    if a[0] != b[0]:
        return False
    if a[0] == 'ok':
        return a[1] == b[1]
    if a[0] == 'fail':
        return True  # FailedParse subclasses are one category
    return a[1] == b[1]


class Tag:
    """tagging semantics: every rule value is wrapped together with the rule parameters the action received"""

    def __init__(self):
        self.calls = 0

    def _default(self, ast, *args, **kwargs):
        self.calls += 1
        return {'T': ast, 'args': list(args), 'kw': {k: kwargs[k] for k in sorted(kwargs)}}

    # a rule-specific action under a python-safe name (found for rules `class` / `class_`) and a plain one
    def class_(self, ast, *args, **kwargs):
        self.calls += 1
        return {'class_action': ast}

    def num(self, ast, *args, **kwargs):
        self.calls += 1
        return {'num_action': ast, 'args': list(args)}

    def __repr__(self):
        return 'Tag()'


# --------------------------------------------------------------------------------------------------
# domain
# --------------------------------------------------------------------------------------------------

ALPHA_DESC = 'abA '  # 'A': matches a token only under ignorecase, never the pattern /a+/; a name character
ALPHA_CUT = 'abc '
MAXLEN = 4

SETTINGS = (
    ('defaults', {}),
    ('ignorecase', {'ignorecase': True}),
    ('nameguard-off', {'nameguard': False}),
    ('whitespace-off', {'whitespace': ''}),
    ('whitespace-override', {'whitespace': '[ A]+'}),
    ('parseinfo', {'parseinfo': True}),
    ('semantics', {'semantics': 'TAG'}),
)


def _settings(s):
    s = dict(s)
    if s.get('semantics') == 'TAG':
        s['semantics'] = Tag()
    return s


# hand-written grammar texts: (name, text, inputs)
_COMMON_INPUTS = ('', ' ')

TEXT_GRAMMARS = (
    ('plain-none-text', "start = 'a' $ ;", ('a', ' a ', 'None a', 'a None', 'aNone', 'None', 'b')),
    ('whitespace-regex', "@@whitespace :: /[ \\t]+/\nstart = 'a' 'b' $ ;", ('a b', 'a\tb', 'a\nb', 'ab', ' a b ', 'a  b')),
    ('whitespace-none', "@@whitespace :: None\nstart = 'a' 'b' $ ;", ('ab', 'a b', ' ab', 'ab ', 'abc', 'aNoneb', 'Noneab')),
    ('whitespace-none-nameguard-on', "@@whitespace :: None\n@@nameguard :: True\nstart = 'a' 'b' $ | 'a' '+' 'b' $ ;",
     ('ab', 'a+b', 'a b', 'a +b')),
    ('nameguard-off', "@@nameguard :: False\nstart = 'a' 'ab' $ | 'a' 'b' $ ;", ('aab', 'a ab', 'ab', 'a b', 'abb')),
    ('nameguard-on', "@@nameguard :: True\nstart = 'in' x:/\\w+/ $ ;", ('in x', 'inx', 'in  xy', 'IN x', 'in')),
    ('namechars', "@@namechars :: '-$'\nstart = 'if' x:/[-$\\w]+/ $ | 'if' '-' 'x' $ ;",
     ('if x', 'if-x', 'if -x', 'if$', 'if $', 'ifx', 'IF x')),
    ('ignorecase', "@@ignorecase :: True\nstart = 'select' n:/[a-z]+/ 'End' $ ;",
     ('select abc end', 'SELECT abc END', 'Select ABC End', 'select abc End', 'selectabc end')),
    ('ignorecase-off-directive', "@@ignorecase :: False\nstart = 'select' 'x' $ ;", ('select x', 'SELECT X', 'Select x')),
    ('comments', "@@comments :: /\\(\\*.*?\\*\\)/\nstart = 'a' 'b' $ ;",
     ('a b', 'a (* c *) b', '(* c *)a(**)b(* d *)', 'a (* b', 'a(*x*)(*y*) b', 'a ( * c *) b', 'a None b')),
    ('eol-comments', "@@eol_comments :: /#[^\\n]*/\nstart = 'a' 'b' $ ;",
     ('a b', 'a # c\nb', '# c\na b # d', 'a # b', 'a #\n#\n b', '#', 'None a b')),
    ('both-comments-no-whitespace', "@@whitespace :: None\n@@comments :: /\\(\\*.*?\\*\\)/\n@@eol_comments :: /#[^\\n]*\\n?/\n"
                                    "start = 'a' 'b' $ ;",
     ('ab', 'a(* c *)b', 'a#c\nb', 'a b', '(*x*)ab#y', 'a (* c *)b')),
    ('keywords', "@@keyword :: if end\n@@keyword :: 'while' \"do\"\nstart = {stmt}+ $ ;\nstmt = 'if' n:name 'end' | n:name '=' v:name ;\n"
                 "@name\nname = /[a-z]+/ ;",
     ('if x end', 'x = y', 'if if end', 'if = x', 'x = while', 'ifx = doo', 'x = do', 'if x end y = z', 'IF = x', 'while = x')),
    ('keywords-ignorecase', "@@ignorecase :: True\n@@keyword :: if End\nstart = n:name $ ;\n@name\nname = /[a-zA-Z]+/ ;",
     ('if', 'IF', 'iF', 'end', 'END', 'x', 'iff', 'En')),
    ('parseinfo-directive', "@@parseinfo :: True\nstart = a:item b:{item} $ ;\nitem = v:/\\w/ ;", ('a', 'a b c', '', 'a  b')),
    ('parseinfo-directive-off', "@@parseinfo :: False\nstart = a:item $ ;\nitem = v:/\\w/ ;", ('a', 'ab')),
    ('left-recursion-off', "@@left_recursion :: False\nstart = t {'+' t} $ ;\nt = /\\d+/ ;", ('1', '1+2', '1 + 2 + 3', '1+')),
    ('left-recursion-on', "@@left_recursion :: True\nstart = e $ ;\ne = e '+' t | t ;\nt = /\\d+/ ;",
     ('1', '1+2', '1 + 2 + 3', '1+', '+1')),
    ('left-recursion-named', "start = e $ ;\ne = l:e op:'+' r:t | t ;\nt = /\\d+/ ;", ('1', '1+2', '1 + 2 + 3', '1+')),
    ('rule-params', "start = add $ ;\nadd(Add, op='+') = l:num '+' r:num ;\nnum(int) = /\\d+/ ;", ('1+2', '1 + 22', '1+', '1')),
    ('rule-params-brackets', "start = add $ ;\nadd[Add, '+'] = l:num '+' r:num ;\nnum[x=1, y='z'] = /\\d+/ ;", ('1+2', '1', '')),
    ('rule-params-path-and-numbers', "start = a b c $ ;\na(x::Y) = 'a' ;\nb(1, 2.5) = 'b' ;\nc(\"q'q\", k=-3) = 'c' ;",
     ('a b c', 'abc', 'a b')),
    ('nomemo', "start = x 'b' | x 'c' ;\n@nomemo\nx = 'a' ;", ('a b', 'a c', 'a d', 'a')),
    ('nostak', "start = x 'b' | y 'c' ;\n@nostak\nx = 'a' ;\n@nostak\ny = 'a' ;", ('a b', 'a c', 'a d')),
    ('uppercase-rule', "start = 'x' NUM w:word $ ;\nNUM = /\\d+/ ;\nword = /[a-z]+/ ;",
     ('x1 a', 'x 1 a', 'x1a', 'x1  a', ' x1 a')),
    ('uppercase-rule-underscore', "start = 'x' _Num $ | 'x' _low $ ;\n_Num = /\\d+/ ;\n_low = /[a-z]+/ ;",
     ('x1', 'x 1', 'xa', 'x a')),
    ('python-keyword-rule-names', "start = class def import lambda_ $ ;\nclass = 'c' ;\ndef = d:'d' ;\nimport = {'i'}+ ;\n"
                                  "lambda_ = 'l' ;",
     ('c d i l', 'c d i i l', 'c d l', 'cdil')),
    ('python-keyword-rule-names-2', "start = (if | else | not | pass)+ $ ;\nif = 'i' ;\nelse = 'e' ;\nnot = 'n' ;\npass = 'p' ;",
     ('i', 'i e n p', 'p p', 'x')),
    ('rule-names-differing-by-trailing-underscore', "start = class class_ $ ;\nclass = 'a' ;\nclass_ = 'b' ;", ('a b', 'b b', 'a a')),
    ('builtin-rule-names', "start = list dict print type id str $ ;\nlist = 'l' ;\ndict = 'd' ;\nprint = 'p' ;\ntype = 't' ;\n"
                           "id = 'i' ;\nstr = 's' ;",
     ('l d p t i s', 'l d p t i', 'ldptis')),
    ('runtime-name-rule-names', "start = ctx self cl _ Any $ ;\nctx = 'c' ;\nself = 's' ;\ncl = {'l'} ;\n_ = 'u' ;\nAny = 'A' ;",
     ('c s l u A', 'c s u A', 'c s l l uA', 'c s l u  A')),
    ('keyword-like-element-names', "start = class:'a' def:'b' items:'c' keys+:'d' $ ;", ('a b c d', 'a b c')),
    ('list-names-only-closure', "start = 'a' {x+:'b'} $ ;", ('a', 'a b', 'a b b', 'b')),
    ('list-names-only-optional', "start = 'a' [x+:'b'] y+:'c' $ ;", ('a c', 'a b c', 'a b')),
    ('list-names-only-choice', "start = ('a' x+:'b' | 'a' y+:'c') $ ;", ('a b', 'a c', 'a')),
    ('names-in-group-and-closure', "start = a:'a' (b:'b' | c+:'c') {d:'d' e+:['e']} $ ;",
     ('a b', 'a c', 'a b d', 'a c d e d', 'a b d e d e', 'a')),
    ('names-in-optional-unmatched', "start = x+:'a' x+:'b' y:['c'] z+:['d'] $ ;", ('a b', 'a b c', 'a b d', 'a b c d', 'a')),
    ('names-in-join', "start = ','%{n+:num}+ $ ;\nnum = /\\d+/ ;", ('1', '1,2', '1 , 2 , 3', '1,', ',1')),
    ('names-in-gather', "start = xs:','.{num} $ ;\nnum = /\\d+/ ;", ('', '1', '1,2', '1 , 2 , 3', '1,')),
    ('optional-choice-names', "start = [x:'a' | 'b'] $ ;", ('a', 'b', '', 'c')),
    ('optional-lookahead-names', "start = [&(x:'a')] /\\w*/ $ ;", ('a', 'b', '')),
    ('option-optional-names', "start = 'a' | [y:'b'] ;", ('a', 'b', '')),
    ('named-groups', "start = x:('a' 'b') y:('c') z:('d' | 'e' 'f') $ ;", ('a b c d', 'a b c e f', 'a b c', 'abcd')),
    ('named-closures', "start = x:{'a'} y:{'b'}+ z:[{'c'}] $ ;", ('b', 'a b', 'a a b b c c', 'a')),
    ('optional-unmatched-after-rule', "start = r y:['c'] $ ;\nr = 'a' ;", ('a', 'a c', 'c')),
    ('optional-unmatched-first', "start = y:['c'] 'a' $ ;", ('a', 'c a', 'c')),
    ('joins', "start = ','%{'a'} ';' ','%{'b'}+ $ ;", ('; b', 'a ; b', 'a , a ; b , b', 'a , ; b', 'a ;')),
    ('gathers', "start = ','.{'a'} ';' ','.{'b'}+ $ ;", ('; b', 'a ; b', 'a , a ; b , b', 'a , ; b', 'a ;')),
    ('join-group-separator', "start = ('+' | '-')%{/\\d/}+ $ ;", ('1', '1+2-3', '1 + 2', '1+')),
    ('left-right-join', "start = l:'+'<{/\\d/}+ ';' r:'-'>{/\\d/}+ $ ;", ('1 ; 2', '1+2+3 ; 4-5-6', '1+ ; 2')),
    ('skip-to', "start = ->'b' 'c' $ ;", ('b c', 'a a b c', 'a b b c', 'a c', 'xx b c', 'ab c')),
    ('skip-to-lookahead', "start = 'x' ->&';' ';' $ ;", ('x ;', 'x a b ;', 'x', 'x ; ;')),
    ('skip-to-named', "start = 'x' y:->'e' $ ;", ('x e', 'x a e', 'x')),
    ('skip-to-rule', "start = ->end $ ;\nend = 'e' 'n' ;", ('e n', 'a e n', 'e e n', 'e')),
    ('lookaheads', "start = &'a' x:/\\w+/ $ | !'b' y:/\\w+/ $ | z:/\\w+/ $ ;", ('abc', 'cde', 'bcd', ' abc', '')),
    ('lookahead-with-names', "start = &(n:'a') 'a' m:'b' $ ;", ('a b', 'a', 'b')),
    ('overrides', "start = '(' @:e ')' $ ;\ne = /\\w+/ ;", ('(a)', '( ab )', '(a', 'a')),
    ('override-list', "start = '(' @+:e {',' @+:e} ')' $ ;\ne = /\\w+/ ;", ('(a)', '(a,b)', '( a , b , c )', '()')),
    ('override-single-then-list', "start = @:'a' @+:'b' $ | @+:'c' @:'d' $ ;", ('a b', 'c d')),
    ('override-in-choice', "start = 'x' @:'a' | @:'b' 'y' | 'c' ;", ('x a', 'b y', 'c', 'x')),
    ('override-group', "start = @:('a' 'b') 'c' $ ;", ('a b c', 'a b')),
    ('constants', "start = 'a' c:`1` d:`\"x\"` e:`foo` f:`True` $ ;", ('a', 'b')),
    ('constant-interpolation', "start = a:'a' b:`{a}{a}` $ ;", ('a', '')),
    ('constant-quotes', "start = 'a' `it's` `\"q\"` $ ;", ('a',)),
    ('alerts', "start = 'a' ^`careful` ^^`very {x}` 'b' $ ;", ('a b', 'a')),
    ('include', "a = x:'a' ;\nstart = >a z:'c' $ ;", ('a c', 'a', 'c')),
    ('based-rule', "start = w:b $ ;\na = x:'a' ;\nb < a = y:'b' ;", ('a b', 'a', 'b')),
    ('based-rule-params', "start = b $ ;\na(P, q=1) = 'a' ;\nb < a = 'b' ;", ('a b', 'b')),
    ('override-decorator', "start = ab $ ;\nab = 'xyz' ;\n@override\nab = @:'a' {@:'b'} ;", ('a', 'a b', 'xyz', 'a b b')),
    ('eol-expression', "@@whitespace :: /[ ]+/\nstart = {line}+ $ ;\nline = w:/\\w+/ $-> ;", ('a\nb\n', 'a\n', 'a', 'a b\n', 'a \n\n b\n')),
    ('meta-expressions', "start = n:@int u:@uint f:@float b:@bool i:@name $ ;",
     ('-1 2 3.5 true x', '1 2 3 false y_1', '1 -2 3 true x', 'a')),
    ('special-character-tokens', "start = '\\\\' '\"' \"'\" '{' '%' 'é' 'a\\nb' $ ;", ('\\ " \' { % é a\nb', '\\"\'{%éa\nb', '\\')),
    ('special-character-patterns', "start = /[\\'\"]+/ ?\"\\d+/\\d+\" /\\\\\\w/ /a\\/b/ $ ;", ('\'"1/2\\xa/b', '"1/2\\ya/b', "'")),
    ('pattern-groups', "start = a:/(\\w)(\\w)/ b:/(?:x)(y)?/ c:/z*/ $ ;", ('abxy', 'abx', 'abxyzz', 'ab')),
    ('consecutive-patterns', "start = /a/ /b+/ 'c' $ ;", ('abc', 'abb c', 'a bc')),
    ('multiline-pattern-flags', "start = {/(?m)^\\w+$/ /\\n?/}+ $ ;", ('ab\ncd', 'ab', 'ab cd')),
    ('empty-closure-void-fail-dot', "start = a:{} b:() c:/./ ('x' !() | 'y') $ ;", ('qy', 'q y', 'qx', '')),
    ('nested-closures-and-choices', "start = {'a' {'b' {'c' | 'd' ('e' | 'f' {'g'}+)}}} $ ;",
     ('a', 'a b c', 'a b d e', 'a b d f g g a b c', 'a b d f', 'a b c d e c')),
    ('nested-choices-names', "start = {k+:('a' | 'b') | v:'c'}+ $ ;", ('a', 'a b c', 'c c', 'a c b', 'd')),
    ('grammar-name-directive', "@@grammar :: My_Lang9\nstart = 'a' $ ;", ('a', 'b')),
    ('token-rule-with-params', "start = n:NUM(x) $ ;\nNUM(int) = /\\d+/ ;", ()),  # placeholder replaced below
    ('positive-closure-atom-forms', "start = 'a'+ 'b'* 'c'? $ ;", ('a', 'a a b b c', 'b', 'a c c')),
    ('keyword-rule-and-python-names', "@@keyword :: class def\nstart = class:name def:name $ ;\n@name\nname = /\\w+/ ;",
     ('x y', 'class y', 'x def', 'Class Def')),
    ('cut-in-group-named', "start = x:('a' ~ 'b') | x:('a' 'c') ;", ('a b', 'a c', 'a')),
    ('cut-in-optional', "start = ['a' ~ 'b'] 'a' 'c' $ | 'a' 'c' $ ;", ('a b a c', 'a c', 'a b')),
    ('semantics-rule-names', "start = class num $ ;\nclass = 'k' ;\nnum(base=10) = /\\d+/ ;", ('k 1', 'k', '1')),
    ('memoization-directive', "@@memoization :: False\nstart = x 'b' | x 'c' ;\nx = 'a' ;", ('a b', 'a c', 'a')),
)
TEXT_GRAMMARS = tuple(t for t in TEXT_GRAMMARS if t[0] != 'token-rule-with-params') + (
    # more repetitions in one rule than the generator has one-letter block names for (52)
    ('many-closures-in-one-rule', 'start = ' + ' '.join("{'a%d'}" % i for i in range(54)) + ' $ ;', ('a1 a1 a5', 'a53', 'a54')),
)

TEXT_SETTINGS = SETTINGS + (
    ('whitespace-tab-only', {'whitespace': '\t+'}),
    ('comments-setting', {'comments': r'\{[^}]*\}'}),
    ('nameguard-on', {'nameguard': True}),
    ('ignorecase-off', {'ignorecase': False}),
    ('left-recursion-off', {'left_recursion': False}),
    ('start-last-rule', {'start': '__LAST__'}),
)


def naming_matrix():
    """every naming operator x every kind of operand, alone and after a token (so that a value bound from the
    PREVIOUS element is visible): `start = OP e`, `start = 'b' OP e ['a']`"""
    a, b = ('tok', 'a'), ('tok', 'b')
    operands = [
        a, ('pat', 'a+'), ('const', 1), ('void',), ('eof',), ('dot',), ('emptyclosure',), ('cut',),
        ('group', ('seq', (a, b))), ('group', ('choice', (a, b))), ('group', ('seq', (a, ('cut',), b))),
        ('group', ('seq', (a, ('void',)))), ('group', ('seq', (a, ('named', 'y', b)))), ('skipgroup', a),
        ('opt', a), ('opt', ('seq', (a, b))), ('closure', a), ('pclosure', a), ('join', b, a), ('pgather', b, a),
        ('la', a), ('nla', a), ('skipto', a), ('call', 'r'),
    ]
    out = []
    for op in ('named', 'namedlist', 'override', 'overridelist'):
        for e in operands:
            el = (op, 'x', e) if op in ('named', 'namedlist') else (op, e)
            rules = (('r', ('seq', (a, ('opt', b)))),) if e == ('call', 'r') else ()
            out.append((('start', el), *rules))
            out.append((('start', ('seq', (b, el, ('opt', a)))), *rules))
    return [d for d in out if S.wellformed(d)]


def description_grammars(tier, seed):
    """[(label, desc, alphabet)]: label 'desc' (seeded sample), 'matrix' (naming matrix), 'cut' (CUT_GRAMMARS)"""
    rnd = random.Random(seed)
    out = []
    n1, n2, n3 = (22, 26, 18) if tier == 'quick' else (450, 450, 300)
    pool1 = G.single_rule(3)
    pool4 = G.single_rule(4, 'core', exact=True)
    pool2 = G.two_rule(2, 2)
    pool5 = G.named_in_scopes(5, wide=True)
    # every node kind at least once: the 1- and 2-node grammars with distinct kind sets are all taken
    small, seen = [], set()
    for d in pool1:
        k = frozenset(S.kinds_of(d[0][1]))
        if S.node_count(d[0][1]) <= 2 and k not in seen:
            seen.add(k)
            small.append(d)
    rest1 = [d for d in pool1 if S.node_count(d[0][1]) > 2]
    picked = list(small) + rnd.sample(rest1, min(n1, len(rest1))) + rnd.sample(pool4, min(n1 // 2, len(pool4)))
    picked += rnd.sample(pool2, min(n2, len(pool2)))
    picked += rnd.sample(pool5, min(n3, len(pool5)))
    for d in G.dedup(picked):
        out.append(('desc', d, ALPHA_DESC))
    for d in naming_matrix():
        out.append(('matrix', d, ALPHA_DESC))
    for _n, d in G.CUT_GRAMMARS:
        out.append(('cut', d, ALPHA_CUT))
    return out


# --------------------------------------------------------------------------------------------------
# comparison of one grammar
# --------------------------------------------------------------------------------------------------

def model_kinds(model):
    """class names of the nodes of the (optimized) model, and {name ('@' = override): operand class names}"""
    from tatsu import peg
    kinds, opmap = set(), {}

    def below(n, acc):
        acc.add(type(n).__name__)
        for c in n.children():
            if isinstance(c, peg.Model):
                below(c, acc)
        return acc

    def walk(n):
        kinds.add(type(n).__name__)
        if isinstance(n, peg.Sequence):
            opmap.setdefault(('seqnames',), set()).update(n.defines_single, n.defines_list)
        if isinstance(n, (peg.Named, peg.NamedList)):
            opmap.setdefault(n.name, set()).add(type(n.exp).__name__)
            opmap.setdefault(('below', n.name), set()).update(below(n.exp, set()))
        elif isinstance(n, (peg.Override, peg.OverrideList)):
            opmap.setdefault('@', set()).add(type(n.exp).__name__)
            opmap.setdefault(('below', '@'), set()).update(below(n.exp, set()))
        exp = getattr(n, 'rhs', None) if isinstance(n, peg.BasedRule) else None
        if isinstance(exp, peg.Model):
            walk(exp)
        for c in n.children():
            if isinstance(c, peg.Model):
                walk(c)

    for r in model.rules:
        walk(r)
    return kinds, opmap


VALUELESS = {'Void', 'Lookahead', 'NegativeLookahead', 'EOF', 'EOL', 'Cut', 'Fail', 'Alert', 'SkipGroup'}
_TRANSPARENT = {'T'}  # the wrapper key of the tagging semantics


def diff_keys(a, b, acc, key=None):
    """where two canonical results differ: ('missing', k) a dict key present on one side only (or dict vs
    non-dict), ('value', k) the value under key k (None: not under a key)"""
    if isinstance(a, dict) and isinstance(b, dict):
        for k in sorted(set(a) | set(b)):
            if k not in a or k not in b:
                acc.add(('missing', k))
            elif a[k] != b[k]:
                diff_keys(a[k], b[k], acc, key if k in _TRANSPARENT else k)
    elif isinstance(a, list) and isinstance(b, list) and len(a) == len(b):
        for x, y in zip(a, b):
            if x != y:
                diff_keys(x, y, acc, key)
    elif isinstance(a, dict) != isinstance(b, dict) and key is None:
        acc.add(('missing', key))
    else:
        acc.add(('value', key))
    return acc


def classify(text, src, kinds, opmap, inp, sval, m, g, rerun):
    """name the class of a disagreement (model outcome m, generated outcome g).  `rerun(extra)` evaluates the
    same case again with extra parse-time settings -> (m, g)."""
    defs = re.findall(r'^    def (\w+)\(self, ctx: Ctx\)', src, re.M)
    if len(defs) != len(set(defs)):
        return 'rule-names-collide-after-python-safe-renaming'  # two rules became one method
    if 'SkipTo' in kinds and 'with ctx.skipto():' in src:
        return 'skipto-body-not-passed-as-closure'  # (the emitted block has no `as cl` / `@cl.exp`)
    if 'BasedRule' in kinds:
        return 'based-rule-base-expression-not-generated'
    if 'None' in inp:
        extra = {k: '' for k in ('comments', 'eol_comments') if k not in sval and f'@@{k}' not in text}
        if extra:
            m2, g2 = rerun(extra)
            if same_outcome(m2, g2) and m2 == m:
                return 'text-None-skipped-as-comment'
    if '__vallue__' in repr(m) or '__vallue__' in repr(g):
        return 'internal-override-key-in-ast'
    if g[0] == 'exc' and m[0] != 'exc':
        return f'generated-raises-{g[1]}'
    if m[0] == 'exc' and g[0] != 'exc':
        return f'model-raises-{m[1]}'
    if m[0] == 'exc' and g[0] == 'exc':
        return f'exception-class-differs-{m[1]}-vs-{g[1]}'
    tail = '+'.join(sorted(kinds - {'Rule', 'Sequence', 'Token', 'EOF'}))[:80]
    if m[0] != g[0]:
        who = 'generated-accepts-model-rejects' if g[0] == 'ok' else 'model-accepts-generated-rejects'
        return f'{who}/{tail}'
    # both ok, the ASTs differ
    if canon(m[1], False) == canon(g[1], False):
        return 'parseinfo-directive-ignored-by-generated-parser' if '@@parseinfo' in text else 'parseinfo-entries-differ'
    d = diff_keys(m[1], g[1], set())
    if ('value', 'args') in d or ('value', 'kw') in d:
        return 'rule-parameter-differs-in-generated-parser'
    ops, inside = set(), set()
    for kind, k in d:
        if kind == 'value':
            ops |= opmap.get('@' if k is None else k, set())
            inside |= opmap.get(('below', '@' if k is None else k), set())
    if inside & {'Override', 'OverrideList'}:
        # a name / override whose operand itself contains an override: in the model the inner `@:` binds the rule-wide override
        # key while the operand is still being parsed, generated code binds the node the operand left behind
        return 'override-nested-in-a-named-operand'
    if 'SkipTo' in ops and (inside | ops) & VALUELESS:
        # x:->&e, x:->(): skip-to of an expression without a value -- same family as x:() / x:&e
        return 'void-or-lookahead-value-differs'
    if ops & {'Group', 'Choice', 'Sequence'}:
        # the model binds the value of `()` and of `&e` as items of the group
        return 'void-or-lookahead-value-differs' if inside & {'Void', 'Lookahead'} else 'name-binds-last-node-of-group'
    if ops & ({'Optional'} | VALUELESS):
        return 'name-binds-stale-previous-node' if _none_on_model_side(m[1], g[1]) else 'void-or-lookahead-value-differs'
    if 'Call' in ops:
        # the differing value comes from a called rule: look at what that grammar binds anywhere
        everywhere = set().union(*(v for k, v in opmap.items() if isinstance(k, tuple) and k[0] == 'below'))
        if everywhere & {'Void', 'Lookahead'}:
            return 'void-or-lookahead-value-differs'
    if any(kind == 'missing' for kind, _k in d):
        missing = {k for kind, k in d if kind == 'missing' and k is not None}
        if ('missing', None) in d:
            missing |= set(m[1] if isinstance(m[1], dict) else g[1] if isinstance(g[1], dict) else ())
        if missing & opmap.get(('seqnames',), set()):
            return 'sequence-does-not-predefine-its-names'
        # an optional / an option that is not a sequence pre-defines its names in the model only
        return 'names-predefined-by-sequences-only'
    return f'ast-differs/{tail}'


def _none_on_model_side(a, b):
    """some differing leaf is None (or a list holding None) in the model result"""
    if isinstance(a, dict) and isinstance(b, dict):
        return any(_none_on_model_side(a[k], b[k]) for k in a if k in b and a[k] != b[k])
    if isinstance(a, list) and isinstance(b, list) and len(a) == len(b):
        return any(_none_on_model_side(x, y) for x, y in zip(a, b) if x != y)
    return a is None or (isinstance(a, list) and None in a)


def compare_grammar(label, text, plan, stats, failures, samples, budget_s=60):
    """plan: [(setting name, settings, inputs)] on one grammar text"""
    stats['grammars'] += 1
    try:
        model = tatsu.compile(text)
    except Exception as e:  # noqa: BLE001  -- not a grammar: nothing to compare
        stats['skipped_not_a_grammar'] += 1
        stats.setdefault('notes', []).append(f'{label}: tatsu.compile raises {type(e).__name__}: {str(e)[:80]}')
        return
    try:
        src, cls = load_generated(text)
    except SyntaxError as e:
        failures.append({'witness': {'grammar': text}, 'cls': 'generated-source-is-not-valid-python',
                         'detail': f'compile() of the generated source raises SyntaxError: {e}'})
        return
    except tatsu.exceptions.CodegenError as e:
        stats['skipped_codegen_refused'] += 1
        stats.setdefault('notes', []).append(f'{label}: generator refuses the grammar: {str(e)[:80]}')
        return
    except Exception as e:  # noqa: BLE001
        failures.append({'witness': {'grammar': text}, 'cls': f'generator-raises-{type(e).__name__}',
                         'detail': f'to_python_sourcecode / exec of the source raises {type(e).__name__}: {str(e)[:200]}'})
        return
    kinds, opmap = model_kinds(model.optimized())
    last_rule = model.rules[-1].name
    try:
        with time_limit(budget_s):
            for sname, sval, inputs in plan:
                accepted, rejected = 0, 0
                for inp in inputs:
                    s1, s2 = _settings(sval), None
                    if s1.get('start') == '__LAST__':
                        s1['start'] = last_rule
                    s2 = dict(s1)  # the SAME semantics object on both sides
                    m = outcome(lambda: model.parse(inp, **s1))
                    g = outcome(lambda: cls().parse(inp, **s2))
                    stats['cases'] += 1
                    if m[0] == 'ok' or g[0] == 'ok':
                        accepted += 1
                    else:
                        rejected += 1
                    if sname == 'parseinfo' and m[0] == 'ok' and has_pi(m[1]):
                        stats['parseinfo_seen'] += 1
                    if len(samples) < 4 and m[0] == 'ok' and m[1] not in (None, [], 'a'):
                        samples.append({'grammar': text, 'input': inp, 'settings': sname, 'both': m[1]})
                    if not same_outcome(m, g):
                        stats['disagreements'] += 1

                        def rerun(extra, s1=s1, inp=inp):
                            sa = {**s1, **extra}
                            return (outcome(lambda: model.parse(inp, **sa)), outcome(lambda: cls().parse(inp, **sa)))

                        cls_name = classify(text, src, kinds, opmap, inp, sval, m, g, rerun)
                        failures.append({
                            'witness': {'grammar': text, 'input': inp, 'settings': {k: repr(v) if k == 'semantics' else v
                                                                                   for k, v in sval.items()}},
                            'detail': f'model: {m!r}; generated parser: {g!r}', 'cls': cls_name})
                stats['nontrivial'] += accepted + (rejected if accepted else 0)
    except Hang:
        failures.append({'witness': {'grammar': text}, 'cls': 'parse-does-not-terminate',
                         'detail': f'the battery did not finish within {budget_s}s'})


def _new_stats():
    return {'grammars': 0, 'cases': 0, 'nontrivial': 0, 'disagreements': 0, 'skipped_not_a_grammar': 0,
            'skipped_codegen_refused': 0, 'parseinfo_seen': 0}


def _trim(failures, keep=int(os.environ.get('VERIF_KEEP', 6))):
    """keep the `keep` smallest witnesses per class (workers return little data)"""
    by = {}
    for f in failures:
        by.setdefault(f['cls'], []).append(f)
    out = []
    counts = {}
    for c, fs in by.items():
        fs.sort(key=lambda f: len(repr(f['witness'])))
        counts[c] = len(fs)
        out += fs[:keep]
    return out, counts


def _work(chunk):
    stats, failures, samples = _new_stats(), [], []
    for label, text, plan in chunk:
        compare_grammar(label, text, plan, stats, failures, samples)
    failures, counts = _trim(failures)
    return stats, failures, counts, samples[:2]


def _merge(results):
    stats, failures, counts, samples = _new_stats(), [], {}, []
    notes = []
    for st, fs, cn, sm in results:
        for k, v in st.items():
            if k == 'notes':
                notes += v
            else:
                stats[k] += v
        failures += fs
        for c, n in cn.items():
            counts[c] = counts.get(c, 0) + n
        samples += sm
    stats['notes'] = notes
    return stats, failures, counts, samples


def _items(name, stats, failures, counts, samples, *, domain, bound, exhaustive):
    its = bitem(PROP, name, function=FUNCTION, domain=domain, bound=bound, cases=stats['cases'],
                distinct_nontrivial=stats['nontrivial'], rule=RULE, exhaustive=exhaustive,
                samples=samples + [{'note': n} for n in stats.get('notes', [])[:3]], failures=failures)
    for it in its:
        it.extra['programs'] = stats['grammars']
        it.extra['disagreements_checked'] = stats['cases']
        it.extra['skipped_codegen_refused'] = stats['skipped_codegen_refused']
        it.extra['skipped_not_a_grammar'] = stats['skipped_not_a_grammar']
        c = it.id.rsplit('/', 1)[-1]
        if c in counts:
            it.extra['failing_cases'] = counts[c]
    return its


def run(tier='quick', seed=0, info=None):
    budget = Budget(60 if tier == 'quick' else 900)
    items, summary = [], []
    # 1. description grammars
    work = []
    long_ = {a: G.inputs(a, MAXLEN) for a in (ALPHA_DESC, ALPHA_CUT)}
    short = {a: G.inputs(a, MAXLEN if tier != 'quick' else MAXLEN - 1) for a in (ALPHA_DESC, ALPHA_CUT)}
    full = ('defaults', 'nameguard-off')  # these settings get the full battery also in the quick tier
    descs = description_grammars(tier, seed)
    for label, d, alpha in descs:
        text = S.to_text(d)
        plan = []
        for n, sv in SETTINGS:
            whole = n in full and (tier != 'quick' or label == 'desc' or (label == 'cut' and n == 'nameguard-off'))
            ins = long_[alpha] if whole else short[alpha]
            if label == 'cut':
                if n == 'whitespace-override':
                    sv = {'whitespace': '[ c]+'}
                if n == 'ignorecase':
                    ins = [i.replace('a', 'A') for i in ins]  # the letter 'a' is given in upper case
            plan.append((n, sv, ins))
        work.append((label, text, plan))
    t0 = time.time()
    res = _merge(pmap(_work, chunked(work, JOBS * 12)))
    kinds = G.kinds_covered([d for _l, d, _a in descs])
    items += _items('description-grammars', *res,
                    domain=f'{len(descs)} grammar descriptions rendered to text (seeded sample of grammars.single_rule(3), '
                           f'single_rule(4,core), two_rule(2,2), named_in_scopes(5,wide); the naming matrix: name / list name / '
                           f'override / list override x 24 operand kinds, alone and after a token; all {len(G.CUT_GRAMMARS)} '
                           f'CUT_GRAMMARS; node kinds covered: {len(kinds)}/{len(G.ALL_KINDS)}) x ALL {len(long_[ALPHA_DESC])} '
                           f'strings over {{a,b,A,blank}} (cut grammars: {{a,b,c,blank}}) of length <= {MAXLEN} x '
                           f'{len(SETTINGS)} parse-time settings ({", ".join(n for n, _ in SETTINGS)}); in the quick tier only the '
                           f'sampled grammars under {full} and the cut grammars under nameguard-off get the whole battery, the '
                           f'rest the {len(short[ALPHA_DESC])} strings of length <= {MAXLEN - 1}',
                    bound=f'input length <= {MAXLEN}; grammars <= 5 nodes per rule, <= 2 rules (cut grammars larger)',
                    exhaustive=False)
    summary.append(('description-grammars', res[0], time.time() - t0))
    # 2. text grammars
    t0 = time.time()
    work = [(name, text, [(n, sv, tuple(dict.fromkeys(ins + _COMMON_INPUTS))) for n, sv in TEXT_SETTINGS])
            for name, text, ins in TEXT_GRAMMARS]
    res = _merge(pmap(_work, chunked(work, JOBS * 2)))
    items += _items('text-grammars', *res,
                    domain=f'{len(TEXT_GRAMMARS)} hand-written grammar texts (directives @@whitespace @@nameguard @@namechars '
                           '@@ignorecase @@comments @@eol_comments @@keyword @@parseinfo @@left_recursion @@memoization '
                           '@@grammar; rule parameters and kwparams; @name @nomemo @nostak @override rules; upper-case rules; '
                           'python keywords / builtins / runtime identifiers as rule and element names; names and list names in '
                           'every scope; unmatched optionals; groups; joins, gathers, left/right joins; skip-to; lookaheads; '
                           'overrides; constants, alerts, includes, based rules, meta expressions, special characters in tokens '
                           f'and patterns) x hand-picked inputs x {len(TEXT_SETTINGS)} parse-time settings',
                    bound='hand-picked inputs (4-12 per grammar)', exhaustive=False)
    summary.append(('text-grammars', res[0], time.time() - t0))
    if info is not None:
        info.setdefault('bounded', []).append({'run': 'bC02', 'tier': tier, 'wall_s': round(budget.spent(), 1)})
    run.summary = summary
    return items


def print_summary(items, summary, wall):
    for name, st, w in summary:
        extra = {k: v for k, v in st.items() if k not in ('notes',)}
        print(f'  {name}: {extra} {w:.1f}s')
        for n in st.get('notes', [])[:8]:
            print(f'     note: {n}')
    for it in items:
        print(f'{it.status.upper():8s} {it.id}  cases={it.extra.get("cases")} nontrivial={it.extra.get("distinct_nontrivial")}'
              + (f' failing={it.extra.get("failing_cases")}' if it.status == 'refuted' else ''))
        if it.status == 'refuted':
            print(f'         witness: {json.dumps(it.witness, default=repr)[:400]}')
            print(f'         {it.detail[:400]}')
    print(f'{sum(1 for i in items if i.status == "refuted")} refuted classes, {wall:.1f}s')


def main(argv=None):
    argv = sys.argv[1:] if argv is None else argv
    tier = argv[0] if argv else 'quick'
    seed = int(argv[1]) if len(argv) > 1 else 0
    t0 = time.time()
    items = run(tier, seed, {})
    print_summary(items, run.summary, time.time() - t0)
    return 0


if __name__ == '__main__':
    sys.exit(main())
