"""C18 bounded stand-in: schedule-exhaustive run of the REAL parallel loop.

The loop under test is `executor_pmap`, a function local to `tatsu.parproc.pmap.active_pmap`.  The
real function object is taken from the closure of the public pmap function that `active_pmap()`
returns and is called unchanged with an injected executor class.  What the loop touches:

    executorcls(max_workers=..)   context manager -> fake executor (subclass of ProcessPoolExecutor for
                                  the windowed branch `issubclass(executorcls, ProcessPoolExecutor)`,
                                  plain Executor for the submit-everything branch)
    ex.submit(process, task)      -> future, completed by the deterministic scheduler
    as_completed(futures)         module global of tatsu.parproc.pmap
    future.result()

Two ways of driving `as_completed`, both deterministic and single threaded:

  mode 'model'  the module global `as_completed` is replaced (for the duration of a run) by a model of
                its contract: snapshot of the argument at the first next(), then every element of the
                snapshot exactly once, in an order the adversary picks (any order is realisable:
                futures finished before the snapshot come out in set order).  ALL orders enumerated.
  mode 'real'   the REAL `concurrent.futures.as_completed` on REAL `concurrent.futures.Future`
                objects.  The only hook: the waiter's `threading.Event` is replaced by an object whose
                `wait()` - the point where the real thread would block - asks the scheduler to let
                running tasks complete (which ones: enumerated, respecting `max_workers` FIFO workers).
                Further completion points: during every `submit` and between two results.

The `process` function is the real `taskproc` on real `Task` tuples; the sequential reference is what
`parproc(parallel=False)` does (`map(taskproc, tasks)`), and `parproc` itself is called for a few
payload lists (it starts a multiprocessing.Manager per call, so not per schedule).
"""
from __future__ import annotations

import random
import sys
import threading
import time
from collections import Counter
from concurrent.futures import Executor, Future, ProcessPoolExecutor, ThreadPoolExecutor
from dataclasses import dataclass
from pathlib import Path

from bounded.common import JOBS, Budget, bitem, chunked, pmap

PROP = 'C18'
KINDS = ('val', 'key', 'typ', 'int')  # raising payload i uses KINDS[i % 4]; 'int': InterruptedError, an ordinary OSError a function may raise


# ------------------------------------------------------------------------------------------------
# payloads / work function (module level: picklable for the real process pool sample)

@dataclass(frozen=True)
class Pay:
    """implements the payload protocol of tatsu/parproc/payload.py (path, payload, raises())"""
    key: int
    mode: str = 'ok'
    delay: float = 0.0

    @property
    def path(self):
        return Path(f'p{self.key}')

    @property
    def payload(self):
        return self.key

    def raises(self):
        # 'key' payloads declare the family of the exception they raise (captured when matching)
        return (LookupError,) if self.mode == 'key' else ()


class CustomError(Exception):
    pass


def work(p, *args, **kwargs):
    if p.delay:
        time.sleep(p.delay)
    if p.mode == 'ok':
        return ('out', p.key * 7 + 1)
    if p.mode == 'val':
        raise ValueError(f'boom {p.key}')
    if p.mode == 'key':
        raise KeyError(p.key)
    if p.mode == 'typ':
        raise TypeError(f'bad {p.key}')
    if p.mode == 'rec':
        raise RecursionError('maximum recursion depth exceeded')
    if p.mode == 'int':
        raise InterruptedError(4, f'eintr {p.key}')
    if p.mode == 'kbi':
        raise KeyboardInterrupt()
    raise AssertionError(p.mode)


def expected(p):
    """(key, outcome, exception type name, exception args) the contract asks for"""
    if p.mode == 'ok':
        return (p.key, ('out', p.key * 7 + 1), None, None)
    name, args = {'val': ('ValueError', (f'boom {p.key}',)), 'key': ('KeyError', (p.key,)),
                  'typ': ('TypeError', (f'bad {p.key}',)), 'int': ('InterruptedError', (4, f'eintr {p.key}')),
                  'rec': ('RecursionError', ('maximum recursion depth exceeded',))}[p.mode]
    return (p.key, None, name, args)


def canon(r):
    e = r.exception
    return (getattr(r.payload, 'key', r.payload), r.outcome, type(e).__name__ if e is not None else None,
            tuple(e.args) if e is not None else None)


def payloads_for(n, mask, delays=None):
    return [Pay(i, KINDS[i % 4] if (mask >> i) & 1 else 'ok', (delays[i] if delays else 0.0)) for i in range(n)]


# ------------------------------------------------------------------------------------------------
# reaching the real loop

def real_loop():
    from tatsu.parproc.pmap import active_pmap
    f = active_pmap()
    cells = dict(zip(f.__code__.co_freevars, f.__closure__))
    ep = cells['executor_pmap'].cell_contents
    assert ep.__name__ == 'executor_pmap' and ep.__module__ == 'tatsu.parproc.pmap'
    return ep


def make_tasks(payloads, stop, reraise=False):
    from tatsu.parproc.task import Task
    from tatsu.util import identity
    return [Task(stop=stop, func=work, payload=p, pickable=identity, reraise=reraise, args=(), kwargs={})
            for p in payloads]


# ------------------------------------------------------------------------------------------------
# deterministic scheduler, fake executors, as_completed drivers

class Deadlock(Exception):
    pass


class Ctx:
    """k FIFO workers; tasks start in submission order, complete when the adversary says so"""
    current = None

    def __init__(self, k, choose, mode):
        self.k = k
        self.choose = choose
        self.mode = mode
        self.queue = []
        self.running = []
        self.entries = []
        self.calls = Counter()
        self.max_inflight = 0
        self.executors = 0
        self.shutdowns = []
        self.snapshots = []
        self.completion_order = []
        self.submit_after_shutdown = 0

    # pool
    def submit(self, fn, args, kwargs):
        fut = HookFuture() if self.mode == 'real' else Future()
        ent = (fut, fn, args, kwargs)
        self.entries.append(ent)
        self.queue.append(ent)
        self._start()
        self.max_inflight = max(self.max_inflight, len(self.queue) + len(self.running))
        if self.mode == 'real':
            self.maybe_complete()
        return fut

    def _start(self):
        while self.queue and len(self.running) < self.k:
            self.running.append(self.queue.pop(0))

    def complete(self, ent):
        self.running.remove(ent)
        fut, fn, args, kwargs = ent
        task = args[0]
        self.calls[task.payload.key] += 1
        self.completion_order.append(task.payload.key)
        try:
            res = fn(*args, **kwargs)
        except Exception as e:  # what a pool worker does: the exception is stored in the future
            fut.set_exception(e)
        else:
            fut.set_result(res)
        self._start()

    def ensure_complete(self, fut):
        # model mode: let the FIFO workers run until `fut` is done (the tasks that have to finish first
        # so that a worker becomes free are the earliest running ones)
        while not fut.done():
            ent = next((e for e in self.running if e[0] is fut), None)
            if ent is None:
                if not self.running:
                    raise Deadlock('future was never submitted to this executor')
                ent = self.running[0]
            self.complete(ent)

    def drain(self):
        while self.running:
            self.complete(self.running[0])

    # real mode: adversarial completion points
    def maybe_complete(self):
        while self.running and self.choose(2):
            self.complete(self.running[self.choose(len(self.running))])

    def on_block(self):
        if not self.running:
            raise Deadlock('as_completed blocks for ever: nothing is running, a pending future cannot complete')
        self.complete(self.running[self.choose(len(self.running))])
        self.maybe_complete()


class _SchedEvent:
    """stands in for the waiter's threading.Event: wait() is where the consumer thread would block"""

    def __init__(self, ctx):
        self.ctx = ctx
        self.flag = False

    def set(self):
        self.flag = True

    def clear(self):
        self.flag = False

    def is_set(self):
        return self.flag

    def wait(self, timeout=None):
        while not self.flag:
            self.ctx.on_block()
        return True


class _WaiterList(list):
    def append(self, waiter):
        if not isinstance(getattr(waiter, 'event', None), _SchedEvent):
            waiter.event = _SchedEvent(Ctx.current)
        super().append(waiter)


class HookFuture(Future):
    def __init__(self):
        super().__init__()
        self._waiters = _WaiterList()


class _FakeBase:
    def __init__(self, max_workers=None, **kwargs):
        self.ctx = Ctx.current
        self.ctx.executors += 1
        self.ctx.asked_workers = max_workers
        self.closed = False

    def submit(self, fn, /, *args, **kwargs):
        if self.closed:
            self.ctx.submit_after_shutdown += 1
            raise RuntimeError('cannot schedule new futures after shutdown')
        return self.ctx.submit(fn, args, kwargs)

    def shutdown(self, wait=True, *, cancel_futures=False):
        self.closed = True
        self.ctx.shutdowns.append((wait, cancel_futures))
        if wait and not cancel_futures:
            self.ctx.drain()


class FakeWindowed(_FakeBase, ProcessPoolExecutor):
    """is-a ProcessPoolExecutor for the loop's issubclass test: bounded submission window + refill"""


class FakeAllAtOnce(_FakeBase, Executor):
    """any other executor class: the loop submits every task up front"""


def model_as_completed(fs, timeout=None):
    ctx = Ctx.current
    snap = list(dict.fromkeys(fs))
    ctx.snapshots.append(len(snap))
    pending = list(snap)
    while pending:
        f = pending.pop(ctx.choose(len(pending)))
        ctx.ensure_complete(f)
        yield f


def run_schedule(ep, branch, mode, n, k, mask, choose, special=None):
    """one run of the real loop under one schedule; returns (failures, info)"""
    stop = threading.Event()
    pays = payloads_for(n, mask)
    if special:
        pays = [Pay(p.key, special.get(p.key, p.mode)) for p in pays]
    tasks = make_tasks(pays, stop)
    from tatsu.parproc.task import taskproc
    ctx = Ctx(k, choose, mode)
    Ctx.current = ctx
    cls = FakeWindowed if branch == 'window' else FakeAllAtOnce
    g = ep.__globals__
    saved = g['as_completed']
    if mode == 'model':
        g['as_completed'] = model_as_completed
    out, err = [], None
    try:
        try:
            for r in ep(cls, stop, taskproc, tasks, max_workers=k):
                out.append(r)
                if len(out) > 2 * n + 2:  # runaway generator: stop the run, reported as duplication below
                    break
                if mode == 'real':
                    ctx.maybe_complete()
        finally:
            g['as_completed'] = saved
            Ctx.current = None
    except Deadlock as e:
        err = ('blocked', str(e))
    except Exception as e:
        err = ('raised', f'{type(e).__name__}: {e}')
    # sequential reference: what parproc(parallel=False) does
    seq_err = None
    try:
        seq = [canon(r) for r in map(taskproc, make_tasks(pays, threading.Event()))]
    except Exception as e:
        seq, seq_err = [], f'{type(e).__name__}: {e}'
    got = [canon(r) for r in out if hasattr(r, 'payload')]
    fails = []
    want = [expected(p) for p in pays]

    def fail(cls_, detail):
        fails.append((cls_, detail))

    if err and err[0] == 'blocked':
        fail('loop-blocked', err[1])
    elif err:
        fail('exception-escapes-loop', f'the loop raised {err[1]} although every exception was to be captured; '
             f'results yielded before: {got}')
    cnt = Counter(x[0] for x in got)
    missing = [p.key for p in pays if cnt[p.key] == 0]
    dup = [key for key, c in cnt.items() if c > 1]
    if missing and not err:
        fail('result-dropped', f'no result for payload(s) {missing}; yielded {got}')
    if dup:
        fail('result-duplicated', f'payload(s) {dup} yielded more than once; yielded {got}')
    if len(got) != len(out):
        fail('non-result-yielded', f'yielded objects without payload: {[type(r).__name__ for r in out]}')
    if not missing and not dup and sorted(got, key=repr) != sorted(want, key=repr):
        fail('wrong-result', f'expected {sorted(want, key=repr)} got {sorted(got, key=repr)}')
    if not seq_err and not err and Counter(got) != Counter(seq):
        fail('differs-from-sequential', f'sequential mode gives {sorted(seq, key=repr)}, parallel gives {sorted(got, key=repr)}')
    if seq_err and not err:
        fail('sequential-raises', seq_err)
    twice = [key for key, c in ctx.calls.items() if c > 1]
    if twice:
        fail('task-run-twice', f'payload(s) {twice} were submitted/run more than once')
    if n and not err and ctx.executors != 1:
        fail('executor-count', f'{ctx.executors} executors created')
    if n and not ctx.shutdowns:
        fail('executor-not-shut-down', 'the with-block did not shut the executor down')
    info = dict(yield_order=[x[0] for x in got], completion_order=ctx.completion_order, snapshots=ctx.snapshots,
                max_inflight=ctx.max_inflight)
    return fails, info


def explore(run):
    """stateless depth-first enumeration of every sequence of adversary choices"""
    script = []
    while True:
        trace = []

        def choose(nopt):
            i = len(trace)
            c = script[i] if i < len(script) else 0
            trace.append((c, nopt))
            return c

        yield run(choose), [c for c, _ in trace]
        while trace and trace[-1][0] + 1 >= trace[-1][1]:
            trace.pop()
        if not trace:
            return
        script = [c for c, _ in trace[:-1]] + [trace[-1][0] + 1]


def unit(u):
    """all schedules of one (branch, mode, n, workers, raising subset)"""
    branch, mode, n, k, mask = u
    ep = real_loop()
    cases = 0
    fails = []
    orders = set()
    sample = None
    truncated = False
    for (fs, info), script in explore(lambda ch: run_schedule(ep, branch, mode, n, k, mask, ch)):
        cases += 1
        orders.add((tuple(info['yield_order']), tuple(info['completion_order']), tuple(info['snapshots'])) if mode == 'real'
                   else tuple(info['yield_order']))
        if sample is None or (len(set(script)) > 1 and len(script) > len(sample['schedule'])):
            sample = dict(branch=branch, mode=mode, payloads=n, workers=k, raising=[i for i in range(n) if mask >> i & 1],
                          schedule=script, **info)
        for cls_, detail in fs:
            fails.append(dict(cls=cls_, detail=detail,
                              witness=dict(branch=branch, as_completed=mode, payloads=n, max_workers=k,
                                           raising=[i for i in range(n) if mask >> i & 1], schedule=script,
                                           yielded=info['yield_order'])))
        if len(fails) >= 60:
            # already refuted: a loop that loses track of its futures makes the choice tree explode, do not walk all of it
            truncated = True
            break
    # keep the smallest witness per class only
    best = {}
    for f in fails:
        b = best.get(f['cls'])
        if b is None or len(repr(f['witness'])) < len(repr(b['witness'])):
            best[f['cls']] = f
    nfail = Counter(f['cls'] for f in fails)
    return dict(unit=u, cases=cases, orders=len(orders), fails=list(best.values()), nfail=dict(nfail), sample=sample, truncated=truncated)


def run_units(chunk):
    return [unit(u) for u in chunk]


def rep_masks(n):
    # representative raising subsets for the one size beyond the all-subsets bound
    return sorted({0, (1 << n) - 1, sum(1 << i for i in range(0, n, 2)), 1 << (n // 2)})


def units_for(mode, nmax, extra_n=None, kmax=3):
    us = []
    for branch in ('window', 'all'):
        for n in list(range(0, nmax + 1)) + ([extra_n] if extra_n else []):
            for k in range(1, kmax + 1):
                for mask in (range(1 << n) if n <= nmax else rep_masks(n)):
                    us.append((branch, mode, n, k, mask))
    return us


def exhaustive_items(mode, nmax, name, extra_n=None):
    us = units_for(mode, nmax, extra_n)
    us.sort(key=lambda u: -u[2])
    # big units first, round-robin over the workers
    chunks = [us[i::JOBS * 4] for i in range(JOBS * 4)]
    res = [r for rs in pmap(run_units, [c for c in chunks if c]) for r in rs]
    cases = sum(r['cases'] for r in res)
    # distinct non trivial: >= 2 payloads; in the submit-everything branch the worker count does not reach
    # the loop's control flow in model mode (same snapshot, same orders), so it is counted for k=1 only
    distinct = sum(r['orders'] for r in res
                   if r['unit'][2] >= 2 and (mode == 'real' or r['unit'][0] == 'window' or r['unit'][3] == 1))
    fails = [f for r in res for f in r['fails']]
    samples = [r['sample'] for r in sorted(res, key=lambda r: -r['cases'])[:3] if r['sample']]
    what = ('model of as_completed (snapshot, each element once, adversary picks the order): every order of every snapshot'
            if mode == 'model' else
            'REAL concurrent.futures.as_completed + Future; completions (which running task, how many at once) '
            'enumerated at every submit, at every point where the consumer would block, and between results')
    return bitem(PROP, name, function='tatsu/parproc/pmap.py:active_pmap.<locals>.executor_pmap (real object from the closure) + task.py:taskproc',
                 domain=f'payload lists of length 0..{extra_n or nmax}, max_workers 1..3, both loop branches (windowed refill: executor class is-a '
                        f'ProcessPoolExecutor; submit-everything: any other), every subset of payloads raising a captured exception '
                        f'(ValueError / KeyError matching raises() / TypeError by position), {what}',
                 bound=f'n<={nmax} payloads (every raising subset)'
                       + (f' and n={extra_n} with the raising subsets none / all / alternating / one in the middle' if extra_n else '')
                       + f', workers<=3, {len(us)} (branch, n, workers, raising subset) units, all schedules of each',
                 cases=cases, distinct_nontrivial=distinct,
                 rule='one case = one complete run of the real loop under one schedule, checked for: one result per payload, none '
                      'twice, outcome or captured exception as the function produced it, multiset equal to map(taskproc, tasks), '
                      'each task run once, loop terminates without raising. distinct = distinct (branch, n, workers, raising '
                      'subset, yield order' + (', completion order, snapshot sizes' if mode == 'real' else '') + ') with n>=2'
                      + ('' if mode == 'real' else '; submit-everything branch counted once, not per worker count'),
                 exhaustive=not any(r['truncated'] for r in res), samples=samples, failures=fails,
                 note=f'schedule-exhaustive run of the real executor_pmap, as_completed: {mode}')


# ------------------------------------------------------------------------------------------------
# taskproc: which exceptions are captured

def taskproc_items():
    from tatsu.parproc.task import Task, taskproc
    from tatsu.util import identity

    class P:
        def __init__(self, rs):
            self.rs = rs
            self.path = Path('p')
            self.payload = 0
            self.key = 0

        def raises(self):
            return self.rs

    excs = [ValueError('v'), KeyError('k'), TypeError('t'), OSError(2, 'o'), ZeroDivisionError('z'), AssertionError('a'),
            StopIteration('s'), CustomError('c'), UnicodeDecodeError('utf-8', b'\xff', 0, 1, 'u'),
            RecursionError('maximum recursion depth exceeded')]
    cases = 0
    fails = []
    samples = []
    for e in excs:
        for reraise in (False, True):
            for rs_name, rs in (('()', ()), ('matching', (type(e),)), ('base', (Exception,)), ('other', (FloatingPointError,))):
                def f(p, _e=e):
                    raise _e
                task = Task(stop=threading.Event(), func=f, payload=P(rs), pickable=identity, reraise=reraise, args=(), kwargs={})
                capture = (not reraise) and (not rs or any(isinstance(e, r) for r in rs))
                lim = sys.getrecursionlimit()
                cases += 1
                try:
                    r = taskproc(task)
                    got = ('returned', r.exception, r.outcome)
                except BaseException as x:  # noqa: BLE001
                    got = ('raised', x, None)
                w = dict(exception=type(e).__name__, reraise=reraise, raises=rs_name)
                if sys.getrecursionlimit() != lim:
                    fails.append(dict(cls='recursion-limit-not-restored', witness=w, detail=f'{lim} -> {sys.getrecursionlimit()}'))
                    sys.setrecursionlimit(lim)
                if capture and not (got[0] == 'returned' and got[1] is e and got[2] is None):
                    cls_ = 'recursionerror-not-captured' if isinstance(e, RecursionError) else 'exception-not-captured'
                    fails.append(dict(cls=cls_, witness=w,
                                      detail=f'reraise=False and raises()={rs_name}: the Result should carry the exception, but taskproc '
                                             f'{got[0]} {got[1]!r}; in the pool this aborts the loop at future.result()'))
                if not capture and not (got[0] == 'raised' and got[1] is e):
                    fails.append(dict(cls='exception-swallowed', witness=w, detail=f'should propagate, got {got[0]} {got[1]!r}'))
                if len(samples) < 3:
                    samples.append(dict(w, captured=capture, got=got[0]))
    ok = Task(stop=threading.Event(), func=lambda p: 41, payload=P(()), pickable=identity, reraise=False, args=(), kwargs={})
    r = taskproc(ok)
    cases += 1
    if not (r.outcome == 41 and r.exception is None and r.payload is ok.payload):
        fails.append(dict(cls='wrong-result', witness='ok', detail=repr(r)))
    return bitem(PROP, 'taskproc-capture', function='tatsu/parproc/task.py:taskproc',
                 domain='10 exception classes x reraise in {False, True} x raises() in {(), (its class,), (Exception,), (unrelated,)}; '
                        'captured iff not reraise and (raises() empty or matching). Plain RuntimeError is left out of the domain: '
                        'taskproc re-raises it through an explicit `except RuntimeError: raise` clause (taken as intended), '
                        'RecursionError is in: the capture clause names it',
                 bound='finite table', cases=cases, distinct_nontrivial=cases - 1,
                 rule='one case per (exception class, reraise, raises()) combination', exhaustive=True, samples=samples, failures=fails)


def loop_recursion_item():
    """loop-level consequence of an uncaptured RecursionError: the other payloads' results"""
    ep = real_loop()
    fails = []
    cases = 0
    samples = []
    for branch in ('window', 'all'):
        for n in (2, 3):
            for bad in range(n):
                for (fs, info), script in explore(lambda ch: run_schedule(ep, branch, 'model', n, 2, 0, ch, special={bad: 'rec'})):
                    cases += 1
                    for cls_, detail in fs:
                        if cls_ in ('exception-escapes-loop', 'sequential-raises'):
                            cls_ = 'recursionerror-not-captured'
                        fails.append(dict(cls=cls_, detail=detail, witness=dict(branch=branch, payloads=n, recursion_error_in=bad,
                                                                                 max_workers=2, schedule=script, yielded=info['yield_order'])))
                    if len(samples) < 2:
                        samples.append(dict(branch=branch, payloads=n, recursion_error_in=bad, **info))
    return bitem(PROP, 'loop-recursionerror', function='executor_pmap + taskproc',
                 domain='2..3 payloads, one raising RecursionError (reraise=False, raises() empty), 2 workers, both branches, all orders',
                 bound='n<=3', cases=cases, distinct_nontrivial=cases, rule='one case per (branch, n, failing index, order)', exhaustive=True,
                 samples=samples, failures=fails)


# ------------------------------------------------------------------------------------------------
# sampled: real pools

class ThreadsBehindProcessFace(ProcessPoolExecutor):
    """real worker threads, but is-a ProcessPoolExecutor, so the loop takes its windowed/refill branch"""

    def __init__(self, max_workers=None, **kwargs):
        self._inner = ThreadPoolExecutor(max_workers=max_workers)

    def submit(self, fn, /, *args, **kwargs):
        return self._inner.submit(fn, *args, **kwargs)

    def shutdown(self, wait=True, *, cancel_futures=False):
        self._inner.shutdown(wait=wait, cancel_futures=cancel_futures)


def picked(outcome):
    """a non-identity `pickable=`: what crosses the process boundary is a summary of the outcome (module level: picklable)"""
    return ('picked', outcome)


def check_results(pays, out, err):
    fails = []
    got = [canon(r) for r in out]
    want = [expected(p) for p in pays]
    if err:
        fails.append(('exception-escapes-loop', err))
    elif Counter(got) != Counter(want):
        cnt = Counter(x[0] for x in got)
        if any(cnt[p.key] == 0 for p in pays):
            fails.append(('result-dropped', f'missing {[p.key for p in pays if cnt[p.key] == 0]}'))
        elif any(c > 1 for c in cnt.values()):
            fails.append(('result-duplicated', f'{[k for k, c in cnt.items() if c > 1]}'))
        else:
            fails.append(('wrong-result', f'expected {want} got {got}'))
    return fails


def thread_samples(chunk):
    from tatsu.parproc.task import taskproc
    ep = real_loop()
    res = []
    blocked = 0
    for (cls_name, n, k, mask, dseed) in chunk:
        rng = random.Random(dseed)
        delays = [rng.choice((0.0, 0.0005, 0.001, 0.002, 0.004)) for _ in range(n)]
        pays = payloads_for(n, mask, delays)
        stop = threading.Event()
        tasks = make_tasks(pays, stop)
        cls = ThreadPoolExecutor if cls_name == 'thread' else ThreadsBehindProcessFace
        out, err = [], None
        done = threading.Event()

        def body():
            nonlocal err
            try:
                for r in ep(cls, stop, taskproc, tasks, max_workers=k):
                    out.append(r)
                    if rng.random() < 0.3:
                        time.sleep(0.001)  # a slow consumer: completions pile up between results
            except Exception as e:
                err = f'{type(e).__name__}: {e}'
            finally:
                done.set()
        t = threading.Thread(target=body, daemon=True)
        t.start()
        if not done.wait(20):
            res.append((('loop-blocked', 'no termination within 20 s'), (cls_name, n, k, mask, dseed), []))
            stop.set()
            blocked += 1
            if blocked >= 2:  # refuted already; every further blocked sample costs the full timeout
                break
            continue
        fs = check_results(pays, out, err)
        res.append((fs[0] if fs else None, (cls_name, n, k, mask, dseed), [canon(r)[0] for r in out]))
    return res


def thread_pool_item(tier, seed):
    rng = random.Random(seed * 7919 + 18)
    count = 160 if tier == 'quick' else 1600
    nmax = 8 if tier == 'quick' else 12
    cases_in = []
    for i in range(count):
        n = rng.randint(0, nmax)
        cases_in.append((('thread', 'thread-as-process')[i % 2], n, rng.randint(1, 3), rng.getrandbits(n) if n else 0,
                         rng.getrandbits(30)))
    res = [r for rs in pmap(thread_samples, chunked(cases_in, 16)) for r in rs]
    fails = [dict(cls=f[0], detail=f[1], witness=dict(executor=c[0], payloads=c[1], max_workers=c[2],
                                                       raising=[i for i in range(c[1]) if c[3] >> i & 1], delay_seed=c[4], yielded=y))
             for f, c, y in res if f]
    orders = {(c[0], c[1], c[2], c[3], tuple(y)) for f, c, y in res if c[1] >= 2}
    return bitem(PROP, 'real-thread-pools', function='executor_pmap with concurrent.futures.ThreadPoolExecutor (real threads, real as_completed)',
                 domain=f'{count} random (n<= {nmax} payloads, workers 1..3, raising subset, per-task sleeps 0..4 ms, sometimes slow consumer); '
                        'half with ThreadPoolExecutor itself (submit-everything branch), half with real threads behind a ProcessPoolExecutor '
                        'subclass (windowed refill branch)',
                 bound=f'{count} samples, seed {seed}', cases=len(res), distinct_nontrivial=len(orders),
                 rule='distinct (executor, n, workers, raising subset, observed yield order) with n>=2', exhaustive=False,
                 samples=[dict(executor=c[0], payloads=c[1], workers=c[2], yielded=y) for f, c, y in res[:3]], failures=fails,
                 note='sampled: real OS scheduling is not enumerable')


def public_api_item(tier, seed):
    """the public parproc(): shortcuts (0 / 1 payload), sequential mode equals the reference used above,
    and (thorough only) real process pools"""
    from tatsu.parproc import parproc
    rng = random.Random(seed + 1818)
    fails = []
    cases = 0
    samples = []
    plan = [(0, 0, True, None), (1, 0, True, None), (1, 1, True, None), (3, 0b010, False, None), (4, 0b1011, False, None)]
    if tier != 'quick':
        for _ in range(14):
            n = rng.randint(2, 7)
            plan.append((n, rng.getrandbits(n), True, rng.randint(1, 3)))
    # a run that the user interrupts (KeyboardInterrupt out of the function, the caller survives it) must not affect the next run
    try:
        list(parproc(work, [Pay(0), Pay(1, 'kbi'), Pay(2)], parallel=False))
        fails.append(dict(cls='keyboard-interrupt-swallowed', detail='KeyboardInterrupt raised by the function did not reach the caller',
                          witness=dict(api='parproc', payloads=3, parallel=False)))
    except KeyboardInterrupt:
        pass
    for n, mask, parallel, k in plan:
        pays = payloads_for(n, mask, [rng.choice((0.0, 0.001, 0.003)) for _ in range(n)] if k else None)
        out, err = [], None
        try:
            out = list(parproc(work, pays, parallel=parallel, max_workers=k))
        except Exception as e:
            err = f'{type(e).__name__}: {e}'
        cases += 1
        for cls_, detail in check_results(pays, out, err):
            fails.append(dict(cls=cls_, detail=detail, witness=dict(api='parproc', payloads=n, raising=[i for i in range(n) if mask >> i & 1],
                                                                    parallel=parallel, max_workers=k)))
        # the same call with a `pickable=` that is not the identity: every mode (shortcut, sequential, parallel) hands out the
        # transformed outcome, so the modes keep yielding the same multiset of results
        if not k:
            out2, err2 = [], None
            try:
                out2 = list(parproc(work, pays, parallel=parallel, max_workers=k, pickable=picked))
            except Exception as e:
                err2 = f'{type(e).__name__}: {e}'
            cases += 1
            got2 = Counter((canon(r)[0], r.outcome) for r in out2)
            want2 = Counter((expected(p)[0], picked(expected(p)[1])) for p in pays)
            if err2 or got2 != want2:
                fails.append(dict(cls='pickable-not-applied-to-every-outcome', detail=err2 or f'expected outcomes {sorted(want2, key=repr)} got {sorted(got2, key=repr)}',
                                  witness=dict(api='parproc', payloads=n, raising=[i for i in range(n) if mask >> i & 1], parallel=parallel, pickable='lambda o: ("picked", o)')))
        samples.append(dict(payloads=n, parallel=parallel, max_workers=k, yielded=[canon(r)[0] for r in out]))
    return bitem(PROP, 'public-parproc', function='tatsu/parproc/parproc.py:parproc (public API)',
                 domain='after a run interrupted by KeyboardInterrupt in the same process: 0 and 1 payload shortcuts, sequential mode on 3..4 payloads with raising subsets'
                        + ('' if tier == 'quick' else '; 14 random runs with the real ProcessPoolExecutor (2..7 payloads, 1..3 workers)'),
                 bound=f'{len(plan)} calls (each starts a multiprocessing.Manager)', cases=cases, distinct_nontrivial=max(0, cases - 3),
                 rule='one case per call; 0/1-payload calls counted trivial', exhaustive=False, samples=samples, failures=fails,
                 note='real process pools: sampled, thorough tier only')


# ------------------------------------------------------------------------------------------------

def run(tier, seed, info):
    t0 = Budget(90 if tier == 'quick' else 900)
    quick = tier == 'quick'
    items = []
    try:
        real_loop()
    except Exception as e:  # the loop is no longer where this driver looks for it: say so, do not guess
        from vlib.runner import Item
        return [Item(id=f'{PROP}/B:schedules-model', kind='B', status='undecided', function='tatsu/parproc/pmap.py:executor_pmap',
                     note='bounded: cannot reach executor_pmap through the closure of active_pmap()',
                     detail=f'{type(e).__name__}: {e}', extra=dict(cases=0, distinct_nontrivial=0, exhaustive=False))]
    items += exhaustive_items('model', 5 if quick else 6, 'schedules-model')
    items += exhaustive_items('real', 3 if quick else 4, 'schedules-real-as-completed', extra_n=4 if quick else 5)
    items += taskproc_items()
    items += loop_recursion_item()
    items += thread_pool_item(tier, seed)
    items += public_api_item(tier, seed)
    if isinstance(info, dict):
        info.setdefault('assumptions', set()).add(
            'C18 bounded: executor stub = k FIFO workers whose tasks always terminate; real OS scheduling sampled only')
        info.setdefault('samples', []).append({'C18_wall_s': round(t0.spent(), 1)})
    return items


def main(argv=None):
    argv = argv or sys.argv[1:]
    tier = argv[0] if argv else 'quick'
    seed = int(argv[1]) if len(argv) > 1 else 0
    t = time.time()
    items = run(tier, seed, {})
    for it in items:
        print(f'{it.status:8} {it.id}  cases={it.extra.get("cases")} distinct={it.extra.get("distinct_nontrivial")} '
              f'exhaustive={it.extra.get("exhaustive")}')
        print(f'         bound: {it.extra.get("bound")}')
        if it.status == 'refuted':
            print(f'         witness: {it.witness}\n         detail: {it.detail[:400]}\n         failing cases: {it.extra.get("failing_cases")}')
    bad = [i for i in items if i.status != 'clean']
    print(f'C18 bounded [{tier}]: {len(items)} items, {len(bad)} refuted, {sum({i.id.split("/")[1]: i.extra.get("cases", 0) for i in items}.values())} cases, {time.time() - t:.1f}s')
    return 1 if bad else 0


if __name__ == '__main__':
    sys.exit(main())
