"""C08 (bounded, API level): whatever the input, a parse ends, and it ends with a value or with a TatSu parse error
whose position lies inside the text.

    PYTHONPATH=/verif /verif/.venv/bin/python -m bounded.bC08 quick|thorough [seed]

Two runs (labelled bounded, never counted as proved):

(a) `repetitions-end`: every repetition form (closure, positive closure, join, gather and their positive forms) over
    elements and separators that can match the empty string ('a', ['a'], {'a'}, (), 'a'|(), /a*/) x ALL inputs up to
    the bound over {a , ' '}: each parse runs under a watchdog; the outcome is a value or a FailedParse with
    0 <= pos <= len(text) whose message renders (str(e)).  A parse that does not end within the watchdog limit is a `hang`.
(b) `meta-matchers`: the meta expressions @int @uint @float @bool @name, alone, behind optional text, as options of a
    choice and as closure elements x ALL inputs up to the bound over a digit, a non-ASCII decimal, '.', 'e', '-', '_',
    't' and a blank: the outcome is a value or a FailedParse (never ValueError or another python exception), the value has
    the python type the meta expression promises, and it equals what the converter gives for the matched text.
"""
from __future__ import annotations

import itertools
import signal
import sys
import time

import tatsu  # noqa: F401
import tatsu.exceptions

from bounded.common import bitem, chunked, pmap

PROP = 'C08'
WATCHDOG_S = 3  # seconds of CPU time


class _Hang(Exception):
    pass


def _alarm(_sig, _frm):
    raise _Hang()


def guarded_parse(model, text, **kw):
    """('ok', value) | ('fail', exc) | ('hang', None) | ('error', exc)"""
    old = signal.signal(signal.SIGVTALRM, _alarm)
    signal.setitimer(signal.ITIMER_VIRTUAL, WATCHDOG_S)  # CPU time of this process: a busy machine cannot make a parse look hung
    try:
        try:
            return 'ok', model.parse(text, **kw)
        finally:
            signal.setitimer(signal.ITIMER_VIRTUAL, 0)
    except _Hang:
        return 'hang', None
    except tatsu.exceptions.FailedParse as e:
        return 'fail', e
    except RecursionError as e:
        return 'error', e
    except BaseException as e:  # noqa: BLE001
        return 'error', e
    finally:
        signal.signal(signal.SIGVTALRM, old)


ELEMS = ("'a'", "['a']", "{'a'}", '()', "('a' | ())", '/a*/', "'a' ['a']")
SEPS = ("','", "([','])", '(())', "({','})", '/,?/')


def repetition_grammars():
    out = []
    for e in ELEMS:
        out.append(('closure', f'start = {{ {e} }} $ ;'))
        out.append(('positive-closure', f'start = {{ {e} }}+ $ ;'))
        for s in SEPS:
            for name, op, plus in (('join', '%', ''), ('positive-join', '%', '+'), ('gather', '.', ''), ('positive-gather', '.', '+')):
                out.append((name, f'start = {s}{op}{{ {e} }}{plus} $ ;'))
    # nested: a repetition whose element is itself a repetition that may match nothing
    out.append(('nested', "start = { {'a'} ',' } $ ;"))
    out.append(('nested', "start = ','.{ {'a'} } $ ;"))
    out.append(('nested', "start = { ['a'] [','] }+ $ ;"))
    return out


def inputs(alphabet, n):
    out = ['']
    for k in range(1, n + 1):
        out += [''.join(p) for p in itertools.product(alphabet, repeat=k)]
    return out


def _position_ok(e, text):
    pos = getattr(e, 'pos', None)
    return isinstance(pos, int) and 0 <= pos <= len(text)


def _renders(e):
    """the error can be shown to the user: str(e) is the message with the source excerpt"""
    try:
        return isinstance(str(e), str), ''
    except Exception as x:  # noqa: BLE001
        return False, f'{type(x).__name__}: {x}'


def _rep_work(chunk):
    stats = {'cases': 0, 'nontrivial': 0}
    failures = []
    for (kind, g), ins in chunk:
        try:
            model = tatsu.compile(g)
        except Exception as e:  # noqa: BLE001
            failures.append({'witness': {'grammar': g}, 'cls': 'grammar-does-not-compile', 'detail': f'{type(e).__name__}: {e}'[:200]})
            continue
        for text in ins:
            stats['cases'] += 1
            how, v = guarded_parse(model, text)
            if text:
                stats['nontrivial'] += 1
            if how == 'hang':
                failures.append({'witness': {'grammar': g, 'input': text}, 'cls': f'hang/{kind}',
                                 'detail': f'the parse did not end within {WATCHDOG_S} s'})
                break  # one hang per grammar is enough (each costs the watchdog time)
            if how == 'error':
                failures.append({'witness': {'grammar': g, 'input': text}, 'cls': f'non-tatsu-exception/{type(v).__name__}',
                                 'detail': f'{type(v).__name__}: {v}'[:200]})
            elif how == 'fail' and not _position_ok(v, text):
                failures.append({'witness': {'grammar': g, 'input': text}, 'cls': 'error-position-outside-the-text',
                                 'detail': f'{type(v).__name__} at pos={getattr(v, "pos", None)!r} for a text of length {len(text)}'})
            elif how == 'fail' and not _renders(v)[0]:
                failures.append({'witness': {'grammar': g, 'input': text}, 'cls': 'error-message-does-not-render',
                                 'detail': f'str() of the {type(v).__name__} raised {_renders(v)[1]}'})
    return stats, failures[:12]


META = {'@int': int, '@uint': int, '@float': float, '@bool': bool, '@name': str}
META_ALPHABET = ('1', '\u0663', '.', 'e', '-', '_', 't', ' ')


def meta_grammars():
    out = []
    for m in META:
        out.append((m, f'start = v:{m} rest:/[\\s\\S]*/ $ ;'))
        out.append((m, f"start = v:{m} $ | w:/[\\s\\S]*/ $ ;"))
        out.append((m, f"start = vs:{{ {m} }} rest:/[\\s\\S]*/ $ ;"))
        out.append((m, f"start = ['-'] v:{m} ['e'] $ ;"))
    return out


def _convert(meta, text):
    if meta in ('@int', '@uint'):
        return int(text)
    if meta == '@float':
        return float(text)
    if meta == '@bool':
        return {'true': True, 'True': True, 'false': False, 'False': False}[text]
    return text


def _meta_work(chunk):
    stats = {'cases': 0, 'nontrivial': 0}
    failures = []
    for (meta, g), ins in chunk:
        try:
            model = tatsu.compile(g)
        except Exception as e:  # noqa: BLE001
            failures.append({'witness': {'grammar': g}, 'cls': 'grammar-does-not-compile', 'detail': f'{type(e).__name__}: {e}'[:200]})
            continue
        for text in ins:
            stats['cases'] += 1
            how, v = guarded_parse(model, text)
            w = {'grammar': g, 'input': text}
            if how == 'hang':
                failures.append({'witness': w, 'cls': f'hang/{meta}', 'detail': f'the parse did not end within {WATCHDOG_S} s'})
                break
            if how == 'error':
                failures.append({'witness': w, 'cls': f'non-tatsu-exception/{meta}/{type(v).__name__}', 'detail': f'{type(v).__name__}: {v}'[:200]})
                continue
            if how == 'fail':
                if not _position_ok(v, text):
                    failures.append({'witness': w, 'cls': 'error-position-outside-the-text',
                                     'detail': f'{type(v).__name__} at pos={getattr(v, "pos", None)!r}, text length {len(text)}'})
                elif not _renders(v)[0]:
                    failures.append({'witness': w, 'cls': 'error-message-does-not-render', 'detail': f'str() of the {type(v).__name__} raised {_renders(v)[1]}'})
                continue
            val = v.get('v') if hasattr(v, 'get') else None
            if val is None:
                continue
            stats['nontrivial'] += 1
            want = META[meta]
            if type(val) is not want:
                failures.append({'witness': w, 'cls': f'value-of-the-wrong-type/{meta}', 'detail': f'{meta} gave {val!r} ({type(val).__name__})'})
                continue
            # the value is the conversion of a piece of the text
            cands = [text[i:j] for i in range(len(text)) for j in range(i + 1, len(text) + 1)]
            ok = False
            for c in cands:
                try:
                    if _convert(meta, c) == val and (meta != '@float' or repr(float(c)) == repr(val)):
                        ok = True
                        break
                except (ValueError, KeyError):
                    continue
            if not ok:
                failures.append({'witness': w, 'cls': f'value-is-not-the-conversion-of-the-matched-text/{meta}',
                                 'detail': f'{meta} gave {val!r} for {text!r}'})
    return stats, failures[:12]


def _merge(results):
    st = {'cases': 0, 'nontrivial': 0}
    fs = []
    for s, f in results:
        st['cases'] += s['cases']
        st['nontrivial'] += s['nontrivial']
        fs += f
    return st, fs


def run(tier='quick', seed=0, info=None):
    n_rep = 4 if tier == 'quick' else 6
    n_meta = 4 if tier == 'quick' else 5
    items = []
    reps = repetition_grammars()
    ins = inputs('a, ', n_rep)
    st, fs = _merge(pmap(_rep_work, chunked([(g, ins) for g in reps], 32)))
    items += bitem(PROP, 'repetitions-end', function='ParseContext.repeat / closure / positive_closure / join / gather (+ Closure, Join, Gather nodes)',
                   domain=f'{len(reps)} repetition grammars over elements and separators that can match the empty string x all inputs over "a, " up to length {n_rep}',
                   bound=f'input length <= {n_rep}; watchdog {WATCHDOG_S} s per parse', cases=st['cases'], distinct_nontrivial=st['nontrivial'],
                   rule='a case is (grammar, input); non-trivial = non-empty input', exhaustive=True,
                   samples=[{'grammar': reps[5][1], 'inputs': ins[:6]}], failures=fs,
                   note='every parse ends with a value or a FailedParse positioned inside the text (no hang, no python exception)')
    metas = meta_grammars()
    mins = inputs(META_ALPHABET, n_meta)
    st, fs = _merge(pmap(_meta_work, chunked([(g, mins) for g in metas], 32)))
    items += bitem(PROP, 'meta-matchers', function='match_int / match_uint / match_float / match_bool / match_name, matchint ... matchbool (tatsu/input/cursor.py), IntMeta ... NameMeta',
                   domain=f'{len(metas)} grammars around @int @uint @float @bool @name x all inputs over {"".join(META_ALPHABET)!r} up to length {n_meta}',
                   bound=f'input length <= {n_meta}', cases=st['cases'], distinct_nontrivial=st['nontrivial'],
                   rule='a case is (grammar, input); non-trivial = the meta expression produced a value', exhaustive=True,
                   samples=[{'grammar': metas[8][1], 'inputs': mins[5:11]}], failures=fs,
                   note='the meta matchers fail as FailedParse (never ValueError), and their value is the python conversion of the matched text')
    return items


def main(argv=None):
    argv = argv or sys.argv[1:]
    tier = argv[0] if argv else 'quick'
    t0 = time.time()
    items = run(tier)
    for it in items:
        print(it.status, it.id, it.extra.get('cases'), (it.detail or '')[:160], it.witness if it.status != 'clean' else '')
    print(f'{time.time() - t0:.1f}s')


if __name__ == '__main__':
    main()
