"""C01 (bounded, API level): `to_model(d).parse(text, start=...)` == the documented semantics
(`bounded.specpeg.evaluate`) over exhaustively enumerated small grammars x all inputs up to a bound.

    PYTHONPATH=/verif /verif/.venv/bin/python -m bounded.bC01 quick|thorough [seed]

What is compared, per (grammar, configuration, start rule, input):

* success / failure (`tatsu.exceptions.FailedParse` = failure; ANY other exception is a finding);
* the AST with python `==` (closedlist == list, AST == dict), `specpeg.UNSPEC` being a wildcard;
* the consumed length, observed only through the API: every grammar carries the extra rule
  `top_ = <start> $ ;` and, when the plain parse succeeds, the parse from `top_` must succeed exactly
  when the documented end position (after trailing whitespace) is the end of the text.

A case passes if the real result equals an outcome that is admissible under the documented
semantics (`specpeg.POLICIES` enumerates the aspects the documentation leaves open); it is *skipped* if
the documentation does not determine it (`Unspecified`) or the oracle does not cover it
(`Unsupported`: left recursion); everything else is a failure.  Failures are grouped into classes:
a failure that turns into an agreement when the oracle emulates deviation D of the engine
(`specpeg.DEVIATIONS`) is of class D; otherwise the class says what differs.
"""
from __future__ import annotations

import itertools
import random
import os
import sys
import time

import tatsu.peg  # noqa: F401  (imported HERE so that every forked worker runs the same engine code)
import tatsu.exceptions  # noqa: F401

from bounded import grammars as G
from bounded import specpeg as S
from bounded.common import JOBS, Budget, bitem, chunked, pmap
from vlib.runner import Item

PROP = 'C01'
TOP = 'top_'

# configurations.  B: whitespace skipped, no nameguard (adjacent tokens match: most parses succeed);
# A: the defaults (whitespace r'\s+', nameguard on); C: no whitespace skipping (nameguard off by default)
CONFIGS = {
    'B': {'nameguard': False},
    'A': {},
    'C': {'whitespace': None},
}

RULE = ('distinct (grammar, configuration, start, input) tuples for which the documented evaluation matched '
        'at least one character with some terminal (token / pattern / any-char), on the successful path or '
        'on a path that was backtracked or failed; the `top_` end-position probes are not counted')


# --------------------------------------------------------------------------------------------------
# one case
# --------------------------------------------------------------------------------------------------

def with_top(d, start=None):
    first = start or d[0][0]
    return (*d, (TOP, ('seq', (('call', first), ('eof',)))))


def real_parse(model, text, start):
    from tatsu.exceptions import FailedParse
    try:
        return ('ok', S.normalize(model.parse(text, start=start)))
    except FailedParse as e:
        return ('fail', type(e).__name__)
    except RecursionError:
        return ('exc', 'RecursionError', '')
    except Exception as e:  # noqa: BLE001  -- any other exception type is itself a failure of the check
        return ('exc', type(e).__name__, str(e)[:160])


INTERNAL_KEY = '__vallue__'  # tatsu.contexts.state._AT_: must never show in a result


def has_internal_key(v):
    if isinstance(v, dict):
        return INTERNAL_KEY in v or any(has_internal_key(x) for x in v.values())
    if isinstance(v, (list, tuple)):
        return any(has_internal_key(x) for x in v)
    return False


def agrees(o, r):
    if o.ok:
        return r[0] == 'ok' and S.same_value(o.value, r[1]) and not has_internal_key(r[1])
    return r[0] == 'fail'


def _policy_combos():
    keys = sorted(S.POLICIES)
    return [dict(zip(keys, c)) for c in itertools.product(*(S.POLICIES[k] for k in keys))]


_COMBOS = _policy_combos()


def _admissible(d, text, start, cfg, r, open_aspects, deviations=()):
    """a policy under which the documented outcome equals the real one (None if there is none)"""
    if deviations:
        try:
            o, info = S.evaluate_info(d, text, start, deviations=deviations, **cfg)
        except S.Unsupported:
            return None
        if isinstance(o, S.Unspecified) or agrees(o, r):
            return S.DEFAULT_POLICY
        open_aspects = info['open']
    if not open_aspects:
        return None
    for pol in _COMBOS:
        if pol == S.DEFAULT_POLICY:
            continue
        try:
            o = S.evaluate(d, text, start, policy=pol, deviations=deviations, **cfg)
        except S.Unsupported:
            continue
        if isinstance(o, S.Unspecified) or agrees(o, r):
            return pol
    return None


_DEV_SETS = [c for k in (1, 2, 3) for c in itertools.combinations(S.DEVIATIONS, k)]


def _clsname(devs):
    """the finding class of a set of deviations ('/undetermined' variants belong to the class of their base name)"""
    out = []
    for dname in devs:
        base = dname.split('/')[0]
        if base not in out:
            out.append(base)
    return '+'.join(out)


def classify(d, text, start, cfg, r, hint=None):
    """name the class of a failure (see module doc)"""
    if r[0] == 'exc':
        return 'raises-' + r[1], None
    if r[0] == 'ok' and has_internal_key(r[1]):
        return 'internal-override-key-in-ast', None
    if hint and _admissible(d, text, start, cfg, r, True, deviations=hint) is not None:
        return _clsname(hint), hint
    for devs in _DEV_SETS:
        if devs != hint and _admissible(d, text, start, cfg, r, True, deviations=devs) is not None:
            return _clsname(devs), devs
    try:
        o = S.evaluate(d, text, start, **cfg)
    except S.Unsupported:
        return 'unexplained', None
    if o.ok and r[0] == 'fail':
        return 'unexplained-rejects-documented-parse', None
    if not o.ok and r[0] == 'ok':
        return 'unexplained-accepts-undocumented-parse', None
    if _open_list_producer(d) and (_flat(o.value) == _flat(r[1]) or (S.has_unspec(o.value) and _subseq(_flat(o.value), _flat(r[1])))):
        # same leaves in the same order, only the list nesting differs, and the grammar has a rule or operand whose value is an
        # OPEN list (`@+:e`, an override inside a closure): the listed finding open-list-spliced in a context its exact
        # emulation does not cover
        return 'open-list-spliced', None
    return 'unexplained-ast-differs', None


def _subseq(a, b):
    """a is a subsequence of b (the documented leaves with the undetermined ones left out, against the real leaves)"""
    it = iter(b)
    return all(any(x == y for y in it) for x in a)


def _open_list_producer(desc):
    def walk(e, under_rep):
        if not isinstance(e, tuple) or not e or not isinstance(e[0], str):
            return any(walk(x, under_rep) for x in e) if isinstance(e, tuple) else False
        if e[0] == 'overridelist' or (e[0] == 'override' and under_rep):
            return True
        rep = under_rep or e[0] in ('closure', 'pclosure', 'join', 'pjoin', 'gather', 'pgather')
        return any(walk(x, rep) for x in e[1:])
    return any(walk(body, False) for _n, body in desc)


def _flat(v):
    """the leaves of a value in order, list nesting removed; None / undetermined items carry no leaf"""
    if v is None or v is S.UNSPEC or v == ():
        return []
    if isinstance(v, dict):
        return [('dict', tuple(sorted((k, tuple(map(repr, _flat(x)))) for k, x in v.items())))]
    if isinstance(v, (list, tuple)):
        return [leaf for x in v for leaf in _flat(x)]
    return [v]


def fmt(o):
    if isinstance(o, S.Ok):
        return f'Ok(value={o.value!r}, consumed={o.endpos})'
    if isinstance(o, S.Fail):
        return 'Fail'
    return repr(o)


def fmt_real(r):
    if r[0] == 'ok':
        return f'Ok(value={r[1]!r})'
    if r[0] == 'fail':
        return f'Fail({r[1]})'
    return f'EXCEPTION {r[1]}: {r[2]}'


def check_case(d, model, cfg, text, start, stats, failures, cfgname, keep=40, suppress=None):
    """evaluate one case; update `stats`; append failure records"""
    stats['cases'] += 1
    try:
        o, info = S.evaluate_info(d, text, start, **cfg)
    except S.Unsupported:
        stats['skipped_unsupported'] += 1
        return
    if info['matched']:
        stats['nontrivial'] += 1
    if isinstance(o, S.Unspecified):
        stats['skipped_unspecified'] += 1
        return
    r = real_parse(model, text, start)
    pol = None
    if not agrees(o, r):
        rescue = r[0] != 'exc' and not (r[0] == 'ok' and has_internal_key(r[1]))
        pol = _admissible(d, text, start, cfg, r, info['open']) if rescue else None
        if pol is None:
            _fail(d, cfg, cfgname, text, start, o, r, stats, failures, keep, 'result', suppress)
            return
        stats['agree_open'] += 1
        o = S.evaluate(d, text, start, policy=pol, **cfg)
    elif o.ok and S.has_unspec(o.value):
        stats['agree_wildcard'] += 1
    if not o.ok or isinstance(o, S.Unspecified):
        return
    # consumed length through the `$`-terminated variant
    stats['probes'] += 1
    try:
        o2 = S.evaluate(d, text, TOP, policy=pol, **cfg) if pol else S.evaluate(d, text, TOP, **cfg)
    except S.Unsupported:
        return
    if isinstance(o2, S.Unspecified):
        return
    r2 = real_parse(model, text, TOP)
    if r2[0] == 'exc' or (o2.ok != (r2[0] == 'ok')):
        _fail(d, cfg, cfgname, text, TOP, o2, r2, stats, failures, keep, 'consumed', suppress)


def _fail(d, cfg, cfgname, text, start, o, r, stats, failures, keep, what, suppress=None):
    hints = stats.setdefault('_hints', {})
    cls, devs = classify(d, text, start, cfg, r, hints.get((d, cfgname)))
    if devs:
        hints[(d, cfgname)] = devs
    if suppress is not None and suppress(d, cfg, text, start, o, r, cls):
        stats['suppressed'] += 1
        return
    stats['failed'] += 1
    if what == 'consumed' and cls.startswith('unexplained'):
        cls = 'consumed-length-differs'
    n = stats['by_class'].get(cls, 0)
    stats['by_class'][cls] = n + 1
    if n >= keep:
        return
    gtext = S.to_text(d, **cfg)
    failures.append({
        'cls': cls,
        'witness': {'grammar': gtext, 'input': text, 'start': start or d[0][0], 'config': cfgname,
                    'settings': {k: v for k, v in cfg.items()}},
        'detail': (f'documented: {fmt(o)}; real: {fmt_real(r)}'
                   f' -- replay: tatsu.compile(grammar).parse({text!r}, start={(start or d[0][0])!r})'),
    })


def new_stats():
    return {'cases': 0, 'nontrivial': 0, 'skipped_unsupported': 0, 'skipped_unspecified': 0, 'agree_open': 0,
            'agree_wildcard': 0, 'probes': 0, 'failed': 0, 'suppressed': 0, 'grammars': 0, 'build_errors': 0, 'by_class': {}}


def merge_stats(a, b):
    for k, v in b.items():
        if k == '_hints':
            continue
        if k == 'by_class':
            for c, n in v.items():
                a['by_class'][c] = a['by_class'].get(c, 0) + n
        else:
            a[k] += v
    return a


# --------------------------------------------------------------------------------------------------
# workers
# --------------------------------------------------------------------------------------------------

def work(job):
    """job = (descs, plan): plan = [(cfgname, inputs, starts)]; every description gets the `top_` rule"""
    descs, plan = job[0], job[1]
    suppress = job[2] if len(job) > 2 else None
    stats, failures, samples = new_stats(), [], []
    for d in descs:
        stats['grammars'] += 1
        for cfgname, ins, starts in plan:
            cfg = CONFIGS[cfgname] if isinstance(cfgname, str) else dict(cfgname)
            name = cfgname if isinstance(cfgname, str) else 'custom'
            for start in starts:
                if start == '@last':  # the last rule of the description, named explicitly
                    start = d[-1][0]
                dt = with_top(d, start)
                try:
                    model = S.to_model(dt, **cfg)
                except Exception as e:  # noqa: BLE001
                    stats['build_errors'] += 1
                    failures.append({'cls': 'model-build-raises-' + type(e).__name__,
                                     'witness': {'grammar': S.to_text(dt, **cfg), 'input': None, 'start': start,
                                                 'config': name},
                                     'detail': f'building the model raised {type(e).__name__}: {str(e)[:200]}'})
                    continue
                for text in ins:
                    check_case(dt, model, cfg, text, start, stats, failures, name, suppress=suppress)
                if not samples and ins:
                    t = ins[len(ins) // 2]
                    try:
                        samples.append({'grammar': S.to_text(dt, **cfg), 'input': t, 'start': start or dt[0][0],
                                        'documented': fmt(S.evaluate(dt, t, start, **cfg)),
                                        'real': fmt_real(real_parse(model, t, start))})
                    except S.Unsupported:
                        pass
    stats.pop('_hints', None)
    return stats, failures, samples


_EXOTIC = {'eof', 'cut', 'const', 'dot', 'fail', 'void', 'la', 'nla', 'emptyclosure', 'skipto', 'skipgroup'}


def _simplicity(f):
    g = f['witness']['grammar']
    exotic = sum(g.count(t) for t in ('$ ', '~', '`', '/./', '!', '()', '&', '{}', '->', '(?:')) - g.count('start $')
    return (exotic, len(g), len(f['witness']['input'] or ''), f['witness']['input'] or '')


def best_witnesses(failures, k=3):
    """per class the k simplest witnesses (fewest exotic constructs, then shortest grammar / input)"""
    by = {}
    for f in failures:
        by.setdefault(f['cls'], []).append(f)
    out = []
    for fs in by.values():
        fs.sort(key=_simplicity)
        out += fs[:1] if k == 1 else fs[:k]
    return out


def run_domain(name, descs, plan, *, function, domain, bound, exhaustive, budget=None, chunk=48, note='',
               prop=PROP, rule=RULE, suppress=None):
    descs = list(descs)
    jobs = [(c, plan, suppress) for c in chunked(descs, chunk)] if descs else []
    t0 = time.time()
    stats, failures, samples = new_stats(), [], []
    done = 0
    per = JOBS * 2 if budget is not None else max(1, len(jobs))
    waves = [jobs[i:i + per] for i in range(0, len(jobs), per)]
    for wave in waves:
        if budget is not None and budget.left() <= 0:
            break
        for st, fs, sm in pmap(work, wave):
            merge_stats(stats, st)
            failures += fs
            samples += sm[:1]
        done += len(wave)
    if done < len(jobs):
        exhaustive = False
        note = (note or f'bounded: {function} over {name}') + \
            f' -- STOPPED by the time budget after {stats["grammars"]} of {len(descs)} grammars'
    failures = best_witnesses(failures, 1)
    wall = time.time() - t0
    items = bitem(prop, name, function=function, domain=domain, bound=bound, cases=stats['cases'],
                  distinct_nontrivial=stats['nontrivial'], rule=rule, exhaustive=exhaustive, samples=samples,
                  failures=failures, note=note or f'bounded: {function} over {name}')
    for it in items:
        it.extra.update(grammars=stats['grammars'], probes=stats['probes'],
                        skipped_unspecified=stats['skipped_unspecified'],
                        skipped_unsupported=stats['skipped_unsupported'],
                        agree_under_open_aspect=stats['agree_open'], agree_with_wildcard=stats['agree_wildcard'],
                        wall_s=round(wall, 1), failures_by_class=dict(stats['by_class']),
                        suppressed_not_in_scope=stats['suppressed'])
        if it.status == 'refuted':
            cls = it.id.rsplit('/', 1)[-1]
            it.extra['failing_cases'] = stats['by_class'].get(cls, it.extra.get('failing_cases', 0))
    return items, stats, wall


# --------------------------------------------------------------------------------------------------
# domains
# --------------------------------------------------------------------------------------------------

def adjacent(ins):
    """inputs in which two letters touch: the only ones on which nameguard can matter"""
    return [s for s in ins if any(s[i].isalnum() and s[i + 1].isalnum() for i in range(len(s) - 1))]


def spaced(ins):
    return [s for s in ins if ' ' in s]


single_rule, two_rule, CALLEES, IN_MID = G.single_rule, G.two_rule, G.CALLEES, G.IN_MID
T = G._T


def seq(*a):
    return ('seq', tuple(a))


def ch(*a):
    return ('choice', tuple(a))


def curated():
    """documented behaviours the a/b/a+ alphabet cannot reach: pattern groups, case, namechars,
    keywords / @name, comments, custom whitespace, skip-to.  [(desc, settings, inputs)]"""
    out = []
    # "the semantics of re.findall(pattern, text)[0] (a tuple if there is more than one group)"
    for pat in ('a(b)', '(a)(b)', '(a)|(b)', 'a(?:b)', '(a)(b)?'):
        out.append(((('start', ('pat', pat)),), {}, G.inputs('ab', 3)))
        out.append(((('start', seq(('named', 'x', ('pat', pat)), ('eof',))),), {}, G.inputs('ab', 3)))
    # ignorecase: tokens, not patterns
    d = (('start', seq(T('ab'), ('pat', 'a+'))),)
    out.append((d, {'ignorecase': True}, G.inputs('aAbB', 4)))
    out.append((d, {}, G.inputs('aAbB', 4)))
    # nameguard / namechars
    d = (('start', seq(T('a'), ('opt', T('-')), ('closure', T('b')))),)
    out.append((d, {'namechars': '-'}, G.inputs('ab- ', 4)))
    out.append((d, {'nameguard': True}, G.inputs('ab- ', 4)))
    out.append((d, {'nameguard': False}, G.inputs('ab- ', 4)))
    out.append((d, {'whitespace': None}, G.inputs('ab- ', 4)))
    out.append((d, {'whitespace': None, 'nameguard': True}, G.inputs('ab- ', 4)))
    d = (('start', seq(T('+'), T('a'), T('+'))),)
    out.append((d, {}, G.inputs('a+ ', 4)))
    # @name rules reject keywords
    d = (('start', seq(('closure', ('call', 'id')), ('eof',))), ('id', ('pat', '[ab]+'), ('name',)))
    out.append((d, {'keywords': ('ab', 'b')}, G.inputs('ab ', 5)))
    out.append((d, {'keywords': ('AB',), 'ignorecase': True}, G.inputs('abB ', 4)))
    d = (('start', ch(seq(('call', 'id'), ('eof',)), seq(T('ab'), ('eof',)))), ('id', ('pat', '[ab]+'), ('name',)))
    out.append((d, {'keywords': ('ab',)}, G.inputs('ab ', 4)))
    # comments, eol comments, custom whitespace
    d = (('start', seq(('closure', T('a')), ('pat', 'b*'), ('eof',))),)
    out.append((d, {'comments': r'\(\*.*?\*\)'}, G.inputs('a(*) ', 5)))
    out.append((d, {'eol_comments': r'#[^\n]*'}, G.inputs('a#\n ', 5)))
    out.append((d, {'whitespace': r'[ ]+'}, G.inputs('ab\n ', 4)))
    out.append((d, {'whitespace': r'[ ]+', 'eol_comments': r'#[^\n]*\n?'}, G.inputs('a#\n ', 5)))
    # a named / overridden group or optional that yields several elements, followed by further list-producing groups, optionals and
    # closures in the same sequence: the value bound to the name is the value of ITS expression, whatever the sequence collects later
    # (a list shared between the binding and the sequence's accumulator would grow behind the name)
    two = ('group', seq(T('a'), T('b')))
    for first in (('named', 'x', two), ('namedlist', 'x', two), ('override', two), ('named', 'x', ('opt', seq(T('a'), T('b')))),
                  ('named', 'x', ('closure', T('a'))), ('named', 'x', ('pclosure', T('a')))):
        for nxt in (('group', seq(T('b'), T('a'))), ('opt', seq(T('b'), T('a'))), ('closure', T('b')), ('group', seq(T('b'), ('named', 'y', T('a'))))):
            out.append(((('start', seq(first, nxt, ('eof',))),), {'nameguard': False}, G.inputs('ab', 5)))
            out.append(((('start', seq(first, nxt, ('named', 'y', ('group', seq(T('a'), T('a')))), ('eof',))),), {'nameguard': False}, G.inputs('ab', 6)))
    # skip-to: "{ !e /./ } e", whitespace skipped at each step
    for e in (T('b'), ('pat', 'b'), ('la', T('b')), ('group', seq(T('b'), T('a')))):
        out.append(((('start', seq(('skipto', e), ('closure', ('dot',)))),), {'nameguard': False},
                    G.inputs('ab ', 5)))
    return out


def work_curated(job):
    stats, failures, samples = new_stats(), [], []
    for d, cfg, ins in job:
        stats['grammars'] += 1
        dt = with_top(d)
        model = S.to_model(dt, **cfg)
        for text in ins:
            check_case(dt, model, cfg, text, None, stats, failures, 'custom')
    stats.pop('_hints', None)
    return stats, failures, samples


def work_model_vs_text(job):
    """to_model(d) and tatsu.compile(to_text(d)) must be the same grammar and parse identically"""
    import tatsu
    stats, failures, samples = new_stats(), [], []
    for d, cfgname, ins in job:
        cfg = CONFIGS[cfgname]
        stats['grammars'] += 1
        dt = with_top(d)
        text = S.to_text(dt, **cfg)
        try:
            m1 = S.to_model(dt, **cfg)
            m2 = tatsu.compile(text)
        except Exception as e:  # noqa: BLE001
            stats['failed'] += 1
            stats['by_class']['compile-raises'] = stats['by_class'].get('compile-raises', 0) + 1
            failures.append({'cls': 'compile-raises', 'witness': {'grammar': text, 'input': None, 'start': None},
                             'detail': f'{type(e).__name__}: {str(e)[:200]}'})
            continue
        if m1.pretty() != m2.pretty():
            stats['failed'] += 1
            stats['by_class']['model-structure-differs'] = stats['by_class'].get('model-structure-differs', 0) + 1
            failures.append({'cls': 'model-structure-differs', 'witness': {'grammar': text, 'input': None, 'start': None},
                             'detail': f'to_model(d).pretty() = {m1.pretty()!r}; compile(to_text(d)).pretty() = '
                                       f'{m2.pretty()!r}'})
        for t in ins:
            for start in (None, TOP):
                stats['cases'] += 1
                r1, r2 = real_parse(m1, t, start), real_parse(m2, t, start)
                if r1[0] == 'ok':
                    stats['nontrivial'] += 1
                if (r1[:2] != r2[:2]) if r1[0] != 'fail' else (r2[0] != 'fail'):
                    stats['failed'] += 1
                    stats['by_class']['model-vs-text-differs'] = stats['by_class'].get('model-vs-text-differs', 0) + 1
                    failures.append({'cls': 'model-vs-text-differs',
                                     'witness': {'grammar': text, 'input': t, 'start': start or dt[0][0]},
                                     'detail': f'programmatic model: {fmt_real(r1)}; compiled text: {fmt_real(r2)}'})
    return stats, failures, samples


def model_vs_text(sample, name='model-vs-compiled-text'):
    t0 = time.time()
    stats, failures = new_stats(), []
    for st, fs, _sm in pmap(work_model_vs_text, chunked(sample, JOBS * 2)):
        merge_stats(stats, st)
        failures += fs
    its = bitem(PROP, name, function='specpeg.to_model(d) == tatsu.compile(specpeg.to_text(d))',
                domain=f'a deterministic sample of {len(sample)} descriptions from every sub-domain (every k-th) x the '
                       '23 inputs IN_MID x start in {first rule, top_}: same pretty() text and same parse result',
                bound='sample', cases=stats['cases'], distinct_nontrivial=stats['nontrivial'],
                rule='(grammar, input, start) triples the programmatic model parses successfully',
                exhaustive=False, samples=[], failures=failures)
    for it in its:
        it.extra.update(grammars=stats['grammars'], failures_by_class=dict(stats['by_class']))
    return its, stats, time.time() - t0


def every(xs, k, cfgname='B', ins=None):
    xs = list(xs)
    step = max(1, len(xs) // k)
    return [(d, cfgname, ins or IN_MID) for d in xs[::step]][:k]


# --------------------------------------------------------------------------------------------------
# random extension (thorough tier)
# --------------------------------------------------------------------------------------------------

def random_expr(rng, n, ctx, calls, leaves='core'):
    """a uniformly chosen *shape* then uniformly chosen parts: not uniform over expressions, but every
    expression with n nodes has positive probability"""
    if n <= 3:
        pool = G.exprs(n, ctx, calls, leaves)
        return rng.choice(pool) if pool else None
    for _ in range(50):
        kind = rng.choice(['unary_e', 'unary_e', 'unary_t', 'join', 'named', 'named', 'seq', 'seq', 'seq', 'seq',
                           'choice', 'choice'])
        if kind == 'unary_e':
            sub = random_expr(rng, n - 1, 'expre', calls, leaves)
            if sub:
                return (rng.choice(['group', 'skipgroup', 'opt', 'closure', 'pclosure']), sub)
        elif kind == 'unary_t' and ctx != 'atom':
            sub = random_expr(rng, n - 1, 'term', calls, leaves)
            if sub:
                return (rng.choice(['la', 'nla', 'skipto']), sub)
        elif kind == 'join' and ctx != 'atom':
            i = rng.randint(1, min(2, n - 2))
            sep = random_expr(rng, i, 'atom', calls, leaves)
            body = random_expr(rng, n - 1 - i, 'expre', calls, leaves)
            if sep and body:
                return (rng.choice(G.JOINS), sep, body)
        elif kind == 'named' and ctx in ('element', 'option', 'expre'):
            sub = random_expr(rng, n - 1, 'term', calls, leaves)
            if sub:
                k = rng.choice(['named', 'namedlist', 'override', 'overridelist'])
                return (k, rng.choice(G.NAMES), sub) if k.startswith('named') else (k, sub)
        elif kind in ('seq', 'choice') and ctx in (('option', 'expre') if kind == 'seq' else ('expre',)):
            k = rng.randint(2, min(4, n - 1))
            sizes = rng.choice(list(G._compositions(n - 1, k)))
            parts = [random_expr(rng, s, 'element' if kind == 'seq' else 'option', calls, leaves) for s in sizes]
            if all(parts):
                return (kind, tuple(parts))
    return None


def random_grammars(seed, count, lo=5, hi=7):
    rng = random.Random(seed)
    out, seen = [], set()
    tries = 0
    while len(out) < count and tries < count * 20:
        tries += 1
        nrules = rng.choice([1, 1, 2, 2, 3])
        names = ['start', 'r', 'R'][:nrules]
        rules = []
        ok = True
        for i, nm in enumerate(names):
            callable_ = tuple(names[i + 1:])  # calls only go forward: no left recursion
            n = rng.randint(lo, hi) if i == 0 else rng.randint(1, 4)
            body = None
            for _ in range(30):
                body = random_expr(rng, n, 'expre', callable_, 'core')
                if body is not None and (not callable_ or G._has_call(body, callable_[0])):
                    break
                body = None
            if body is None:
                ok = False
                break
            rules.append((nm, body))
        if not ok:
            continue
        d = tuple(rules)
        if d in seen or not S.wellformed(d):
            continue
        if _observes_valueless(d):
            # a name / override in a grammar that also has an expression WITHOUT a value (cut, void, lookaheads, skip group):
            # the docs do not say what such an expression contributes where a value is collected, so the oracle has nothing
            # documented to compare with once these are nested freely (the exhaustive small domains, where every such case
            # falls into a listed class, keep covering the combination up to their bounds)
            continue
        seen.add(d)
        out.append(d)
    return out


_VALUELESS = {'cut', 'void', 'la', 'nla', 'skipgroup', 'eof', 'fail'}
_NAMING = {'named', 'namedlist', 'override', 'overridelist'}


def _kinds(e, acc):
    if isinstance(e, tuple):
        if e and isinstance(e[0], str):
            acc.add(e[0])
        for x in e:
            _kinds(x, acc)
    return acc


def _observes_valueless(desc):
    ks = set()
    for _name, body in desc:
        _kinds(body, ks)
    return bool(ks & _VALUELESS) and bool(ks & _NAMING)


# --------------------------------------------------------------------------------------------------
# the run
# --------------------------------------------------------------------------------------------------

FUNCTION = 'tatsu.peg.Grammar.parse (model built by specpeg.to_model) == specpeg.evaluate'


def run(tier='quick', seed=0, info=None):
    budget = Budget(float(os.environ.get('VERIF_BOUNDED_BUDGET_S', 0)) or (105 if tier == 'quick' else 1100))
    items = []
    summary = []
    in4, in3 = G.inputs('ab ', 4), G.inputs('ab ', 3)
    in5 = G.inputs('ab ', 5)

    sample = []

    def go(name, descs, plan, **kw):
        if tier != 'quick' and (budget.left() <= 0 or ('budget' in kw and kw['budget'].left() <= 0)):
            # never silently: a sub-domain that was not run is undecided
            items.append(Item(id=f'{PROP}/B:{name}', kind='B', status='undecided', function=FUNCTION,
                              note=f'bounded: {name} NOT RUN (time budget of the thorough tier used up)',
                              detail='time budget', extra={'domain': kw.get('domain', ''), 'cases': 0}))
            summary.append((name + ' (NOT RUN: time budget)', new_stats(), 0.0))
            return
        descs = list(descs)
        if not name.startswith('random'):
            sample.extend(every(descs, 30 if tier == 'quick' else 150))
        its, st, wall = run_domain(name, descs, plan, function=FUNCTION, **kw)
        items.extend(its)
        summary.append((name, st, wall))

    if tier == 'quick':
        go('single-rule-le3', single_rule(3),
           [('B', in4, (None,)), ('A', adjacent(in3), (None,)), ('C', spaced(in3), (None,))],
           domain='every grammar `start = e` with e of <= 3 nodes over tokens {a,b}, pattern /a+/, constant, '
                  'void, fail, EOF, any-char, empty closure, cut and every operator (canonical up to renaming '
                  'x<->y and, without the pattern, a<->b) x configurations B (nameguard off; all inputs over '
                  "{a,b,' '} of length <= 4), A (defaults; the inputs of length <= 3 where two letters touch), C "
                  '(no whitespace skipping; the inputs of length <= 3 containing a blank)',
           bound='<= 3 nodes, input length <= 4', exhaustive=True)
        go('single-rule-4-core', single_rule(4, 'core', exact=True), [('B', IN_MID, (None,))],
           domain="every grammar `start = e` with e of exactly 4 nodes over the core leaves {'a','b',/a+/,(),~} "
                  'and every operator x configuration B x the 23 inputs IN_MID (all over {a,b} of length <= 3, '
                  'and a blank before / after / between one or two letters)',
           bound='4 nodes, 23 inputs of length <= 3', exhaustive=True)
        go('two-rule', two_rule(2, 2), [('B', IN_MID, (None,)), ('B', ('', 'a', ' a', 'a ', 'ab', 'b', 'aa'), ('@last',))],
           domain='`start = e` with e of <= 2 nodes calling a second rule named r (skips whitespace at entry) or '
                  'R (does not), whose body has <= 2 nodes (full leaf alphabet) x configuration B x IN_MID from the '
                  "first rule, and 7 inputs of length <= 2 with start=<second rule> named explicitly",
           bound='<= 2 + 2 nodes, 23 inputs of length <= 3', exhaustive=True)
        go('two-rule-3-core', two_rule(3, 0, 'core', exact=True, callees=CALLEES), [('B', IN_MID, (None,))],
           domain='`start = e` with e of exactly 3 nodes (core leaves) calling r / R whose body is one of the 11 '
                  'CALLEES (one per value shape) x configuration B x IN_MID',
           bound='3 nodes + curated callee, 23 inputs of length <= 3', exhaustive=True)
        go('names-in-scopes-5', G.named_in_scopes(5), [('B', G.inputs('ab', 3), (None,))],
           domain="every grammar `start = e` with e of exactly 5 nodes over the tokens 'a' 'b' that has a name / "
                  'override and an optional / closure / choice (no joins, lookaheads, skip-to, (?: )) x configuration B '
                  'x all inputs over {a,b} of length <= 3',
           bound='5 nodes, input length <= 3', exhaustive=True)
        go('token-rule-start', single_rule(3, 'core', name='R'), [('B', in3, (None,)), ('A', adjacent(in3), (None,))],
           domain='every grammar `R = e` (upper-case start rule: no whitespace skipped at entry) with e of <= 3 '
                  "nodes over the core leaves x configurations B, A x all inputs over {a,b,' '} of length <= 3",
           bound='<= 3 nodes, input length <= 3', exhaustive=True)
    else:
        go('single-rule-le4', single_rule(4),
           [('B', in4, (None,)), ('A', adjacent(in3), (None,)), ('C', spaced(in3), (None,))],
           domain='every grammar `start = e` with e of <= 4 nodes (full leaf alphabet, canonical up to renaming) '
                  "x configurations B (all inputs over {a,b,' '} <= 4), A (inputs <= 3 where two letters touch), C "
                  '(inputs <= 3 containing a blank)',
           bound='<= 4 nodes, input length <= 4', exhaustive=True, budget=Budget(budget.left() * 0.55), chunk=JOBS * 16)
        go('two-rule', two_rule(3, 2, 'full', 'core'), [('B', in3, (None,)), ('B', G.inputs('ab ', 2), ('@last',))],
           domain='`start = e` with e of <= 3 nodes (full leaves) calling r / R whose body has <= 2 nodes (core '
                  "leaves) x configuration B x all inputs over {a,b,' '} <= 3",
           bound='<= 3 + 2 nodes, input length <= 3', exhaustive=True, budget=Budget(budget.left() * 0.6),
           chunk=JOBS * 16)
        go('two-rule-curated-callee', two_rule(3, 0, 'full', exact=True, callees=CALLEES),
           [('B', IN_MID, (None,)), ('C', spaced(in3), (None,))],
           domain='`start = e` with e of exactly 3 nodes (full leaves) calling r / R whose body is one of the 11 '
                  'CALLEES x configurations B (IN_MID), C (inputs <= 3 containing a blank)',
           bound='3 nodes + curated callee', exhaustive=True, budget=Budget(budget.left() * 0.5), chunk=JOBS * 8)
        go('names-in-scopes-5', G.named_in_scopes(5, wide=True), [('B', in3, (None,))],
           domain="every grammar `start = e` with e of exactly 5 nodes over the tokens 'a' 'b' that has a name / "
                  "override and an optional / closure / choice / join x configuration B x all inputs over {a,b,' '} "
                  'of length <= 3',
           bound='5 nodes, input length <= 3', exhaustive=True, budget=Budget(budget.left() * 0.5), chunk=JOBS * 8)
        go('token-rule-start', single_rule(3, name='R'), [('B', in4, (None,)), ('A', adjacent(in4), (None,))],
           domain='every grammar `R = e` (upper-case start rule) with e of <= 3 nodes (full leaves) x '
                  'configurations B, A x all inputs <= 4',
           bound='<= 3 nodes, input length <= 4', exhaustive=True, budget=Budget(budget.left() * 0.5), chunk=JOBS * 4)

    # curated extras (both tiers)
    cur = curated()
    t0 = time.time()
    stats, failures, samples = new_stats(), [], []
    for st, fs, sm in pmap(work_curated, chunked(cur, min(len(cur), JOBS))):
        merge_stats(stats, st)
        failures += fs
    its = bitem(PROP, 'curated-lexical', function=FUNCTION,
                domain='hand-written grammars for what the a/b alphabet cannot reach (pattern groups, ignorecase, '
                       'nameguard/namechars, keywords and @name, comments, custom whitespace, skip-to) x all inputs '
                       'over their own alphabets up to length 3..5',
                bound='input length <= 5', cases=stats['cases'], distinct_nontrivial=stats['nontrivial'], rule=RULE,
                exhaustive=True, samples=samples, failures=best_witnesses(failures, 1))
    for it in its:
        it.extra.update(grammars=stats['grammars'], failures_by_class=dict(stats['by_class']),
                        skipped_unspecified=stats['skipped_unspecified'])
        if it.status == 'refuted':
            it.extra['failing_cases'] = stats['by_class'].get(it.id.rsplit('/', 1)[-1], 0)
    items.extend(its)
    summary.append(('curated-lexical', stats, time.time() - t0))

    sample += every([d for _n, d in G.CUT_GRAMMARS], 30 if tier == 'quick' else 200, ins=G.inputs('abc', 4))
    sample += [(d, 'A', IN_MID) for d, _c, _i in sample[::5]]
    its, st, wall = model_vs_text(sample)
    items.extend(its)
    summary.append(('model-vs-compiled-text', st, wall))

    if tier != 'quick':
        # random extension beyond the exhaustive bound, seeded; in rounds until the budget is used
        rnd = 0
        ins = None
        while budget.left() > 150 and rnd < 40:
            descs = random_grammars((seed or 0) * 1000 + rnd, 1200)
            rng = random.Random((seed or 0) * 7919 + rnd)
            ins = sorted(set(rng.sample(in5, 60) + in3))
            go(f'random-{rnd}', descs, [('B', ins, (None,)), ('A', adjacent(ins), (None,))], chunk=JOBS * 4,
               domain=f'random grammars (seed {seed}, round {rnd}): 1-3 rules, start body 5-7 nodes, other bodies '
                      '1-4 nodes, core leaves, calls only to later rules x configurations B, A x all inputs of '
                      "length <= 3 plus 60 random inputs of length <= 5 over {a,b,' '}",
               bound='<= 7 nodes per body, input length <= 5 (sampled)', exhaustive=False)
            rnd += 1
    head = repo_head()
    for it in items:
        it.extra['repo_head'] = head
    if info is not None:
        info.setdefault('bounded', []).append({'run': 'bC01', 'tier': tier, 'wall_s': round(budget.spent(), 1),
                                               'repo_head': head})
    run.summary = summary
    return items


def repo_head():
    """the engine under test: directory of the imported tatsu and its git HEAD (+ '-dirty')"""
    import subprocess
    root = os.path.dirname(os.path.dirname(os.path.abspath(tatsu.__file__)))
    try:
        sha = subprocess.run(['git', '-C', root, 'rev-parse', '--short', 'HEAD'], capture_output=True, text=True,
                             timeout=10).stdout.strip()
        dirty = subprocess.run(['git', '-C', root, 'status', '--porcelain', '--', 'tatsu'], capture_output=True,
                               text=True, timeout=10).stdout.strip()
        return f'{root}@{sha}{"-dirty" if dirty else ""}'
    except Exception:  # noqa: BLE001
        return root


def print_summary(items, summary, wall):
    for name, st, w in summary:
        print(f'{name:22} grammars={st["grammars"]:6} cases={st["cases"]:8} nontrivial={st["nontrivial"]:8} '
              f'probes={st["probes"]:7} open={st["agree_open"]:6} wildcard={st["agree_wildcard"]:6} '
              f'skipped={st["skipped_unspecified"] + st["skipped_unsupported"]:6} failed={st["failed"]:6} suppressed={st["suppressed"]:5} '
              f'{w:6.1f}s')
        for c, n in sorted(st['by_class'].items(), key=lambda kv: -kv[1]):
            print(f'    {n:7}  {c}')
    print(f'total wall {wall:.1f}s, jobs={JOBS}')
    for it in items:
        if it.status == 'refuted':
            w = it.witness
            print(f'\nREFUTED {it.id}  ({it.extra.get("failing_cases")} cases)')
            print('  grammar: ' + w['grammar'].strip().replace('\n', '\n           '))
            print(f'  input: {w["input"]!r}  start: {w["start"]}  config: {w["config"]}')
            print('  ' + it.detail)


def main(argv=None):
    argv = sys.argv[1:] if argv is None else argv
    tier = argv[0] if argv else 'quick'
    seed = int(argv[1]) if len(argv) > 1 else 0
    t0 = time.time()
    items = run(tier, seed, {})
    print_summary(items, run.summary, time.time() - t0)
    return 0


if __name__ == '__main__':
    sys.exit(main())
