"""Bounded stand-in for C13: pretty-printed grammars recompile to the same parser and are a fixpoint;
railroad rendering completes with tracks of consistent width.

Every case builds a grammar MODEL with the real code (from grammar text via `tatsu.compile`, from JSON via
`tatsu.peg.Grammar.load`, via `Grammar.optimized()`, via the ANTLR translator `tatsu.g2e.translate`) and
checks on the real code

  R1  `tatsu.compile(m.pretty())` succeeds                                  (cls  recompile-*)
  R2  the recompiled model m2 accepts / rejects every input of the battery exactly like m and returns
      equal ASTs (with parseinfo positions when the grammar switches them on)  (cls  parse-*)
  R3  m2 keeps directives, keywords, and per rule: name, params, kwparams, base, and the decorators that
      affect parsing (@name/@isname, @nomemo, @nostak), is_name/no_memo/no_stak/is_tokn flags (cls  meta-*)
  R4  `m2.pretty() == m.pretty()`                                             (cls  fixpoint-*)
  R5  `m.railroads()` and `tracks(rule)` never raise, no rail contains a line break, and all rails of
      one rule block have the same `unicode_display_len` (the width `assert_one_length` uses) (cls  rail-*)

Cases whose ORIGINAL model cannot be built (the grammar text is not a grammar, the regex does not compile,
...) are skipped and not counted as non-trivial -- except the hand-written grammars (rules, antlr, files,
every term kind in the plain context), which the pinned tree accepts: there a model that cannot be built
is reported, so that a broken compiler cannot make the run vacuous.  Whitespace/comment patterns that
match the empty string are left out of the domain (they hang the tokenizer: D29, property C08/C09).
Each model is also taken through `Grammar.load(json(m.asjson()))` and `m.optimized()` ("however
obtained"); such a variant is checked again only when its pretty text differs from the plain model's
(the same text recompiles to the same model).  One report per (case, variant): the most severe failed
check (pretty raises > recompile > parse > meta > fixpoint) plus the railroad checks.  The finding class
slug names what the model contains that the printers treat specially (`features`), so that one cause has
one slug; it never decides pass/fail.
"""
from __future__ import annotations

import os as _os
import itertools
import json
import os
import random
import re
import signal
import sys
import threading
import time
from contextlib import contextmanager

from bounded.common import JOBS, bitem, chunked, pmap

_REPO = _os.environ.get('VERIF_REPO', '/repo')  # the tree under check (a scratch copy when evaluations run in parallel)
PROP = 'C13'
ALPHA = ('a', "'", '"', '\\', '/', '`', '\n', '{', '}')
RAIL_EXTRA = ('＄', '世', 'é', '\t', '─', 'a b', 'ab' * 12)


# --------------------------------------------------------------------------- plumbing
class CaseTimeout(BaseException):
    pass


@contextmanager
def deadline(seconds):
    """raise CaseTimeout in the running code after `seconds` (main thread only; else no limit)."""
    if threading.current_thread() is not threading.main_thread():
        yield
        return

    def _h(signum, frame):
        raise CaseTimeout()

    outer_left = signal.getitimer(signal.ITIMER_REAL)[0]  # an enclosing deadline keeps running
    t0 = time.time()
    old = signal.signal(signal.SIGALRM, _h)
    # repeating: an alarm that lands inside a destructor / weakref callback is swallowed there, the next one is not
    signal.setitimer(signal.ITIMER_REAL, seconds if not outer_left else min(seconds, outer_left), 0.25)
    try:
        yield
    finally:
        signal.setitimer(signal.ITIMER_REAL, 0)
        signal.signal(signal.SIGALRM, old)
        if outer_left:
            signal.setitimer(signal.ITIMER_REAL, max(outer_left - (time.time() - t0), 0.01))


def strings(alpha, maxlen, minlen=1):
    for n in range(minlen, maxlen + 1):
        for t in itertools.product(alpha, repeat=n):
            yield ''.join(t)


def fresh_compile(text, **kw):
    """tatsu.compile without the module-level cache (the cache returns the same, mutated, object for the
    same text: D15; here every compile must be a real one)."""
    import tatsu
    from tatsu.api import api as _api
    getattr(_api, '__compiled_grammar_cache').clear()
    with deadline(20):
        return tatsu.compile(text, **kw)


def try_compile(text, **kw):
    import contextlib
    import io
    import warnings
    try:
        with warnings.catch_warnings(), contextlib.redirect_stderr(io.StringIO()):
            warnings.simplefilter('ignore')  # `>>` deprecation chatter
            return fresh_compile(text, **kw), None
    except CaseTimeout:
        return None, 'timeout'
    except RecursionError:
        return None, 'RecursionError'
    except Exception as e:  # noqa: BLE001
        first = (str(e).strip().splitlines() or [''])[0]
        return None, f'{type(e).__name__}: {first[:120]}'


def canon(x):
    """structural, type-faithful image of a parse result (AST / list / tuple / node / scalar)."""
    from tatsu.contexts.ast import AST
    if x is None or isinstance(x, (bool, int, str)):
        return [type(x).__name__, x]
    if isinstance(x, float):
        return ['float', repr(x)]
    if isinstance(x, AST):
        d = {}
        for k, v in x.items():
            if k in ('parseinfo', '__parseinfo__'):
                continue
            d[k] = canon(v)
        pi = x.parseinfo
        pic = None
        if pi is not None:
            pic = [getattr(pi, 'rule', None), getattr(pi, 'pos', None), getattr(pi, 'endpos', None),
                   getattr(pi, 'line', None), getattr(pi, 'endline', None)]
        return ['AST', d, pic]
    if isinstance(x, dict):
        return ['dict', {str(k): canon(v) for k, v in x.items()}]
    if isinstance(x, (list, tuple)):
        return [type(x).__name__, [canon(e) for e in x]]
    if isinstance(x, (set, frozenset)):
        return ['set', sorted(json.dumps(canon(e), sort_keys=True, default=repr) for e in x)]
    pub = getattr(x, '__pub__', None)
    if callable(pub):
        try:
            return [type(x).__name__, {k: canon(v) for k, v in pub().items() if k not in ('ctx', 'parseinfo')}]
        except Exception:  # noqa: BLE001
            pass
    return ['obj', type(x).__name__, repr(x)]


def outcome(model, text, timeout=3.0, **kw):
    """('ok', canon) | ('fail',) | ('exc', ExcName) | ('timeout',)"""
    from tatsu.exceptions import FailedParse
    try:
        with deadline(timeout):
            ast = model.parse(text, **kw)
        return ('ok', json.dumps(canon(ast), sort_keys=True, default=repr))
    except FailedParse:
        return ('fail',)
    except CaseTimeout:
        return ('timeout',)
    except RecursionError:
        return ('exc', 'RecursionError')
    except Exception as e:  # noqa: BLE001
        return ('exc', type(e).__name__)


def show(o):
    if o[0] == 'ok':
        return 'ok ' + o[1][:160]
    return ' '.join(o)


# --------------------------------------------------------------------------- model facts compared by R3
DECO_NORM = {'isname': 'name', 'name': 'name', 'nomemo': 'nomemo', 'nostak': 'nostak'}
CONFIG_KEYS = ('whitespace', 'comments', 'eol_comments', 'namechars', 'nameguard', 'ignorecase',
               'left_recursion', 'parseinfo', 'memoization')


def rule_facts(r):
    decos = sorted({DECO_NORM[d] for d in (r.decorators or []) if d in DECO_NORM})
    return {
        'name': r.name,
        'params': [[type(p).__name__, p] for p in (r.params or ())],
        'kwparams': {str(k): [type(v).__name__, v] for k, v in (r.kwparams or {}).items()},
        'base': r.base or None,
        'decorators': decos,
        'is_name': bool(r.is_name), 'no_memo': bool(r.no_memo), 'no_stak': bool(r.no_stak),
        'is_tokn': bool(r.is_tokn), 'is_lrec': bool(r.is_lrec),
    }


REGEX_KEYS = ('whitespace', 'comments', 'eol_comments')


def norm_regex(v):
    """`\\/` and `/` are the same regex; the printers may write either."""
    if not isinstance(v, str):
        return v
    return re.sub(r'(?s)\\(.)', lambda m: '/' if m.group(1) == '/' else m.group(0), v)


def norm_directives(d):
    d = dict(d or {})
    d.pop('grammar', None)  # the name; compared separately
    return {k: [type(v).__name__, norm_regex(v) if k in REGEX_KEYS else v] for k, v in sorted(d.items())}


def model_facts(m):
    cfg = {}
    for k in CONFIG_KEYS:
        v = getattr(m.config, k, None)
        if k in REGEX_KEYS:
            v = norm_regex(v)
        cfg[k] = [type(v).__name__, v if isinstance(v, (str, int, bool, type(None))) else repr(v)]
    return {
        'directives': norm_directives(m.directives),
        'keywords': sorted(m.keywords or ()),
        'config': cfg,
        'rules': [rule_facts(r) for r in m.rules],
    }


def facts_diff(a, b):
    out = []
    for k in ('directives', 'keywords', 'config'):
        if a[k] != b[k]:
            if k == 'config':
                ks = [c for c in a[k] if a[k][c] != b[k].get(c)]
                out.append((f'meta-config-{"-".join(ks)}', f'config {ks}: {[a[k][c] for c in ks]} -> {[b[k].get(c) for c in ks]}'))
            else:
                out.append((f'meta-{k}', f'{k}: {a[k]!r} -> {b[k]!r}'))
    ra, rb = a['rules'], b['rules']
    if [r['name'] for r in ra] != [r['name'] for r in rb]:
        out.append(('meta-rule-names', f'rules {[r["name"] for r in ra]} -> {[r["name"] for r in rb]}'))
        return out
    for x, y in zip(ra, rb):
        for k in x:
            if x[k] != y[k]:
                out.append((f'meta-rule-{k}', f'rule {x["name"]}: {k} {x[k]!r} -> {y[k]!r}'))
    return out


def leaves(m):
    """(kind, text) of every Token / Pattern / Constant / Alert in rule order (diagnostics only)."""
    from tatsu import peg as g
    out = []

    def walk(n, depth=0):
        if depth > 200:
            return
        if isinstance(n, g.Alert):
            out.append(('alert', n.level, n.literal))
        elif isinstance(n, g.Constant):
            out.append(('constant', n.literal))
        elif isinstance(n, g.Token):
            out.append(('token', n.token))
        elif isinstance(n, g.Pattern):
            out.append(('pattern', n.pattern))
        elif isinstance(n, g.BasedRule):
            walk(n.exp, depth + 1)
            return
        for c in n.children():
            walk(c, depth + 1)

    for r in m.rules:
        walk(r)
    return out


# --------------------------------------------------------------------------- railroads (R5)
def check_rails(m):
    from tatsu import railroads
    from tatsu.util import unicode_display_len as ulen
    fails = []
    try:
        with deadline(20):
            txt = m.railroads()
        if not isinstance(txt, str):
            fails.append(('rail-not-text', f'railroads() returned {type(txt).__name__}'))
    except CaseTimeout:
        fails.append(('rail-timeout', 'railroads() did not complete in 20 s'))
    except AssertionError as e:
        fails.append(('rail-assert', f'railroads() AssertionError: {str(e)[:160]}'))
    except Exception as e:  # noqa: BLE001
        fails.append((f'rail-raises-{type(e).__name__}', f'railroads() raised {type(e).__name__}: {str(e)[:160]}'))
    for r in m.rules:
        try:
            with deadline(20):
                rails = railroads.tracks(r)
        except BaseException:  # noqa: BLE001  (already reported by the whole-model call)
            continue
        widths = sorted({ulen(x) for x in rails})
        if any(('\n' in x or '\r' in x) for x in rails):
            src = 'param' if any(isinstance(x, str) and '\n' in x for x in list(r.params or ()) + list((r.kwparams or {}).values())) else 'constant'
            fails.append((f'rail-linebreak-from-{src}', f'rule {r.name}: a rail contains a line break, the printed block has '
                          f'lines of different width: {[x for x in rails if chr(10) in x or chr(13) in x][:1]!r}'))
        elif len(widths) > 1:
            fails.append(('rail-width', f'rule {r.name}: rails of widths {widths}: {rails!r}'[:300]))
    return fails


# --------------------------------------------------------------------------- the round trip check
def roundtrip(m, inputs, *, start=None, rails=True, parse_kw=None, short_if_same=0):
    """-> (failures [(cls, detail, input|None)], facts)"""
    fails = []
    kw = dict(parse_kw or {})
    if start:
        kw['start'] = start
    try:
        with deadline(20):
            p = m.pretty()
    except CaseTimeout:
        return [('pretty-timeout', 'pretty() did not complete', None)], {}
    except Exception as e:  # noqa: BLE001
        return [(f'pretty-raises-{type(e).__name__}', f'pretty() raised {type(e).__name__}: {str(e)[:160]}', None)], {}
    if rails:
        fails += [(c, d, None) for c, d in check_rails(m)]
    m2, err = try_compile(p)
    if m2 is None:
        fails.append(('recompile', f'tatsu.compile(m.pretty()) fails: {err}; pretty text: {p!r}'[:600], None))
        return fails, {'pretty': p}
    try:
        p2 = m2.pretty()
    except Exception as e:  # noqa: BLE001
        p2 = f'<raises {type(e).__name__}>'
    if p2 != p:
        fails.append(('fixpoint', f'pretty(compile(pretty(m))) differs: {p!r} -> {p2!r}'[:600], None))
    try:
        fd = facts_diff(model_facts(m), model_facts(m2))
    except Exception as e:  # noqa: BLE001
        fd = [('meta-raises', f'{type(e).__name__}: {e}')]
    fails += [(c, d + f'; pretty text: {p!r}'[:300], None) for c, d in fd]
    hang = False
    ndiff = 0
    if short_if_same and not fails:
        try:
            if leaves(m) == leaves(m2):
                inputs = inputs[:short_if_same]  # same texts, same pretty text, same facts: a short battery is enough
        except Exception:  # noqa: BLE001
            pass
    for text in inputs:
        o1 = outcome(m, text, **kw)
        if o1[0] == 'timeout':
            hang = True
            break
        o2 = outcome(m2, text, **kw)
        if o2[0] == 'timeout':  # a loaded machine must not look like a disagreement: once more, with a long limit
            o2 = outcome(m2, text, timeout=30.0, **kw)
        if o1 != o2:
            ndiff += 1
            if ndiff <= 1:
                l1, l2 = leaves(m), leaves(m2)
                extra = f'; leaves {l1!r} -> {l2!r}' if l1 != l2 else ''
                fails.append(('parse', f'input {text!r}: original {show(o1)} / recompiled {show(o2)}; '
                              f'pretty text: {p!r}{extra}'[:700], text))
    return fails, {'pretty': p, 'hang': hang}


# --------------------------------------------------------------------------- batteries
BASE_SIGMA = ('a', 'b', ',', ' ')
_BASE_BATTERY = None


def base_battery():
    global _BASE_BATTERY
    if _BASE_BATTERY is None:
        b = [''] + list(strings(BASE_SIGMA, 2))
        b += ['aaa', 'aab', 'aba', 'baa', 'a a', 'a b', 'b a', 'a,a', 'a,b', 'b,a', ',a,', 'a,,', 'bab', 'bbb', 'a ,', ', a', ' a ',
              'a,a,a', 'a,a,b', 'a a a b', 'aaaa', 'a b a b', 'a\nb', 'a\n', '\na', 'a\n\nb', 'b\na', 'a,b,a', 'abab', 'a, a',
              'a,a,', ',a,a', 'b b b b', 'a,a,a,a', 'a a a a', 'x', 'x y', '1', '-1', '1.5', 'true', 'false', 'True',
              '1 2', 'a 1', 'ax', 'xa', 'a x', 'c', 'ac', 'a c', 'c a']
        _BASE_BATTERY = list(dict.fromkeys(b))
    return _BASE_BATTERY


def token_words(grammar_text):
    ws = re.findall(r"'([A-Za-z]{2,})'", grammar_text)
    ws = list(dict.fromkeys(ws))
    out = list(ws)
    out += [f'{x} {y}' for x in ws[:4] for y in ws[:4]]
    out += [' '.join(ws), ' '.join(ws[:3]), ','.join(ws[:3])]
    return out


def atom_battery(t):
    t = t if isinstance(t, str) else str(t)
    b = ['', t, t + t, t + ' ' + t, ' ' + t + ' ', t + 'a', 'a' + t, t[:-1], t[1:], t + '\n', 'a', 'a a', 'aa']
    b += list(ALPHA)
    b += [x + t for x in ALPHA] + [t + x for x in ALPHA]
    b += [x + y for x in ('a', '\\') for y in ALPHA]
    return list(dict.fromkeys(b))


# --------------------------------------------------------------------------- case generators
# structure: term kinds x contexts
KINDS = [
    ('tok-sq', "'a'"), ('tok-dq', '"a"'), ('tok-raw', "r'a'"), ('tok-ml', "'''a'''"),
    ('pat', '/a+/'), ('pat-q', '?"a+"'), ('pat-old', '?/a+/?'), ('pat-slash', r'/a\/?/'), ('pat-slash-q', '?"a/?"'),
    ('const', '`x`'), ('const-num', '`1`'), ('const-ml', '```x y```'), ('const-str', '`"x"`'), ('const-bool', '`True`'),
    ('alert1', '^`w`'), ('alert3', '^^^`w`'),
    ('meta-name', '@name'), ('meta-int', '@int'), ('meta-uint', '@uint'), ('meta-float', '@float'), ('meta-bool', '@bool'),
    ('call', 'r'), ('dot', '/./'), ('skipgroup', "(?:'a')"), ('group', "('a' 'b')"), ('group-choice', "('a' | 'b')"),
    ('eol', '$->'), ('eof', '$'), ('void', '()'), ('fail', '!()'), ('cut', '~'), ('cut-old', '>>'),
    ('closure', "{'a'}"), ('closure-star', "{'a'}*"), ('closure-atom', "'a'*"), ('pclosure', "{'a'}+"),
    ('pclosure-minus', "{'a'}-"), ('pclosure-atom', "'a'+"), ('empty-closure', '{}'),
    ('optional', "['a']"), ('optional-q', "'a'?"),
    ('lookahead', "&'a'"), ('neglookahead', "!'a'"), ('skipto', "->'b'"),
    ('gather', "','.{'a'}"), ('gather-star', "','.{'a'}*"), ('pgather', "','.{'a'}+"), ('pgather-minus', "','.{'a'}-"),
    ('join', "','%{'a'}"), ('join-star', "','%{'a'}*"), ('pjoin', "','%{'a'}+"), ('pjoin-minus', "','%{'a'}-"),
    ('leftjoin', "','<{'a'}+"), ('rightjoin', "','>{'a'}+"),
    ('named', "n:'a'"), ('named-eq', "n='a'"), ('namedlist', "n+:'a'"), ('namedlist-eq', "n+='a'"),
    ('override', "@:'a'"), ('override-eq', "='a'"), ('overridelist', "@+:'a'"), ('overridelist-eq', "+='a'"),
    ('include', '>r'),
    ('seq', "'a' 'b'"), ('seq-comma', "'a', 'b'"), ('choice', "'a' | 'b'"), ('choice-lead', "| 'a' | 'b'"),
    ('long-choice', "'aaaaaaaaaa' | 'bbbbbbbbbb' | 'cccccccccc' | 'dddddddddd' | 'eeeeeeeeee'"),
    ('long-seq', "'aaaaaaaaaa' 'bbbbbbbbbb' 'cccccccccc' 'dddddddddd' 'eeeeeeeeee' 'ffffffffff' 'gggggggggg'"),
    ('long-group', "('aaaaaaaaaa' 'bbbbbbbbbb' | 'cccccccccc' 'dddddddddd' | 'eeeeeeeeee' 'ffffffffff' | 'gggggggggg')"),
    ('const-ref', "n:'a' `{n}`"),
]
CONTEXTS = [
    ('plain', '{x}'), ('then-b', "{x} 'b'"), ('after-b', "'b' {x}"), ('or-b', "{x} | 'b'"), ('b-or', "'b' | {x}"),
    ('named', 'm:{x}'), ('namedlist', 'm+:{x}'), ('override', '@:{x}'), ('overridelist', '@+:{x}'),
    ('closure', '{{{x}}}'), ('pclosure', '{{{x}}}+'), ('optional', '[{x}]'), ('lookahead', '&{x}'),
    ('neglookahead', '!{x}'), ('skipto', '->{x}'), ('group', '({x})'), ('skipgroup', '(?:{x})'),
    ('gather-exp', "','.{{{x}}}"), ('gather-sep', "{x}.{{'a'}}"), ('pjoin-exp', "','%{{{x}}}+"), ('join-sep', "{x}%{{'a'}}"),
    ('atom-star', '{x}*'), ('atom-plus', '{x}+'), ('atom-opt', '{x}?'), ('leftjoin-exp', "','<{{{x}}}+"),
    ('rightjoin-sep', "{x}>{{'a'}}+"),
]
AUX = "r = 'a' | 'b' ;\n"


def structure_cases(tier, seed):
    cases = []
    for kname, kfrag in KINDS:
        for cname, cfmt in CONTEXTS:
            body = cfmt.format(x=kfrag)
            text = f"{AUX}start = {body} $ ;\n"
            cases.append(dict(group='structure', kind=kname, ctx=cname, via='text', text=text, start='start'))
    if tier == 'thorough':
        rng = random.Random(seed)
        pool = []
        for kname, kfrag in KINDS:
            for (c1, f1), (c2, f2) in itertools.product(CONTEXTS, CONTEXTS):
                pool.append((kname, kfrag, c1, f1, c2, f2))
        rng.shuffle(pool)
        for kname, kfrag, c1, f1, c2, f2 in pool[:6000]:
            body = f2.format(x=f1.format(x=kfrag))
            text = f"{AUX}start = {body} $ ;\n"
            cases.append(dict(group='structure2', kind=kname, ctx=f'{c1}>{c2}', via='text', text=text, start='start'))
    return cases


# rule headers, decorators, includes, based rules, directives: (label, grammar text, extra inputs, parse kwargs)
RULE_CASES = [
    ('param-name', "start(A) = 'a' $ ;"),
    ('param-brackets', "start[A] = 'a' $ ;"),
    ('param-colons', "start::A = 'a' $ ;"),
    ('param-path', "start[x::A] = 'a' $ ;"),
    ('params-mixed', "start(A, 'b c', 1, 2.5, true, None, b='x y', c=None, d=1, e=-2.5, f=False) = 'a' $ ;"),
    ('params-numbers', "start(1, -2, 2.5, True) = 'a' $ ;"),
    ('kwparams-only', "start(k=1, j='v') = 'a' $ ;"),
    ('param-quote', "start('it\\x27s') = 'a' $ ;"),
    ('param-dq', "start(\"q'q\") = 'a' $ ;"),
    ('define-colon', "start: 'a' $ ;"),
    ('define-bnf', "start ::= 'a' $ ;"),
    ('define-walrus', "start := 'a' $ ;"),
    ('endrule-blank', "start = 'a' b $\n\nb = 'b'\n"),
    ('deco-name', "start = n $ ;\n@name\nn = /[a-z]+/ ;"),
    ('deco-isname', "start = n $ ;\n@isname\nn = /[a-z]+/ ;"),
    ('deco-nomemo', "start = n $ ;\n@nomemo\nn = /[a-z]+/ ;"),
    ('deco-nostak', "start = n $ ;\n@nostak\nn = /[a-z]+/ ;"),
    ('deco-two', "start = n $ ;\n@name @nomemo\nn = /[a-z]+/ ;"),
    ('deco-override', "start = n $ ;\nn = 'a' ;\n@override\nn = 'b' ;"),
    ('deco-name-kw', "@@keyword :: a x\nstart = n $ ;\n@name\nn = /[a-z]+/ ;"),
    ('based', "b = 'a' ;\nstart < b = 'b' $ ;"),
    ('based-named', "b = x:'a' ;\nstart < b = y:'b' $ ;"),
    ('based-params', "b(A, k=1) = 'a' ;\nstart < b = 'b' $ ;"),
    ('based-own-params', "b = 'a' ;\nstart(B) < b = 'b' $ ;"),
    ('based-own-kwparams', "b(A) = 'a' ;\nstart(k=2) < b = 'b' $ ;"),
    ('based-chain', "b = 'a' ;\nc < b = ',' ;\nstart < c = 'b' $ ;"),
    ('include', "b = x:'a' | 'b' ;\nstart = >b 'b' $ ;"),
    ('include-in-choice', "b = x:'a' ;\nstart = 'b' | >b 'b' $ ;"),
    ('upper-rule', "start = T $ ;\nT = 'a' 'b' ;"),
    ('under-rule', "start = _t $ ;\n_t = 'a' ;"),
    ('leftrec', "start = e $ ;\ne = e ',' 'a' | 'a' ;"),
    ('leftrec-directive', "@@left_recursion :: True\nstart = e $ ;\ne = e ',' 'a' | 'a' ;"),
    ('no-leftrec-directive', "@@left_recursion :: False\nstart = e $ ;\ne = 'a' ',' e | 'a' ;"),
    ('grammar-name', "@@grammar :: Foo\nstart = 'a' $ ;"),
    ('nameguard-off', "@@nameguard :: False\nstart = 'a' 'b' $ ;"),
    ('nameguard-on', "@@nameguard :: True\nstart = 'a' 'b' $ ;"),
    ('nameguard-bare', "@@nameguard\nstart = 'a' 'b' $ ;"),
    ('ignorecase', "@@ignorecase :: True\nstart = 'a' /b/ $ ;"),
    ('ignorecase-off', "@@ignorecase :: False\nstart = 'a' $ ;"),
    ('ignorecase-kw', "@@ignorecase :: True\n@@keyword :: a\nstart = n $ ;\n@name\nn = /[a-zA-Z]+/ ;"),
    ('namechars', "@@namechars :: ','\nstart = 'a' ',' 'a' $ ;"),
    ('namechars-dash', "@@namechars :: '-_'\nstart = 'a' $ ;"),
    ('whitespace-re', "@@whitespace :: /[,]+/\nstart = 'a' 'b' $ ;"),
    ('whitespace-str', "@@whitespace :: ','\nstart = 'a' 'b' $ ;"),
    ('whitespace-slash', "@@whitespace :: ?\"[/,]+\"\nstart = 'a' 'b' $ ;"),
    ('whitespace-none', "@@whitespace :: None\nstart = 'a' 'b' $ ;"),
    ('whitespace-false', "@@whitespace :: False\nstart = 'a' 'b' $ ;"),
    ('comments', "@@comments :: /,[^,]*,/\nstart = 'a' 'b' $ ;"),
    ('comments-slash', "@@comments :: ?\"/[*].*?[*]/\"\nstart = 'a' 'b' $ ;"),
    ('eol-comments', "@@eol_comments :: /,.*?$/\nstart = 'a' 'b' $ ;"),
    ('eol-comments-slash', "@@eol_comments :: ?\"//.*?$\"\nstart = 'a' 'b' $ ;"),
    ('parseinfo', "@@parseinfo :: True\nstart = x:'a' y:b $ ;\nb = z:'b' ;"),
    ('parseinfo-off', "@@parseinfo :: False\nstart = x:'a' y:b $ ;\nb = z:'b' ;"),
    ('memoization-off', "@@memoization :: False\nstart = 'a' 'b' $ ;"),
    ('keywords', "@@keyword :: a b\n@@keyword :: x\nstart = n $ ;\n@name\nn = /[a-z]+/ ;"),
    ('keywords-paren', "@@keyword :: ('a' x)\nstart = n $ ;\n@name\nn = /[a-z]+/ ;"),
    ('keywords-str', "@@keyword :: 'a' \"b\"\nstart = n $ ;\n@name\nn = /[a-z]+/ ;"),
    ('keywords-after', "start = n $ ;\n@@keyword :: a\n@name\nn = /[a-z]+/ ;"),
    ('keywords-many', "@@keyword :: " + ' '.join(f'kw{i:02d}word' for i in range(24)) + " a\nstart = n $ ;\n@name\nn = /[a-z0-9]+/ ;"),
    ('all-directives', "@@grammar :: All\n@@whitespace :: /[ ,]+/\n@@comments :: /#[^#]*#/\n@@eol_comments :: /;.*?$/\n"
                       "@@namechars :: '-'\n@@ignorecase :: True\n@@nameguard :: True\n@@left_recursion :: True\n"
                       "@@parseinfo :: True\n@@keyword :: b\nstart = e $ ;\ne = e '-' n | n ;\n@name\nn = /[a-z]+/ ;"),
    ('comment-in-grammar', "(* c *)\nstart = 'a' (* d *) 'b' # e\n $ ;"),
    ('tokens-esc', "start = '\\n' | '\\t' | '\\\\' | '\\x41' | 'a\\x27b' | \"a\\x22b\" $ ;"),
    ('pattern-ml', "start = /(?x)\n a   # x\n b/ $ ;"),
    ('pattern-spaces', "start = / a/ | /a / $ ;"),
    ('pattern-nl', "start = /a\nb/ $ ;"),
    ('pattern-nl-slash', "start = /a\n\\/b/ | ?\"x/y\" | ?'x/\"y' $ ;"),
    ('constant-ml', "start = 'a' ```x\n  y``` $ ;"),
    ('constant-ml-ref', "start = n:'a' ```{n}\n{n}``` $ ;"),
    ('alert-ml', "start = 'a' ^^```x\n  y``` $ ;"),
]
RULE_EXTRA_INPUTS = ['A', 'AB', 'A B', 'a-b', 'a-a', 'a,a', 'a , a', 'a,b', 'a ,b', 'a,,b', 'a/b', 'a//b\n', 'a/*x*/b', 'a,x,b', 'a,x\nb',
                     'a#x#b', 'a ;x\n- b', 'a-a-a', 'A-a', 'kw03word', 'kw03word a', 'b', 'B', 'x', 'ab', 'a b', 'a  b', 'a\tb', 'a\nb',
                     ' a', 'a ', "a'b", 'a"b', '\n', '\t', '\\', 'A', "it's", 'a\nb', ' a', 'a,a,a', 'a , a , a']

ANTLR_CASES = [
    ('hello', "grammar T; start: 'a';"),
    ('tokens', "grammar T; start: INT ID; INT: [0-9]+; ID: 'a';"),
    ('alts', "grammar T; start: 'a' 'b' ('a' | 'b')* 'a'? | 'b'+ ;"),
    ('neg', "grammar T; start: ~'a' 'b' ;"),
    ('labels', "grammar T; start: x='a' y+='b' ;"),
    ('undefined-token', "grammar T; start: FOO 'a' ;"),
    ('tokens-block', "grammar T; tokens { INT } start: INT 'a';"),
    ('camel', "grammar T; startRule: otherRule 'b'; otherRule: 'a' ;"),
    ('quotes', "grammar T; start: '\\'' 'a' ;"),
    ('nested', "grammar T; start: ('a' ('b' | 'a' 'b')+)? 'a' ;"),
    ('empty-alt', "grammar T; start: 'a' | ;"),
    ('eof', "grammar T; start: 'a' EOF ;"),
]


def rule_cases():
    return [dict(group='rules', kind=label, ctx='', via='text', text=text, start=None) for label, text in RULE_CASES]


def antlr_cases():
    return [dict(group='antlr', kind=label, ctx='', via='antlr', text=text, start=None) for label, text in ANTLR_CASES]


def file_cases():
    out = []
    for label, path in (('tatsu-ebnf', _REPO + '/tatsu/_tatsu.ebnf'), ('calc-ebnf', _REPO + '/grammar/calc.ebnf'),
                        ('antlr-tatsu', _REPO + '/tatsu/g2e/antlr.tatsu'), ('calc-model', _REPO + '/grammar/calc_model.tatsu'),
                        ('calc-json', _REPO + '/grammar/calc.json'), ('tatsu-json', _REPO + '/grammar/tatsu.json')):
        if os.path.exists(path):
            out.append(dict(group='files', kind=label, ctx='', via='jsonfile' if path.endswith('.json') else 'file', text=path, start=None))
    return out


# atoms: every quoting form of the grammar syntax, the text spelled raw and spelled with escapes
ESC = {'\\': '\\\\', '\n': '\\n', "'": '\\x27', '"': '\\x22', '`': '\\x60', '/': '\\x2f'}


def esc(s):
    return ''.join(ESC.get(c, c) for c in s)


# (kind, form, template, spelling): main forms run to the full length bound, minor forms one shorter
TEXT_FORMS_MAIN = [
    ('token', 'sq', "start = '{s}' $ ;", 'raw'), ('token', 'dq', 'start = "{s}" $ ;', 'raw'),
    ('token', 'sq-esc', "start = '{s}' $ ;", 'esc'),
    ('pattern', 'slashes', 'start = /{s}/ $ ;', 'raw'), ('pattern', 'qdq', 'start = ?"{s}" $ ;', 'raw'),
    ('constant', 'bq', "start = 'a' `{s}` $ ;", 'raw'),
]
TEXT_FORMS_MINOR = [
    ('token', 'raw', "start = r'{s}' $ ;", 'raw'), ('token', 'ml', "start = \'\'\'{s}\'\'\' $ ;", 'raw'),
    ('token', 'mldq', 'start = """{s}""" $ ;', 'raw'), ('token', 'dq-esc', 'start = "{s}" $ ;', 'esc'),
    ('pattern', 'qsq', "start = ?'{s}' $ ;", 'raw'), ('pattern', 'old', 'start = ?/{s}/? $ ;', 'raw'),
    ('constant', 'bq3', "start = 'a' ```{s}``` $ ;", 'raw'), ('constant', 'bq-str', "start = 'a' `\"{s}\"` $ ;", 'esc'),
    ('alert', 'bq', "start = 'a' ^`{s}` $ ;", 'raw'), ('alert', 'bq3', "start = 'a' ^^```{s}``` $ ;", 'raw'),
    ('keyword', 'sq', "@@keyword :: '{s}'\nstart = n $ ;\n@name\nn = /[^\\s]+/ ;", 'raw'),
    ('keyword', 'sq-esc', "@@keyword :: '{s}'\nstart = n $ ;\n@name\nn = /[^\\s]+/ ;", 'esc'),
    ('keyword', 'word', "@@keyword :: {s}\nstart = n $ ;\n@name\nn = /[^\\s]+/ ;", 'raw'),
    ('namechars', 'sq', "@@namechars :: '{s}'\nstart = 'a' /.*/ $ ;", 'raw'),
    ('namechars', 'sq-esc', "@@namechars :: '{s}'\nstart = 'a' /.*/ $ ;", 'esc'),
    ('whitespace', 'slashes', "@@whitespace :: /{s}/\nstart = 'a' 'a' $ ;", 'raw'),
    ('whitespace', 'sq', "@@whitespace :: '{s}'\nstart = 'a' 'a' $ ;", 'raw'),
    ('whitespace', 'sq-esc', "@@whitespace :: '{s}'\nstart = 'a' 'a' $ ;", 'esc'),
    ('whitespace', 'qdq', "@@whitespace :: ?\"{s}\"\nstart = 'a' 'a' $ ;", 'raw'),
    ('comments', 'slashes', "@@comments :: /{s}/\nstart = 'a' 'a' $ ;", 'raw'),
    ('comments', 'qdq', "@@comments :: ?\"{s}\"\nstart = 'a' 'a' $ ;", 'raw'),
    ('comments', 'qsq', "@@comments :: ?'{s}'\nstart = 'a' 'a' $ ;", 'raw'),
    ('eol_comments', 'slashes', "@@eol_comments :: /{s}/\nstart = 'a' 'a' $ ;", 'raw'),
    ('eol_comments', 'qsq', "@@eol_comments :: ?'{s}'\nstart = 'a' 'a' $ ;", 'raw'),
    ('param', 'sq', "start('{s}') = 'a' $ ;", 'raw'), ('param', 'sq-esc', "start('{s}') = 'a' $ ;", 'esc'),
    ('kwparam', 'sq', "start(k='{s}') = 'a' $ ;", 'raw'), ('kwparam', 'sq-esc', "start(k='{s}') = 'a' $ ;", 'esc'),
]
WIDE_FORMS = [f for f in TEXT_FORMS_MAIN + TEXT_FORMS_MINOR if (f[0], f[1]) in
              {('token', 'sq'), ('pattern', 'slashes'), ('constant', 'bq'), ('alert', 'bq'), ('param', 'sq'), ('kwparam', 'sq'), ('keyword', 'sq')}]


ML_ALPHA = ('a', ' ', '\n')
ML_FORMS = [f for f in TEXT_FORMS_MAIN + TEXT_FORMS_MINOR if (f[0], f[1]) in
            {('constant', 'bq3'), ('alert', 'bq3'), ('pattern', 'slashes'), ('token', 'ml'), ('token', 'sq-esc')}]


def atom_cases(tier, seed):
    L = 4 if tier == 'thorough' else 3
    cases = []
    seen = set()

    def add(kind, form, fmt, spelling, s, group='atoms'):
        sp = esc(s) if spelling == 'esc' else s
        text = fmt.replace('{s}', sp)
        if text in seen:
            return
        seen.add(text)
        cases.append(dict(group=group, kind=kind, ctx=form, via='text', text=text, s=s, start=None))

    for kind, form, fmt, spelling in TEXT_FORMS_MAIN:
        for s in strings(ALPHA, L):
            add(kind, form, fmt, spelling, s)
    for kind, form, fmt, spelling in TEXT_FORMS_MINOR:
        for s in strings(ALPHA, L - 1):
            add(kind, form, fmt, spelling, s)
    for kind, form, fmt, spelling in WIDE_FORMS:
        for s in RAIL_EXTRA:
            add(kind, form + '-wide', fmt, spelling, s)
    # a wide / combining text on the LEFT of a taller element (closure, optional, choice, join): the rows that only the taller
    # element contributes are padded by the display width of what stands to their left
    for form, fmt in (('then-closure', "start = '{s}' {'a'}+ $ ;"), ('then-optional', "start = '{s}' ['a' 'b'] $ ;"),
                      ('then-choice', "start = '{s}' ('a' | 'b' 'c' | 'd') $ ;"), ('then-join', "start = '{s}' ','.{'a'}+ $ ;"),
                      ('in-choice-then-closure', "start = '{s}' {x}+ | 'q' [x] ;\nx = /[0-9]+/ ;")):
        for s in RAIL_EXTRA:
            if "'" not in s and '\\' not in s and '\n' not in s:
                add('token', 'sq-wide-' + form, fmt, 'raw', s)
    # texts that span lines: where the printers indent, trim and re-quote
    for kind, form, fmt, spelling in ML_FORMS:
        for s in strings(ML_ALPHA, L + 1):
            if '\n' in s:
                add(kind, form + '-lines', fmt, spelling, s)
    return cases


# --------------------------------------------------------------------------- one case
def empty_matching(rx):
    try:
        return re.compile(rx).match('') is not None
    except Exception:  # noqa: BLE001
        return None


def build_original(case):
    """-> (model | None, why_skipped)"""
    from tatsu.peg import Grammar
    via = case['via']
    try:
        if via == 'text':
            m, err = try_compile(case['text'])
            return m, err
        if via == 'file':
            m, err = try_compile(open(case['text'], encoding='utf-8').read())
            return m, err
        if via == 'jsonfile':
            with deadline(20):
                return Grammar.loads(open(case['text'], encoding='utf-8').read()), None
        if via == 'json':
            with deadline(20):
                return Grammar.load(json.loads(json.dumps(case['json']))), None
        if via == 'antlr':
            from tatsu import g2e
            with deadline(30):
                return g2e.translate(text=case['text'], name='T'), None
    except CaseTimeout:
        return None, 'timeout'
    except RecursionError:
        return None, 'RecursionError'
    except Exception as e:  # noqa: BLE001
        return None, f'{type(e).__name__}: {str(e)[:100]}'
    raise ValueError(via)


def inputs_for(case, m):
    g = case['group']
    if g in ('structure', 'structure2'):
        return base_battery() + token_words(case['text'])
    if g == 'rules':
        return list(dict.fromkeys(base_battery() + RULE_EXTRA_INPUTS + token_words(case['text'])))
    if g == 'antlr':
        return list(dict.fromkeys(base_battery() + ["'a", "' a", '1 a', '12 a', 'a a b', 'x b', 'ab', 'a ab']))
    if g == 'files':
        k = case['kind']
        if k.startswith('calc'):
            return ['1', '1+2', '1 + 2 * 3', '(1+2)*3', '1+', '', '2*(3-4)/5', 'x', '10 - 2 - 3', '((1))', '1 2']
        if k.startswith('tatsu'):
            texts = [t for _, t in RULE_CASES[::4]] + [AUX + f"start = {f} $ ;" for _, f in KINDS[::6]] + ['', 'start', 'start = ;']
            return texts
        return ['', "grammar T; start: 'a';", 'grammar T; a: b | c; b: \'x\'+; c: [a-z]* ;', 'x']
    if g == 'atoms':
        kind = case['kind']
        t = case['s']
        if kind in ('token', 'pattern', 'keyword'):
            # the model's own text may differ from the spelling: take both
            ls = [x[-1] for x in leaves(m) if isinstance(x[-1], str)]
            b = atom_battery(t)
            for x in ls + list(m.keywords or ()):
                if x != t:
                    b += atom_battery(x)[:12]
            return list(dict.fromkeys(b))
        if kind in ('constant', 'alert'):
            return ['a', 'a a', '', 'b']
        if kind == 'namechars':
            return ['a', 'a a', 'aa'] + ['a' + x for x in ALPHA] + ['a' + x + 'a' for x in ALPHA] + ['a' + t, 'a' + t + 'a']
        if kind in ('whitespace', 'comments', 'eol_comments'):
            ws = list(strings(ALPHA, 2)) + [t, t + t, ' ' + t, t + ' ', t + '\n']
            return ['aa', 'a a', 'a', 'a  a', 'a\na'] + ['a' + w + 'a' for w in ws] + [t + 'aa', 'aa' + t, t + 'a' + t + 'a' + t]
        return ['a', 'b', '']
    return base_battery()


def witness_of(case, inp=None):
    via = case['via']
    if via in ('text',):
        w = {'grammar': case['text']}
    elif via in ('file', 'jsonfile'):
        w = {'grammar_file': case['text']}
    elif via == 'json':
        w = {'python': f'tatsu.peg.Grammar.load({case["json"]!r})'}
    elif via == 'antlr':
        w = {'python': f'tatsu.g2e.translate(text={case["text"]!r}, name="T")'}
    else:
        w = {'case': repr(case)}
    if case.get('variant'):
        w['then'] = case['variant']
    if inp is not None:
        w['input'] = inp
    return w


MUST_BUILD = ('rules', 'antlr', 'files')
PLAIN_NOT_GRAMMAR = ('seq-comma',)  # `'a', 'b' $` is not a sequence; the comma form is reached inside brackets
SEVERITY = ('pretty', 'recompile', 'parse', 'meta', 'fixpoint')


def both_quotes(x):
    return isinstance(x, str) and "'" in x and '"' in x


def features(m):
    """what the model contains that the per-node printers treat specially -- used ONLY to name the finding
    class (so that one cause gets one slug whatever case exposed it); never to decide pass/fail."""
    from tatsu import peg as g
    from tatsu.util import trim
    f = set()

    def walk(n, depth=0):
        if depth > 200:
            return
        if isinstance(n, g.EOL):
            f.add('eol')
        elif isinstance(n, g.Constant):
            lit = n.literal
            if isinstance(lit, str):
                if '`' in lit:
                    f.add('constant-with-backquote')
                if '\n' in lit:
                    f.add('constant-with-newline')
                if ('`' not in lit and '\n' not in lit) and (lit[:1] in ('"', "'") or not lit):
                    f.add('constant-quoted-or-empty')
        elif isinstance(n, g.Token):
            if both_quotes(n.token):
                f.add('string-with-both-quotes')
        elif isinstance(n, g.Pattern):
            pat = n.pattern or ''
            if not pat:
                f.add('pattern-empty')
            elif trim(pat) != pat:
                f.add('pattern-trimmed')
            elif '\n' in pat:
                f.add('pattern-multiline')
            if '/' in pat and '"' in pat:
                f.add('pattern-with-slash-and-dquote')
        for c in n.children():
            walk(c, depth + 1)

    for r in m.rules:
        if isinstance(r, g.BasedRule) and (r.params or r.kwparams):
            f.add('based-rule-with-params')
        for d in r.decorators or ():
            if d in ('nomemo', 'nostak'):
                f.add(f'decorator-{d}')
        if any(both_quotes(x) for x in list(r.params or ()) + list((r.kwparams or {}).values())):
            f.add('string-with-both-quotes')
        walk(r)
    d = m.directives or {}
    if 'whitespace' in d and not d['whitespace']:
        f.add('whitespace-off')
    for k in ('whitespace', 'comments', 'eol_comments'):
        v = d.get(k)
        if isinstance(v, str) and '/' in v and ('"' in v or '\n' in v):
            f.add('directive-regex-with-slash-and-dquote')
    if both_quotes(d.get('namechars')) or any(both_quotes(k) for k in m.keywords or ()):
        f.add('string-with-both-quotes')
    return f


def classify(case, check, feats):
    """finding class slug = what the model contains (features) or, without any, what the case exercises;
    then the check that failed."""
    what = '+'.join(sorted(feats)) if feats else (case['kind'] if case['group'].startswith('structure') else f'{case["group"]}-{case["kind"]}')
    return f'{what}/{check}'


def severity(cls):
    head = cls.split('-')[0]
    return SEVERITY.index(head) if head in SEVERITY else len(SEVERITY)


def run_case(case):
    """-> dict(status, fails=[(cls, detail, witness)], key)"""
    t0 = time.time()
    res = dict(status='ok', fails=[], key=None, group=case['group'], kind=case['kind'], via=case['via'], n_inputs=0, variants=0)
    m, why = build_original(case)
    if m is None:
        if case['group'] in MUST_BUILD or (case['group'] == 'structure' and case['ctx'] == 'plain' and case['kind'] not in PLAIN_NOT_GRAMMAR):
            # these are grammars the pinned tree accepts: a run that silently skipped them would be vacuous
            res['status'] = 'fail'
            res['fails'].append((f'{case["group"]}-{case["kind"]}/original-model-not-built', f'the model could not be built: {why}', witness_of(case)))
            return res
        res['status'] = 'skip'
        res['why'] = why
        return res
    if case['group'] == 'atoms' and case['kind'] in ('whitespace', 'comments', 'eol_comments'):
        v = m.directives.get(case['kind'])
        if not isinstance(v, str) or not v or empty_matching(v) is not False:
            res['status'] = 'skip'
            res['why'] = 'pattern matches the empty string / not a regex (outside the domain: D29)'
            return res
    variants = [(None, m)]
    if case['group'] != 'atoms' or len(case.get('s', '')) <= 2:
        # the same model loaded from its own JSON, and its optimized() form: models "however obtained"
        try:
            from tatsu.peg import Grammar
            with deadline(20):
                mj = Grammar.load(json.loads(json.dumps(m.asjson())))
            variants.append(('m = tatsu.peg.Grammar.load(json.loads(json.dumps(m.asjson())))', mj))
        except BaseException:  # noqa: BLE001   (C14's business)
            pass
    if case['group'] in ('structure', 'rules', 'antlr', 'files'):
        try:
            with deadline(20):
                mo = m.optimized()
            if mo is not m:
                variants.append(('m = m.optimized()', mo))
        except BaseException:  # noqa: BLE001
            pass
    keys = []
    seen_pretty = set()
    for vname, vm in variants:
        if vname:
            # a variant whose pretty text equals an already checked one recompiles to the very same model
            try:
                with deadline(20):
                    if vm.pretty() in seen_pretty:
                        continue
            except BaseException:  # noqa: BLE001  (reported by roundtrip below)
                pass
        try:
            inputs = inputs_for(case, vm)
        except Exception:  # noqa: BLE001
            inputs = base_battery()
        c = dict(case)
        c['variant'] = vname
        fails, facts = roundtrip(vm, inputs, start=case.get('start'), rails=True, short_if_same=12 if case['group'] == 'atoms' else 0)
        p = facts.get('pretty')
        seen_pretty.add(p)
        res['n_inputs'] += len(inputs)
        res['variants'] += 1
        if facts.get('hang'):
            res['hang'] = True
        keys.append(p)
        try:
            feats = features(vm)
        except Exception:  # noqa: BLE001
            feats = set()
        rail = [f for f in fails if f[0].startswith('rail-')]
        other = sorted((f for f in fails if not f[0].startswith('rail-')), key=lambda f: severity(f[0]))
        # one report per (case, variant): the most severe check that failed, plus the railroad checks
        for cls, detail, inp in other[:1] + rail:
            slug = f'railroads/{cls}' if cls.startswith('rail-') else classify(c, cls, feats)
            if vname and any(f[0] == slug for f in res['fails']):
                continue  # same finding already reported for the plain model
            res['fails'].append((slug, detail, witness_of(c, inp)))
    res['key'] = keys[0] if keys else None
    if res['fails']:
        res['status'] = 'fail'
    res['secs'] = time.time() - t0
    return res


def _work(chunk):
    sys.setrecursionlimit(max(sys.getrecursionlimit(), 3000))
    out = []
    for case in chunk:
        try:
            out.append(run_case(case))
        except CaseTimeout:
            out.append(dict(status='skip', why='case timeout', fails=[], key=None, group=case['group'], kind=case['kind'],
                            via=case['via'], n_inputs=0, variants=0))
        except Exception as e:  # noqa: BLE001
            out.append(dict(status='fail', key=None, group=case['group'], kind=case['kind'], via=case['via'], n_inputs=0, variants=0,
                            fails=[(f'harness-error/{type(e).__name__}', f'{type(e).__name__}: {e}', witness_of(case))]))
    return out


# --------------------------------------------------------------------------- driver
GROUP_DOC = {
    'structure': ('term kinds x contexts', 'every production of term/atom/named/override/closure/join/gather/lookahead/skip-to in '
                  f'_tatsu.ebnf ({len(KINDS)} kinds) placed in {len(CONTEXTS)} contexts; each model also via JSON reload and optimized(); '
                  'inputs: all strings <= 2 over {a,b,",",space} + 70 fixed ones (longer, with line breaks, numbers, booleans, other letters) + the grammar\'s own words'),
    'structure2': ('term kinds x context x context (seeded sample)', 'as structure, contexts nested two deep, 6000 sampled by seed'),
    'rules': ('rule headers, decorators, based rules, includes, directives, keywords',
              f'{len(RULE_CASES)} grammars: params/kwparams of every literal type, all definition operators, @name/@isname/@nomemo/'
              '@nostak/@override, `<` based rules, `>` includes, every @@directive and @@keyword form; inputs chosen so that every '
              'directive changes the outcome of at least one input'),
    'antlr': ('models built by the ANTLR translator', f'{len(ANTLR_CASES)} ANTLR grammars through tatsu.g2e.translate'),
    'files': ('grammars shipped with the project', 'tatsu/_tatsu.ebnf, grammar/calc.ebnf, g2e/antlr.tatsu, grammar/*.json'),
    'atoms': ('token / pattern / constant / alert / keyword / directive / parameter texts',
              'texts = all strings over {a,\',",\\,/,`,newline,{,}} spelled raw, and spelled with escapes, inside every quoting form '
              'of the grammar syntax (\'..\' ".." r\'..\' \'\'\'..\'\'\' /../ ?".." ?\'..\' ?/../? `..` ```..``` ^`..` @@keyword '
              '@@namechars @@whitespace @@comments @@eol_comments rule params/kwparams); only models the original compile accepts; '
              'plus 7 wide / combining / drawing-glyph texts for the railroad widths, plus all texts with a line break over {a,space,newline} one longer than the bound '
              'as ```constant```, ^```alert```, /pattern/, \'\'\'token\'\'\' and escaped token; inputs: the text itself, doubled, '
              'with every alphabet character before / after it, every alphabet character, pairs'),
}


def run(tier='quick', seed=0, info=None):
    t0 = time.time()
    cases = []
    cases += rule_cases() + antlr_cases() + file_cases()
    cases += structure_cases(tier, seed)
    cases += atom_cases(tier, seed)
    only = os.environ.get('VERIF_C13_GROUPS')
    if only:  # development aid: restrict to some case groups
        cases = [c for c in cases if c['group'] in only.split(',')]
    rng = random.Random(1234)
    order = list(range(len(cases)))
    rng.shuffle(order)  # spread slow cases over the workers
    shuffled = [cases[i] for i in order]
    results = [None] * len(cases)
    chunks = chunked(shuffled, JOBS * 8)
    flat = [r for part in pmap(_work, chunks) for r in part]
    for i, r in zip(order, flat):
        results[i] = r

    items = []
    by_group = {}
    for case, r in zip(cases, results):
        by_group.setdefault(case['group'], []).append((case, r))
    for group, rows in by_group.items():
        title, domain = GROUP_DOC[group]
        evaluated = [(c, r) for c, r in rows if r['status'] != 'skip']
        keys = {(r['via'], r['key']) for c, r in evaluated if r['key']}
        failures = []
        for c, r in evaluated:
            for cls, detail, wit in r['fails']:
                failures.append({'witness': wit, 'detail': detail, 'cls': cls})
        samples = [witness_of(c) for c, r in evaluated[:3]]
        bound = {'quick': 'texts <= 3 (main quoting forms) / <= 2 (other forms)', 'thorough': 'texts <= 4 / <= 3'}[tier] \
            if group == 'atoms' else f'{len(rows)} grammars'
        note = f'bounded: {title}; {len(rows) - len(evaluated)} of {len(rows)} generated cases skipped (original not buildable / out of domain)' \
               f'; {sum(r["n_inputs"] for c, r in evaluated)} parses compared; {sum(1 for c, r in evaluated if r.get("hang"))} cases cut short by a hang of the original'
        items += bitem(PROP, f'roundtrip-{group}', function='Model.pretty / tatsu.compile / Model.railroads',
                       domain=domain, bound=bound, cases=len(evaluated), distinct_nontrivial=len(keys),
                       rule='a case counts when its original model could be built; distinct = distinct (source kind, pretty text)',
                       exhaustive=(group in ('atoms', 'structure', 'rules', 'antlr', 'files')), samples=samples,
                       failures=failures, note=note)
    if info is not None:
        for it in items:
            info.setdefault('bounded', []).append({k: it.extra.get(k) for k in ('function', 'domain', 'bound', 'cases')})
    run.last_wall = time.time() - t0
    return items


def main(argv=None):
    argv = list(sys.argv[1:] if argv is None else argv)
    tier = argv[0] if argv else 'quick'
    seed = int(argv[1]) if len(argv) > 1 else 0
    t0 = time.time()
    items = run(tier, seed, {})
    for it in items:
        print(f'{it.status:8} {it.id}  cases={it.extra.get("cases")} nontrivial={it.extra.get("distinct_nontrivial")}'
              + (f' failing={it.extra.get("failing_cases")}' if it.status == 'refuted' else ''))
        if it.status == 'refuted':
            print(f'    witness: {it.witness!r}'[:500])
            print(f'    {it.detail}'[:500])
    print(f'{PROP} bounded [{tier}]: {len(items)} items, {sum(i.status == "refuted" for i in items)} refuted, '
          f'{time.time() - t0:.1f}s')
    return 0


if __name__ == '__main__':
    sys.exit(main())
