"""C03 (bounded, API level): left-recursive rules parse, terminate and associate to the left.

    PYTHONPATH=/verif /verif/.venv/bin/python -m bounded.bC03 quick|thorough [seed]

Domain: SCHEMAS (layered expression grammars: direct, aliased, chains of aliases, mutual, nullable NON-call
prefixes before the recursive call -- optional, closure, void, positive and negative lookahead --, named, two
and three operator levels, mixed with right recursion, unary prefix and postfix operators, parenthesised atoms,
application `e '(' e ')'`, `e '+' e`, recursion inside a group, inside a closure of the caller, with blanks) x
every start rule of interest x ALL strings over the schema's token alphabet up to the length bound.

Per case (schema, start, input), on the real code:

1. termination: every parse runs under an interval timer (no hang) and must not end in RecursionError;
2. the in-memory model (`tatsu.compile(text).parse(s, start=..)`) equals, in acceptance, consumed length
   (observed through `top_ = <start> $`) and AST,
   a. the per-schema REFERENCE (`ref_*`: tokens + precedence climbing / regex + explicit left fold, written
      without any PEG machinery), which states the longest-prefix semantics and the LEFT-leaning tree for the
      left-recursive operators (right-leaning where the grammar recurses on the right);
   b. the documented-semantics oracle `specpeg` extended with the documented seed growing ("growing the
      recursion seed until it stops advancing", only the hand-listed leader rules hold a seed);
3. the parser generated from the same text (exec'ed source) equals the model;
4. the rules marked left recursive by the analysis are the hand-listed leaders of the schema.

The references (a) and (b) are also compared with EACH OTHER on every case: a disagreement there is reported as
class `reference-self-check` (a defect of this check, not of TatSu).
"""
from __future__ import annotations

import json
import re
import signal
import sys
import time

import tatsu  # noqa: F401  (imported before forking)
import tatsu.exceptions

from bounded import grammars as G
from bounded import specpeg as S
from bounded.bC02 import canon, load_generated, outcome, same_outcome
from bounded.common import JOBS, Budget, bitem, chunked, pmap

PROP = 'C03'
FUNCTION = ('tatsu.compile(g).parse / generated parser .parse on left-recursive grammars '
            '(ParserEngine.recursive_call / save_result / rule_call guards, leftrec.pegen.mark_left_recursion)')
RULE = ('a case is (schema, start rule, input); distinct non-trivial = cases in which the reference consumes at '
        'least one operator of a left-recursive rule (the seed was grown at least once), plus the cases rejected by '
        'the `$`-terminated start although a prefix parses (longest-prefix decision)')
TOP = 'top_'
PARSE_SECONDS = 3.0


# --------------------------------------------------------------------------------------------------
# the documented-semantics oracle with seed growing
# --------------------------------------------------------------------------------------------------

class LREvaluator(S._Evaluator):  # noqa: SLF001
    """specpeg + Appendix C `call`: "Left-recursive rules: seed growing from Fail until the end position stops
    increasing".  Only the rules in `leaders` hold a seed; every other rule is evaluated plainly."""

    def __init__(self, desc, text, leaders=(), **config):
        super().__init__(desc, text, **config)
        self.leaders = frozenset(leaders)
        self.seeds = {}

    def call(self, name, pos):
        if name not in self.leaders:
            # (rule, pos) may legitimately be re-entered through a leader: no `active` bookkeeping
            self.active.discard((name, pos if name[:1].isupper() else self.ws(pos)))
            return super().call(name, pos)
        p = pos if name[:1].isupper() else self.ws(pos)
        key = (name, p)
        if key in self.seeds:
            return self.seeds[key]
        self.seeds[key] = None
        result, last = None, -1
        try:
            while True:
                self.active.discard(key)
                r = super().call(name, pos)
                if r is None or r[1] <= last:
                    break
                result, last = r, r[1]
                self.seeds[key] = r
        finally:
            del self.seeds[key]
            self.active.discard(key)
        return result


def oracle(desc, leaders, text, start):
    ev = LREvaluator(desc, text, leaders=leaders)
    try:
        return S._outcome(ev, start)  # noqa: SLF001
    except S.Unsupported as e:
        return S.Unspecified(f'unsupported: {e}')


# --------------------------------------------------------------------------------------------------
# per-schema references: plain recursive descent over characters; a result is (tree, end) or None
# --------------------------------------------------------------------------------------------------

def _n(s, p):
    return ('n', p + 1) if p < len(s) and s[p] == 'n' else None


def _bin(left, op, right):
    return [left, op, right]


def _named(left, op, right):
    return {'l': left, 'op': op, 'r': right}


def chain_left(s, p, operand, ops, mk=_bin):
    """operand (op operand)* folded to the LEFT; an operator whose right operand is missing is not consumed"""
    r = operand(s, p)
    if r is None:
        return None
    v, p = r
    while p < len(s) and s[p] in ops:
        r = operand(s, p + 1)
        if r is None:
            break
        v, p = mk(v, s[p], r[0]), r[1]
    return v, p


def chain_right(s, p, operand, op):
    """operand [op <the same>]: right leaning"""
    r = operand(s, p)
    if r is None:
        return None
    v, q = r
    if q < len(s) and s[q] == op:
        r2 = chain_right(s, q + 1, operand, op)
        if r2 is not None:
            return [v, op, r2[0]], r2[1]
    return v, q


def ref_direct(start, s, ops='+', mk=_bin):
    return chain_left(s, 0, _n, ops, mk)


def ref_no_bang(start, s, mk=_bin):
    """`['!'] e '+' t | t` and `{'!'} e '+' t | t`: after a consumed '!' the inner e is maximal, so the '+' t
    that must follow it can never match; with no '!' it is the direct schema (the closure that matched nothing
    still contributes its empty list as an item: "the AST returned for a closure is always a list")"""
    return None if s[:1] == '!' else ref_direct(start, s, '+', mk)


def ref_named(start, s):
    return chain_left(s, 0, _n, '+', _named)


def ref_named_override(start, s):
    return chain_left(s, 0, _n, '+', lambda l, _op, r: {'l': l, 'r': r})


def ref_two_levels(start, s, eops='+'):
    def t(s, p):
        return chain_left(s, p, _n, '*')

    if start == 't':
        return t(s, 0)
    return chain_left(s, 0, t, eops)


def ref_three_levels(start, s):
    def f(s, p):
        return chain_left(s, p, _n, '^')

    def t(s, p):
        return chain_left(s, p, f, '*')

    return {'f': f, 't': t}.get(start, lambda s, p: chain_left(s, p, t, '+'))(s, 0)


def ref_mixed_right(start, s):
    def t(s, p):
        return chain_right(s, p, _n, '^')

    if start == 't':
        return t(s, 0)
    return chain_left(s, 0, t, '+')


def ref_unary(start, s):
    def u(s, p):
        if p < len(s) and s[p] == '-':
            r = u(s, p + 1)
            return None if r is None else (['-', r[0]], r[1])
        return _n(s, p)

    if start == 'u':
        return u(s, 0)
    return chain_left(s, 0, u, '+')


def ref_parens(start, s):
    def e(s, p):
        return chain_left(s, p, t, '+')

    def t(s, p):
        if p < len(s) and s[p] == '(':
            r = e(s, p + 1)
            if r is not None and r[1] < len(s) and s[r[1]] == ')':
                return ['(', r[0], ')'], r[1] + 1
            return None
        return _n(s, p)

    return (t if start == 't' else e)(s, 0)


def ref_full(start, s):
    def e(s, p):
        return chain_left(s, p, t, '+')

    def t(s, p):
        return chain_left(s, p, u, '*')

    def u(s, p):
        if p < len(s) and s[p] == '-':
            r = u(s, p + 1)
            return None if r is None else (['-', r[0]], r[1])
        return a(s, p)

    def a(s, p):
        if p < len(s) and s[p] == '(':
            r = e(s, p + 1)
            if r is not None and r[1] < len(s) and s[r[1]] == ')':
                return ['(', r[0], ')'], r[1] + 1
            return None
        return _n(s, p)

    return {'e': e, 't': t, 'u': u, 'a': a}[start](s, 0)


def ref_postfix(start, s):
    r = _n(s, 0)
    if r is None:
        return None
    v, p = r
    while p < len(s) and s[p] == '!':
        v, p = [v, '!'], p + 1
    return v, p


def ref_self_and_mutual(start, s):
    """p = p '!' | a ; a = p '.' n | n  (leader p: it lies on the self cycle and on the cycle through a):
    n followed by any sequence of '!' and '.n', folded to the left"""
    r = _n(s, 0)
    if r is None:
        return None
    v, p = r
    while p < len(s):
        if s[p] == '!':
            v, p = [v, '!'], p + 1
        elif s[p] == '.' and s[p + 1:p + 2] == 'n':
            v, p = [v, '.', 'n'], p + 2
        else:
            break
    return v, p


def ref_binary_and_postfix(start, s):
    r = _n(s, 0)
    if r is None:
        return None
    v, p = r
    while p < len(s):
        if s[p] == '+' and _n(s, p + 1):
            v, p = [v, '+', 'n'], p + 2
        elif s[p] == '!':
            v, p = [v, '!'], p + 1
        else:
            break
    return v, p


def ref_application(start, s):
    def e(s, p):
        r = _n(s, p)
        if r is None:
            return None
        v, p = r
        while p < len(s) and s[p] == '(':
            r = e(s, p + 1)
            if r is None or r[1] >= len(s) or s[r[1]] != ')':
                break
            v, p = [v, '(', r[0], ')'], r[1] + 1
        return v, p

    return e(s, 0)


def ref_both_sides(start, s):
    """e = e '+' e | n: the right operand is a complete e, so the tree leans to the RIGHT"""
    return chain_right(s, 0, _n, '+')


def ref_mutual(start, s):
    """a = b '+' t | t ; b = a '*' t | t (leader a).
    a: the seed is n or n+n, each growth step appends '*n+n':   n(+n)?(*n+n)*  folded to the left;
    b: option 1 is `A '*' t` with A the complete a at the same position, option 2 is t"""
    m = re.match(r'n(\+n)?((?:\*n\+n)*)', s)
    if not m:
        return None
    v = ['n', '+', 'n'] if m.group(1) else 'n'
    for _ in range(len(m.group(2)) // 4):
        v = [[v, '*', 'n'], '+', 'n']
    A = (v, m.end())
    if start == 'a':
        return A
    if s[A[1]:A[1] + 2] == '*n':
        return [A[0], '*', 'n'], A[1] + 2
    return 'n', 1


def ref_group(start, s):
    return chain_left(s, 0, _n, '+-')


def ref_in_closure(start, s):
    """s = {e ';'} ; e = e '+' t | t"""
    if start == 'e':
        return ref_direct(start, s)
    out, p = [], 0
    while True:
        r = chain_left(s, p, _n, '+')
        if r is None or r[1] >= len(s) or s[r[1]] != ';':
            break
        out.append([r[0], ';'])
        p = r[1] + 1
    return out, p


def ref_retried(start, s):
    """r = e '<' e | e '>' e | e ; e = e '+' t | t: the left-recursive rule is invoked again at the SAME position by every
    alternative of its caller (after backtracking): each time it has to give the grown result"""
    if start == 'e':
        return ref_direct(start, s)
    left = chain_left(s, 0, _n, '+')
    if left is None:
        return None
    v, p = left
    for op in '<>':
        if p < len(s) and s[p] == op:
            right = chain_left(s, p + 1, _n, '+')
            if right is not None:
                return [v, op, right[0]], right[1]
    return v, p


def ref_blanks(start, s):
    """e = e '+' t | t ; t = /n/ with blanks: skipped before '+' and at the entry of t (lower case)"""
    def ws(p):
        while p < len(s) and s[p] == ' ':
            p += 1
        return p

    def t(s, p):
        return _n(s, ws(p))

    r = t(s, 0)
    if r is None:
        return None
    v, p = r
    while True:
        q = ws(p)
        if q < len(s) and s[q] == '+':
            r = t(s, q + 1)
            if r is None:
                break
            v, p = [v, '+', r[0]], r[1]
        else:
            break
    return v, p


def ref_blanks_token_rule(start, s):
    """e = e '+' T | T ; T = /n/ : blanks are skipped at the entry of e (lower case) and before '+', not at the
    entry of the upper-case rule"""
    r = _n(s, len(s) - len(s.lstrip(' ')))
    if r is None:
        return None
    v, p = r
    while True:
        q = p
        while q < len(s) and s[q] == ' ':
            q += 1
        if q < len(s) and s[q] == '+' and _n(s, q + 1):
            v, p = [v, '+', 'n'], q + 2
        else:
            break
    return v, p


# --------------------------------------------------------------------------------------------------
# schemas
# --------------------------------------------------------------------------------------------------

def T(x):
    return ('tok', x)


N = ('pat', 'n')


def C(x):
    return ('call', x)


def seq(*xs):
    return ('seq', tuple(xs))


def ch(*xs):
    return ('choice', tuple(xs))


def _lr(name, op, operand, *more):
    return (name, ch(seq(C(name), T(op), C(operand)), *more, C(operand)))


# (name, description, leaders, starts, alphabet, reference)
SCHEMAS = (
    ('direct', (_lr('e', '+', 't'), ('t', N)), {'e'}, ('e',), 'n+', ref_direct),
    ('direct-two-operators', (('e', ch(seq(C('e'), T('+'), C('t')), seq(C('e'), T('-'), C('t')), C('t'))), ('t', N)),
     {'e'}, ('e',), 'n+-', lambda st, s: ref_direct(st, s, '+-')),
    ('aliased', (('x', C('e')), ('e', ch(seq(C('x'), T('+'), C('t')), C('t'))), ('t', N)), {'e'}, ('e', 'x'), 'n+', ref_direct),
    ('aliased-chain', (('e', ch(seq(C('x'), T('+'), C('t')), C('t'))), ('x', C('y')), ('y', C('e')), ('t', N)),
     {'e'}, ('e', 'x', 'y'), 'n+', ref_direct),
    ('mutual', (('a', ch(seq(C('b'), T('+'), C('t')), C('t'))), ('b', ch(seq(C('a'), T('*'), C('t')), C('t'))), ('t', N)),
     {'a'}, ('a', 'b'), 'n+*', ref_mutual),
    ('optional-prefix', (('e', ch(seq(('opt', T('!')), C('e'), T('+'), C('t')), C('t'))), ('t', N)), {'e'}, ('e',), 'n+!',
     ref_no_bang),
    ('closure-prefix', (('e', ch(seq(('closure', T('!')), C('e'), T('+'), C('t')), C('t'))), ('t', N)), {'e'}, ('e',), 'n+!',
     lambda st, s: ref_no_bang(st, s, lambda l, op, r: [[], l, op, r])),
    ('void-prefix', (('e', ch(seq(('void',), C('e'), T('+'), C('t')), C('t'))), ('t', N)), {'e'}, ('e',), 'n+', ref_direct),
    ('lookahead-prefix', (('e', ch(seq(('la', C('x')), C('e'), T('+'), C('t')), C('t'))), ('t', N), ('x', N)), {'e'}, ('e',),
     'n+', ref_direct),
    ('negative-lookahead-prefix', (('e', ch(seq(('nla', C('y')), C('e'), T('+'), C('t')), C('t'))), ('t', N), ('y', T('+'))),
     {'e'}, ('e',), 'n+', ref_direct),
    ('named', (('e', ch(seq(('named', 'l', C('e')), ('named', 'op', T('+')), ('named', 'r', C('t'))), C('t'))), ('t', N)),
     {'e'}, ('e',), 'n+', ref_named),
    ('named-override', (('e', ch(seq(('named', 'l', C('e')), T('+'), ('named', 'r', C('t'))), ('override', C('t')))), ('t', N)),
     {'e'}, ('e',), 'n+', ref_named_override),
    ('two-levels', (_lr('e', '+', 't'), _lr('t', '*', 'f'), ('f', N)), {'e', 't'}, ('e', 't'), 'n+*', ref_two_levels),
    ('two-levels-two-operators',
     (('e', ch(seq(C('e'), T('+'), C('t')), seq(C('e'), T('-'), C('t')), C('t'))), _lr('t', '*', 'f'), ('f', N)),
     {'e', 't'}, ('e',), 'n+-*', lambda st, s: ref_two_levels(st, s, '+-')),
    ('three-levels', (_lr('e', '+', 't'), _lr('t', '*', 'f'), _lr('f', '^', 'a'), ('a', N)), {'e', 't', 'f'}, ('e', 't', 'f'),
     'n+*^', ref_three_levels),
    ('mixed-right-recursion', (_lr('e', '+', 't'), ('t', ch(seq(C('f'), T('^'), C('t')), C('f'))), ('f', N)), {'e'}, ('e', 't'),
     'n+^', ref_mixed_right),
    ('unary-prefix', (_lr('e', '+', 'u'), ('u', ch(seq(T('-'), C('u')), C('a'))), ('a', N)), {'e'}, ('e', 'u'), 'n+-', ref_unary),
    ('parenthesised', (_lr('e', '+', 't'), ('t', ch(seq(T('('), C('e'), T(')')), N))), {'e'}, ('e', 't'), 'n+()', ref_parens),
    ('full', (_lr('e', '+', 't'), _lr('t', '*', 'u'), ('u', ch(seq(T('-'), C('u')), C('a'))),
              ('a', ch(seq(T('('), C('e'), T(')')), N))), {'e', 't'}, ('e',), 'n+*-()', ref_full),
    ('postfix', (('e', ch(seq(C('e'), T('!')), C('a'))), ('a', N)), {'e'}, ('e',), 'n!', ref_postfix),
    ('binary-and-postfix', (('e', ch(seq(C('e'), T('+'), C('t')), seq(C('e'), T('!')), C('t'))), ('t', N)), {'e'}, ('e',), 'n+!',
     ref_binary_and_postfix),
    # a directly left-recursive rule inside a larger mutually recursive component; the rule names are chosen so that the
    # self-recursive member is NOT the alphabetically smallest one of the component
    ('self-and-mutual', (('p', ch(seq(C('p'), T('!')), C('a'))), ('a', ch(seq(C('p'), T('.'), N), N))), {'p'}, ('p',), 'n!.',
     ref_self_and_mutual),
    ('application', (('e', ch(seq(C('e'), T('('), C('e'), T(')')), N)),), {'e'}, ('e',), 'n()', ref_application),
    ('both-sides', (('e', ch(seq(C('e'), T('+'), C('e')), N)),), {'e'}, ('e',), 'n+', ref_both_sides),
    ('recursion-in-group', (('e', ch(seq(('group', ch(seq(C('e'), T('+')), seq(C('e'), T('-')))), C('t')), C('t'))), ('t', N)),
     {'e'}, ('e',), 'n+-', ref_group),
    ('in-closure-of-caller', (('s', ('closure', seq(C('e'), T(';')))), _lr('e', '+', 't'), ('t', N)), {'e'}, ('s', 'e'), 'n+;',
     ref_in_closure),
    ('retried-at-the-same-position', (('r', ch(seq(C('e'), T('<'), C('e')), seq(C('e'), T('>'), C('e')), C('e'))), _lr('e', '+', 't'), ('t', N)),
     {'e'}, ('r', 'e'), 'n+<>', ref_retried),
    ('blanks', (_lr('e', '+', 't'), ('t', N)), {'e'}, ('e',), 'n+ ', ref_blanks),
    ('blanks-token-rule', (_lr('e', '+', 'T'), ('T', N)), {'e'}, ('e',), 'n+ ', ref_blanks_token_rule),
)


def schema_text(desc, starts):
    """grammar text: the schema's rules plus one `top_<start> = <start> $ ;` per start"""
    rules = tuple(desc) + tuple((f'{TOP}{st}', seq(C(st), ('eof',))) for st in starts)
    return rules, S.to_text(rules)


# --------------------------------------------------------------------------------------------------
# running
# --------------------------------------------------------------------------------------------------

class _Timeout(Exception):
    pass


def _on_alarm(_s, _f):
    raise _Timeout()


def timed(fn):
    """-> outcome, or ('hang',) when the parse does not finish within PARSE_SECONDS"""
    signal.setitimer(signal.ITIMER_VIRTUAL, PARSE_SECONDS)  # CPU time of this process: a busy machine cannot make a parse look hung
    try:
        return outcome(fn)
    except _Timeout:
        return ('hang',)
    finally:
        signal.setitimer(signal.ITIMER_VIRTUAL, 0)


def _expected(ref_result, rest, full):
    """reference result -> expected outcome of the parse (full: through the `$`-terminated start)"""
    if ref_result is None:
        return ('fail',)
    tree, end = ref_result
    if full and rest.strip(' '):  # `$` skips trailing blanks
        return ('fail',)
    return ('ok', tree)


def _oracle_expected(o):
    if isinstance(o, S.Unspecified):
        return None
    if not o.ok:
        return ('fail',)
    return ('ok', canon(json.loads(json.dumps(o.value))))


def _agrees(expected, real):
    if expected[0] == 'fail':
        return real[0] == 'fail'
    return real[0] == 'ok' and real[1] == expected[1]


def _work(job):
    name, inputs = job
    schema = next(s for s in SCHEMAS if s[0] == name)
    _name, desc, leaders, starts, _alpha, ref = schema
    rules, text = schema_text(desc, starts)
    stats = {'cases': 0, 'nontrivial': 0, 'accepted': 0, 'oracle_skipped': 0}
    failures, samples = [], []
    old = signal.signal(signal.SIGVTALRM, _on_alarm)
    try:
        model = tatsu.compile(text)
        marked = {r.name for r in model.rules if r.is_lrec}
        if marked != set(leaders):
            failures.append({'witness': {'grammar': text}, 'cls': 'leaders-marked-differently',
                             'detail': f'rules marked left recursive: {sorted(marked)}; expected leaders {sorted(leaders)}'})
        try:
            _src, cls = load_generated(text)
        except SyntaxError as e:
            failures.append({'witness': {'grammar': text}, 'cls': 'generated-source-is-not-valid-python', 'detail': str(e)})
            cls = None
        for s in inputs:
            for st in starts:
                r0 = ref(st, s)
                for full in (False, True):
                    start = f'{TOP}{st}' if full else st
                    stats['cases'] += 1
                    m = timed(lambda: model.parse(s, start=start))
                    g = timed(lambda: cls().parse(s, start=start)) if cls else m
                    want = _expected(r0, s[r0[1]:] if r0 else '', full)
                    o = _oracle_expected(oracle(rules, leaders, s, start))
                    grown = r0 is not None and isinstance(r0[0], (list, dict)) and r0[1] > 1
                    if grown or (full and r0 is not None and s[r0[1]:].strip(' ')):
                        stats['nontrivial'] += 1
                    if m[0] == 'ok':
                        stats['accepted'] += 1
                    if len(samples) < 2 and m[0] == 'ok' and len(s) >= 5 and not full:
                        samples.append({'grammar': text, 'start': start, 'input': s, 'ast': m[1]})
                    w = {'schema': name, 'grammar': text, 'start': start, 'input': s}

                    def fail(cls_name, detail):
                        failures.append({'witness': w, 'cls': cls_name, 'detail': detail})

                    if o is None:
                        stats['oracle_skipped'] += 1
                    elif o[0] != want[0] or (o[0] == 'ok' and o[1] != want[1]):
                        fail('reference-self-check', f'schema reference says {want!r}, seed-growing oracle says {o!r} '
                                                     '(defect of the CHECK, adjudicate by hand)')
                    for who, r in (('model', m), ('generated parser', g)):
                        slug = 'model' if who == 'model' else 'generated'
                        if r[0] == 'hang':
                            fail(f'{slug}-does-not-terminate', f'{who}: no result within {PARSE_SECONDS}s')
                        elif r[0] == 'exc':
                            fail(f'{slug}-raises-{r[1]}', f'{who}: {r!r}; reference: {want!r}')
                        elif not _agrees(want, r):
                            kind = ('accepts-more' if r[0] == 'ok' and want[0] == 'fail' else
                                    'rejects-admitted-prefix' if r[0] == 'fail' else 'tree-differs')
                            fail(f'{slug}-{kind}', f'{who}: {r!r}; reference (longest prefix, left fold): {want!r}')
                    if m[0] != 'hang' and g[0] != 'hang' and not same_outcome(m, g):
                        fail('model-and-generated-parser-differ', f'model: {m!r}; generated parser: {g!r}')
    finally:
        signal.signal(signal.SIGVTALRM, old)
    by = {}
    for f in failures:
        by.setdefault(f['cls'], []).append(f)
    kept, counts = [], {}
    for c, fs in by.items():
        fs.sort(key=lambda f: len(repr(f['witness'])))
        counts[c] = len(fs)
        kept += fs[:5]
    return stats, kept, counts, samples


def run(tier='quick', seed=0, info=None):
    budget = Budget(60 if tier == 'quick' else 900)
    maxlen = 5 if tier == 'quick' else 7
    jobs = []
    for name, _d, _l, _st, alpha, _r in SCHEMAS:
        n = maxlen if len(alpha) <= 4 or tier == 'quick' else maxlen - 1
        if tier == 'quick' and len(alpha) > 4:
            n = maxlen - 1
        ins = G.inputs(alpha, n)
        for part in chunked(ins, max(1, len(ins) // 1500)):
            jobs.append((name, part))
    results = pmap(_work, jobs, jobs=JOBS)
    stats = {'cases': 0, 'nontrivial': 0, 'accepted': 0, 'oracle_skipped': 0}
    failures, counts, samples = [], {}, []
    for st, fs, cn, sm in results:
        for k in stats:
            stats[k] += st[k]
        failures += fs
        samples += sm
        for c, n in cn.items():
            counts[c] = counts.get(c, 0) + n
    # one failure per (class, schema) is enough in the list; bitem keeps the smallest per class
    items = bitem(PROP, 'left-recursion-schemas', function=FUNCTION,
                  domain=f'{len(SCHEMAS)} layered expression grammar schemas ({", ".join(s[0] for s in SCHEMAS)}) x their start '
                         f'rules (plain and `$`-terminated) x ALL strings over the schema alphabet (3-6 symbols) of length <= '
                         f'{maxlen} (alphabets of more than 4 symbols: <= {maxlen - 1}); model and generated parser',
                  bound=f'input length <= {maxlen}', cases=stats['cases'], distinct_nontrivial=stats['nontrivial'], rule=RULE,
                  exhaustive=True, samples=samples[:4], failures=failures)
    for it in items:
        it.extra['accepted_parses'] = stats['accepted']
        it.extra['oracle_skipped'] = stats['oracle_skipped']
        c = it.id.rsplit('/', 1)[-1]
        if c in counts:
            it.extra['failing_cases'] = counts[c]
    if info is not None:
        info.setdefault('bounded', []).append({'run': 'bC03', 'tier': tier, 'wall_s': round(budget.spent(), 1)})
    run.summary = [('left-recursion-schemas', stats, budget.spent())]
    return items


def main(argv=None):
    from bounded.bC02 import print_summary
    argv = sys.argv[1:] if argv is None else argv
    tier = argv[0] if argv else 'quick'
    seed = int(argv[1]) if len(argv) > 1 else 0
    t0 = time.time()
    items = run(tier, seed, {})
    print_summary(items, run.summary, time.time() - t0)
    return 0


if __name__ == '__main__':
    sys.exit(main())
