"""Bounded stand-in for C20: styling text never alters the text itself.

For a text t (non-empty, no ESC), a style (fg / bg: none, 16 basic, 256 palette, RGB; the 8 modifiers;
an optional format spec of its own), a format spec f and a colour policy (explicit on / off, NO_COLOR,
FORCE_COLOR, tty default), with s = Style(t, ..., color=policy), e = f or the style's own spec or '':

  F1  descape(format(s, f)) == format(t, e)    with the library's `tatsu.util.tty.descape` AND with the
      independent regex  ESC [ [0-9;]* m ; the same for str(s) (e = own spec) and s.apply(t, fmt=f)
  F2  visual_len(format(s, f)) == len(format(t, e));  len(s) == len(format(t, own spec))
  F3  with colour disabled (by the documented priority explicit > NO_COLOR > FORCE_COLOR > tty) the output
      IS format(t, e): no ESC at all
  F4  p = Style.from_raw(repr(s)) has the same fg, bg and modifiers as s -- for every text; and, when t has
      no brace / colon / backslash / quote / control character, the same text and the same format spec
      (the spec is written inside the same `f{text:spec}` marker as the text, so it is only required then)

Expected values come from Python's own `format(str, spec)`; only specs that `format('a', spec)` accepts
are in the domain.
"""
from __future__ import annotations

import itertools
import os
import random
import re
import sys
import time

from bounded.common import JOBS, bitem, chunked, pmap

PROP = 'C20'
INDEP_SGR = re.compile(r'\x1b\[[0-9;]*m')
ESC = '\x1b'
TEXT_ALPHA = ('a', '{', '}', ':', '世', '́', ' ', '\\', "'", '[', 'm', '1', ';', '\n', '\x9b')  # U+009B: the 8-bit CSI, an ordinary character of a python str
UNSAFE = set('{}:\\\'"') | {chr(c) for c in range(32)} | {chr(c) for c in range(0x7f, 0xa0)}  # braces, colons, backslashes, quotes, control characters (C0, DEL, C1)
MODS = ('bold', 'dim', 'italic', 'underline', 'blink', 'inverse', 'hidden', 'strikethrough')
SPECS_ALL = ['', '5', '>5', '<5', '^5', '*^7', '0>4', '.1', '.2', '.0', '6.2', '>6.1', 'x<4.0', '1', '{<5', '}>4', ':>4', '世^5', ' >3',
             's', '5s', '^', '>', '<', '10', '^10.3', '-<6', '́>3']
OWN_FMTS = [None, '>5', '^7', '.1', '*<4.2', ':>4']  # ':>4': the fill character is a colon (the repr form f{text:spec} then has two)
# (label, explicit enable, env)  -- expected `enabled` by the documented priority
MODES = [
    ('explicit-on', True, {}), ('explicit-off', False, {}),
    ('explicit-on+NO_COLOR', True, {'NO_COLOR': '1'}), ('explicit-off+FORCE_COLOR', False, {'FORCE_COLOR': '1'}),
    ('env-FORCE_COLOR', None, {'FORCE_COLOR': '1'}), ('env-NO_COLOR', None, {'NO_COLOR': '1'}),
    ('env-NO_COLOR+FORCE_COLOR', None, {'NO_COLOR': '1', 'FORCE_COLOR': '1'}), ('default-tty', None, {}),
    ('default-color-object', 'DEFAULT', {'FORCE_COLOR': '1'}),
]


def valid_specs():
    out = []
    for f in SPECS_ALL:
        try:
            format('a', f)
            out.append(f)
        except ValueError:
            pass
    return out


def expected_enabled(explicit, env):
    if explicit in (True, False):
        return explicit
    if 'NO_COLOR' in env:
        return False
    if 'FORCE_COLOR' in env:
        return True
    return bool(sys.stdout.isatty())


def set_env(env):
    for k in ('NO_COLOR', 'FORCE_COLOR'):
        if k in env:
            os.environ[k] = env[k]
        else:
            os.environ.pop(k, None)


def mk_color(explicit):
    from tatsu.ztyle import Color
    if explicit == 'DEFAULT':
        return None
    return Color(explicit) if explicit is not None else Color()


def mk_style(text, st, own, color):
    """st = dict(fg=, bg=, mods=tuple) ; fg/bg: -1 | int | ('rgb', r, g, b)"""
    from tatsu.ztyle import RGB, Style

    def col(c):
        return RGB(*c[1:]) if isinstance(c, tuple) else c

    kw = dict(fg=col(st['fg']), bg=col(st['bg']), fmt=own, **{m: True for m in st['mods']})
    if color is not None:
        kw['color'] = color
    return Style(text, **kw)


def style_expr(text, st, own, mode):
    def col(c):
        return f'RGB{tuple(c[1:])}' if isinstance(c, tuple) else repr(c)

    label, explicit, env = mode
    args = [repr(text)]
    if own is not None:
        args.append(f'fmt={own!r}')
    if st['fg'] != -1:
        args.append(f'fg={col(st["fg"])}')
    if st['bg'] != -1:
        args.append(f'bg={col(st["bg"])}')
    args += [f'{m}=True' for m in st['mods']]
    if explicit != 'DEFAULT':
        args.append('color=Color()' if explicit is None else f'color=Color({explicit})')
    e = f'Style({", ".join(args)})'
    if env:
        e += '  # with os.environ ' + ', '.join(f'{k}={v!r}' for k, v in env.items())
    elif explicit is None:
        e += '  # NO_COLOR / FORCE_COLOR unset'
    return e


def attrs_of(s):
    fg, bg = s._fg, s._bg
    return (tuple(fg) if isinstance(fg, tuple) else fg, tuple(bg) if isinstance(bg, tuple) else bg,
            tuple(bool(getattr(s, '_' + m)) for m in MODS))


def has_codes(st):
    return st['fg'] != -1 or st['bg'] != -1 or bool(st['mods'])


def check_one(text, st, own, spec, mode, out):
    """all clauses for one (text, style, own spec, spec, mode); appends (cls, detail, witness)."""
    from tatsu.util.tty import descape, visual_len
    label, explicit, env = mode
    set_env(env)
    enabled = expected_enabled(explicit, env)
    try:
        s = mk_style(text, st, own, mk_color(explicit))
    except Exception as e:  # noqa: BLE001
        out.append(('construct-raises', f'{type(e).__name__}: {e}', {'python': style_expr(text, st, own, mode)}))
        return
    eff = spec or own or ''
    exp = format(text, eff)
    exp_own = format(text, own or '')
    cond = ('colour-on' if enabled and has_codes(st) else 'colour-on-no-attributes' if enabled else 'colour-off')
    shape = ('own+spec' if own and spec else 'own-spec' if own else 'spec' if spec else 'nospec')

    def fail(check, detail, expr):
        out.append((f'{check}/{cond}', detail + f' [{shape}]', {'python': f's = {style_expr(text, st, own, mode)}; {expr}'}))

    # F1 / F2 / F3 on format(s, spec)
    # a style with its own spec formatted with another one: `apply` documents that the explicit spec wins; for
    # format() nothing is documented, so applying the explicit spec on top of the own one is accepted as well
    both = {exp, format(exp_own, spec)} if (own and spec) else {exp}
    for name, fn, wants in (('format', lambda: format(s, spec), both), ('str', lambda: str(s), {exp_own}),
                            ('apply', lambda: s.apply(text, fmt=spec or None), {exp})):
        if name == 'str' and spec:
            continue
        expr = {'format': f'format(s, {spec!r})', 'str': 'str(s)', 'apply': f's.apply({text!r}, fmt={spec or None!r})'}[name]
        try:
            got = fn()
        except Exception as e:  # noqa: BLE001
            fail(f'{name}-raises', f'{type(e).__name__}: {e}', expr)
            continue
        d1, d2 = descape(got), INDEP_SGR.sub('', got)
        want = d1 if (d1 == d2 and d1 in wants) else exp if exp in wants else next(iter(wants))
        if d1 != want or d2 != want:
            fail(f'{name}-text-altered', f'{expr} = {got!r}; without escapes {d1!r} (library) / {d2!r} (regex); the text formatted by the spec is {want!r}', expr)
        elif visual_len(got) != len(want):
            fail(f'{name}-visual-len', f'visual_len({expr}) = {visual_len(got)} but the formatted text has length {len(want)}', f'visual_len({expr})')
        if not enabled and (ESC in got or got != want) and d1 == want:
            fail(f'{name}-escape-with-colour-off', f'{expr} = {got!r} with colour disabled; expected {want!r}', expr)
    if not spec:
        try:
            n = len(s)
            if n != len(exp_own):
                fail('len', f'len(s) = {n} but the formatted text {exp_own!r} has length {len(exp_own)}', 'len(s)')
        except Exception as e:  # noqa: BLE001
            fail('len-raises', f'{type(e).__name__}: {e}', 'len(s)')


def check_repr(text, st, own, mode, out):
    from tatsu.ztyle import Style
    label, explicit, env = mode
    set_env(env)
    try:
        s = mk_style(text, st, own, mk_color(explicit))
        r = repr(s)
    except Exception as e:  # noqa: BLE001
        out.append(('repr-raises', f'{type(e).__name__}: {e}', {'python': f'repr({style_expr(text, st, own, mode)})'}))
        return
    wit = {'python': f's = {style_expr(text, st, own, mode)}; p = Style.from_raw(repr(s))'}
    if ESC in r:
        out.append(('repr-contains-esc', f'repr(s) = {r!r} contains a raw ESC', wit))
    try:
        p = Style.from_raw(r)
    except Exception as e:  # noqa: BLE001
        out.append((f'repr-unreadable/{"safe-text" if not (set(text) & UNSAFE) else "unsafe-text"}', f'Style.from_raw({r!r}) raised {type(e).__name__}: {e}', wit))
        return
    if attrs_of(p) != attrs_of(s):
        out.append((f'repr-attributes/{"safe-text" if not (set(text) & UNSAFE) else "unsafe-text"}',
                    f'repr(s) = {r!r}; (fg, bg, modifiers) {attrs_of(s)} -> {attrs_of(p)}', wit))
        return
    if not (set(text) & UNSAFE):
        if p.value != text:
            out.append(('repr-text' + ('/with-own-spec' if own else ''), f'repr(s) = {r!r}; text {text!r} -> {p.value!r}', wit))
        elif (p._fmt or None) != (own or None):
            out.append(('repr-spec', f'repr(s) = {r!r}; format spec {own!r} -> {p._fmt!r}', wit))


# --------------------------------------------------------------------------- domains
def texts(maxlen):
    for n in range(1, maxlen + 1):
        for t in itertools.product(TEXT_ALPHA, repeat=n):
            yield ''.join(t)


def colours(seed, n256, nrgb):
    rng = random.Random(seed)
    basic = list(range(16))
    pal = sorted(set([16, 17, 100, 231, 232, 254, 255] + rng.sample(range(16, 256), n256)))
    rgb = [('rgb', 0, 0, 0), ('rgb', 255, 255, 255), ('rgb', 255, 128, 1), ('rgb', 12, 34, 56)]
    rgb += [('rgb', rng.randrange(256), rng.randrange(256), rng.randrange(256)) for _ in range(nrgb)]
    return basic, pal, rgb


def styles(tier, seed):
    basic, pal, rgb = colours(seed, 24 if tier == 'quick' else 120, 6 if tier == 'quick' else 40)
    allc = [-1] + basic + pal + rgb
    out = []
    # every colour as fg, as bg
    for c in allc:
        out.append(dict(fg=c, bg=-1, mods=()))
        out.append(dict(fg=-1, bg=c, mods=()))
    # fg x bg over one representative of each encoding branch, + all 16x16 basic
    reps = [-1, 0, 7, 8, 15, 16, 255, ('rgb', 255, 128, 1)]
    for f, b in itertools.product(reps, reps):
        out.append(dict(fg=f, bg=b, mods=()))
    for f, b in itertools.product(basic, basic):
        out.append(dict(fg=f, bg=b, mods=()))
    # modifiers: all single, all pairs, all eight; alone and with colours
    msets = [(m,) for m in MODS] + list(itertools.combinations(MODS, 2)) + [MODS]
    for ms in msets:
        out.append(dict(fg=-1, bg=-1, mods=ms))
        out.append(dict(fg=3, bg=('rgb', 1, 2, 3), mods=ms))
        out.append(dict(fg=200, bg=12, mods=ms))
    # clamped arguments
    out += [dict(fg=300, bg=-7, mods=()), dict(fg=('rgb', 300, -5, 7), bg=256, mods=('bold',))]
    seen, uniq = set(), []
    for s in out:
        k = repr(s)
        if k not in seen:
            seen.add(k)
            uniq.append(s)
    return uniq


SMALL_STYLES = [dict(fg=-1, bg=-1, mods=()), dict(fg=1, bg=-1, mods=()), dict(fg=-1, bg=200, mods=('bold',)),
                dict(fg=('rgb', 1, 2, 3), bg=9, mods=('bold', 'underline')), dict(fg=-1, bg=-1, mods=('hidden',))]
STYLE_TEXTS = ['a', 'ab', '世', 'é', '{a}', 'a:b', ' a ', '1m', '[0m', 'ab世']


def _work_texts(job):
    ts, specs, modes = job
    fails = []
    n = 0
    for t in ts:
        for st in SMALL_STYLES:
            for own in (None, '>5'):
                for mode in modes:
                    for spec in specs:
                        check_one(t, st, own, spec, mode, fails)
                        n += 1
                check_repr(t, st, own, MODES[0], fails)
                n += 1
    return n, fails


def _work_styles(job):
    sts, specs, modes = job
    fails = []
    n = 0
    for st in sts:
        for t in STYLE_TEXTS:
            for own in OWN_FMTS:
                for mode in modes:
                    for spec in specs:
                        check_one(t, st, own, spec, mode, fails)
                        n += 1
                for mode in (MODES[0], MODES[1]):
                    check_repr(t, st, own, mode, fails)
                    n += 1
    return n, fails


def _work_markup(ts):
    from tatsu.util.tty import descape
    from tatsu.ztyle import Color
    from tatsu.ztyle.markup import markup
    fails = []
    n = 0
    for t in ts:
        for tags in ('bold', 'red', 'bold red_bg'):
            for enable in (True, False):
                n += 1
                src = f'[{tags}]{t}[/]'
                try:
                    got = str(markup(src, color=Color(enable)))
                except Exception as e:  # noqa: BLE001
                    fails.append(('markup-raises', f'{type(e).__name__}: {e}', {'python': f'str(markup({src!r}, color=Color({enable})))'}))
                    continue
                if descape(got) != t or INDEP_SGR.sub('', got) != t or (not enable and got != t):
                    fails.append((f'markup-text-altered/{"colour-on" if enable else "colour-off"}', f'str(markup({src!r})) = {got!r}; expected text {t!r}',
                                  {'python': f'str(markup({src!r}, color=Color({enable})))'}))
    return n, fails


def run(tier='quick', seed=0, info=None):
    saved = {k: os.environ.get(k) for k in ('NO_COLOR', 'FORCE_COLOR')}
    try:
        return _run(tier, seed, info)
    finally:
        for k, v in saved.items():
            if v is None:
                os.environ.pop(k, None)
            else:
                os.environ[k] = v


def _run(tier, seed, info):
    specs = valid_specs()
    items = []
    L = 3 if tier == 'quick' else 4
    ts = list(texts(3))
    if tier != 'quick':
        rng = random.Random(seed)
        ts += rng.sample([t for t in texts(4) if len(t) == 4], 8000)
    if tier == 'quick':
        tspecs = ['', '>5', '^7', '.1', '*<4.2', '{<5', '世^5']
        tmodes = [MODES[0], MODES[1], MODES[4], MODES[5]]
    else:
        tspecs = specs
        tmodes = MODES
    parts = pmap(_work_texts, [(c, tspecs, tmodes) for c in chunked(ts, JOBS * 4)])
    n = sum(p[0] for p in parts)
    fails = [{'cls': c, 'detail': d, 'witness': w} for p in parts for c, d, w in p[1]]
    items += bitem(PROP, 'texts', function='Style.__format__/__str__/__len__/apply/__repr__/from_raw, tty.descape/visual_len',
                   domain=f'texts over {{a,{{,}},:,世,U+0301,space,\\,\',[,m,1,;,newline}} x 5 styles x own spec (none, >5) x {len(tspecs)} specs x {len(tmodes)} colour modes',
                   bound='text length <= 3 (all)' + ('' if tier == 'quick' else ' + 8000 texts of length 4 sampled by seed'),
                   cases=n, distinct_nontrivial=len(ts) * len(SMALL_STYLES) * 2,
                   rule='cases = evaluated (text, style, own spec, spec, mode) tuples + repr round trips; distinct = (text, style, own spec) triples',
                   exhaustive=True, samples=[{'python': style_expr('世:', SMALL_STYLES[3], '>5', MODES[0]) + "; format(s, '^7')"}], failures=fails)

    sts = styles(tier, seed)
    sspecs = specs if tier != 'quick' else ['', '>5', '<5', '^5', '*^7', '.1', '6.2', '{<5', ':>4', '世^5', 's', '^10.3']
    smodes = MODES
    parts = pmap(_work_styles, [(c, sspecs, smodes) for c in chunked(sts, JOBS * 4)])
    n = sum(p[0] for p in parts)
    fails = [{'cls': c, 'detail': d, 'witness': w} for p in parts for c, d, w in p[1]]
    items += bitem(PROP, 'styles', function='Style.apply_style/__format__/__repr__/from_raw, Color.enabled',
                   domain=f'{len(sts)} styles (every one of 16 basic + sampled 256-palette + RGB colours as fg and as bg; 16x16 basic and 8x8 branch-representative fg x bg; '
                          f'modifiers: each, each pair, all eight, alone and with colours; clamped arguments) x {len(STYLE_TEXTS)} texts x {len(OWN_FMTS)} own specs x '
                          f'{len(sspecs)} specs x {len(smodes)} colour modes (explicit on/off, NO_COLOR, FORCE_COLOR, both, tty default, default Color object)',
                   bound='colour samples drawn with the seed', cases=n, distinct_nontrivial=len(sts) * len(OWN_FMTS),
                   rule='distinct = (style, own spec) pairs', exhaustive=False,
                   samples=[{'python': style_expr('ab', sts[40], None, MODES[4]) + "; format(s, '>5')"}], failures=fails)

    mts = [t for t in texts(2) if '[' not in t]
    parts = pmap(_work_markup, chunked(mts, JOBS))
    n = sum(p[0] for p in parts)
    fails = [{'cls': c, 'detail': d, 'witness': w} for p in parts for c, d, w in p[1]]
    items += bitem(PROP, 'markup', function='tatsu.ztyle.markup.markup', domain='[tags]text[/] for texts without "[" over the same alphabet x 3 tag sets x colour on/off',
                   bound='text length <= 2', cases=n, distinct_nontrivial=len(mts) * 3, rule='distinct = (text, tags)', exhaustive=True,
                   samples=[{'python': "str(markup('[bold]a:[/]', color=Color(True)))"}], failures=fails)
    if info is not None:
        for it in items:
            info.setdefault('bounded', []).append({k: it.extra.get(k) for k in ('function', 'domain', 'bound', 'cases')})
    return items


def main(argv=None):
    argv = list(sys.argv[1:] if argv is None else argv)
    tier = argv[0] if argv else 'quick'
    seed = int(argv[1]) if len(argv) > 1 else 0
    t0 = time.time()
    items = run(tier, seed, {})
    for it in items:
        print(f'{it.status:8} {it.id}  cases={it.extra.get("cases")} nontrivial={it.extra.get("distinct_nontrivial")}'
              + (f' failing={it.extra.get("failing_cases")}' if it.status == 'refuted' else ''))
        if it.status == 'refuted':
            print(f'    witness: {it.witness!r}'[:500])
            print(f'    {it.detail}'[:500])
    print(f'{PROP} bounded [{tier}]: {len(items)} items, {sum(i.status == "refuted" for i in items)} refuted, '
          f'{time.time() - t0:.1f}s')
    return 0


if __name__ == '__main__':
    sys.exit(main())
