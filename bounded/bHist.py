"""Bounded history runs on REUSED objects (C06, C10, C17, C19): the result of a call must not depend on
earlier calls on the same parser object / in the same process / on the same queue.

Each run compares the last call of a short history with the same call on a fresh object (or in a freshly
forked process).  Domains and bounds are stated in each Item.
"""
from __future__ import annotations

import itertools
import multiprocessing as mp
import os
import tempfile

from bounded.common import bitem

GRAMMARS = {
    'kw': '''
        @@grammar :: Kw
        @@keyword :: if end
        start = stmt $ ;
        other = 'x' 'z' $ ;
        stmt = 'if' name ';' | name '=' name ';' ;
        @name
        name = /[a-z]+/ ;
    ''',
    'sum': '''
        @@grammar :: Sum
        start = total $ ;
        total = first:num {'+' rest+:num} ;
        num = /[0-9]+/ ;
        other = 'x' ;
    ''',
    # left recursion: the seed table must not survive from one parse to the next on the same object
    'lrec': '''
        @@grammar :: LRec
        start = expr $ ;
        expr = expr '+' num | expr '-' num | num ;
        num = /[0-9]+/ ;
        other = 'x' ;
    ''',
}
INPUTS = {'kw': ['if abc;', 'abc = de;', 'if if;', 'x z', 'IF abc;', 'ifabc;'],
          'sum': ['1+2+3', '7', '1+', 'x'],
          'lrec': ['1+2', '7', '1+2+3', '9-4-1', '1+', 'x']}


class _Tag:
    """semantics that tags every rule value with the rule name and a call counter"""

    def __init__(self, label):
        self.label = label
        self.calls = 0

    def _default(self, ast, *args, **kwargs):
        self.calls += 1
        return (self.label, ast)


class _Fail:
    def num(self, ast):
        from tatsu.exceptions import FailedSemantics
        if ast == '7':
            raise FailedSemantics('seven')
        return int(ast)


def _outcome(fn):
    try:
        from tatsu.util import asjson
        return ('ok', repr(asjson(fn())))
    except BaseException as e:  # noqa: BLE001
        return ('exc', type(e).__name__)


def _gen_parser_class(gtext):
    import tatsu
    src = tatsu.to_python_sourcecode(gtext)
    ns = {}
    exec(compile(src, '<generated>', 'exec'), ns)  # noqa: S102
    name = [k for k in ns if k.endswith('Parser') and k not in ('Parser',)][0]
    return ns[name]


def _calls(gname):
    """(label, kwargs factory) of parse calls; semantics objects are created per use"""
    out = []
    for text in INPUTS[gname]:
        out.append((f'parse({text!r})', text, lambda: {}))
        out.append((f'parse({text!r}, start="other")', text, lambda: {'start': 'other'}))
        out.append((f'parse({text!r}, ignorecase=True)', text, lambda: {'ignorecase': True}))
        out.append((f'parse({text!r}, nameguard=False)', text, lambda: {'nameguard': False}))
        out.append((f'parse({text!r}, semantics=Tag)', text, lambda: {'semantics': _Tag('A')}))
        if gname == 'sum':
            out.append((f'parse({text!r}, semantics=Fail)', text, lambda: {'semantics': _Fail()}))
    return out


def run_parser_histories(prop, tier, seed, only=None):
    """all histories of length 2 (thorough: 3, sampled) of parse calls on ONE generated parser object"""
    import random
    failures, cases, distinct, samples = [], 0, set(), []
    for gname, gtext in GRAMMARS.items():
        if only and gname not in only:
            continue
        cls = _gen_parser_class(gtext)
        calls = _calls(gname)
        hists = list(itertools.product(range(len(calls)), repeat=2))
        if tier == 'thorough':
            rnd = random.Random(seed)
            hists += [tuple(rnd.randrange(len(calls)) for _ in range(3)) for _ in range(3000)]
        for h in hists:
            parser = cls()
            for i in h[:-1]:
                _, text, kw = calls[i]
                _outcome(lambda: parser.parse(text, **kw()))
            label, text, kw = calls[h[-1]]
            got = _outcome(lambda: parser.parse(text, **kw()))
            want = _outcome(lambda: cls().parse(text, **kw()))
            cases += 1
            if len(set(h)) > 1:
                distinct.add((gname, h))
            if len(samples) < 3:
                samples.append({'grammar': gname, 'history': [calls[i][0] for i in h], 'result': got})
            if got != want:
                hist = [calls[i][0] for i in h]
                joined = ''.join(hist[:-1])
                cls_slug = 'semantics' if 'semantics' in joined else ('settings' if '=' in joined else 'parse')
                failures.append({
                    'witness': {'grammar': gtext, 'history_on_one_generated_parser_object': hist},
                    'detail': f'last call gives {got} after the history, {want} on a fresh parser object',
                    'cls': f'generated-parser-result-depends-on-earlier-{cls_slug}'})
    return bitem(prop, 'reused-parser-histories', function='generated <Name>Parser.parse on one object (engine.bound / core._reset / find_semantic_action)',
                 domain='3 grammars (keywords, named sums, left recursion) x 6-7 call variants (plain, start=, ignorecase=, nameguard=, tagging semantics, failing semantics) x inputs incl. failing ones; histories of length 2 (thorough: + 3000 sampled of length 3)',
                 bound='history length 2 (quick)', cases=cases, distinct_nontrivial=len(distinct),
                 rule='a case is a history; distinct non-trivial = histories whose calls are not all the same call', exhaustive=(tier != 'thorough'),
                 samples=samples, failures=failures)


# --------------------------------------------------------------------------- C17: constants across parses

C17_FIRST = [
    ("start = secret:/[a-z0-9]+/ v:`'x'` $ ;", 'hunter2'),
    ("start = len:/[a-z]+/ v:`'x'` $ ;", 'abc'),
    ("start = w:/[a-z]+/ v:`len(w)` $ ;", 'abcd'),
]
C17_SECOND = [
    ("start = w:/[a-z]+/ probe:`{secret}` $ ;", 'zz'),
    ("start = w:/[a-z]+/ n:`len(w)` $ ;", 'zz'),
    ("start = w:/[a-z]+/ s:`{secret}!` $ ;", 'zz'),
    ("start = w:/[a-z]+/ m:`max(1, 2)` $ ;", 'zz'),
]


def _c17_worker(args):
    first, second = args
    import tatsu

    def run(g, t):
        return _outcome(lambda: tatsu.compile(g).parse(t))

    if first is not None:
        run(*first)
    return run(*second)


def run_constant_histories(prop, tier, seed):
    """a constant may read only the names of ITS OWN AST: the second parse of a two-parse history in one process
    must equal the same parse in a process that has evaluated nothing before"""
    ctx = mp.get_context('fork')
    jobs = [(f, s) for f in [None, *C17_FIRST] for s in C17_SECOND]
    with ctx.Pool(4, maxtasksperchild=1) as pool:
        results = pool.map(_c17_worker, jobs, chunksize=1)
    fresh = {s: r for (f, s), r in zip(jobs, results) if f is None}
    failures, samples = [], []
    for (f, s), r in zip(jobs, results):
        if f is None:
            continue
        if len(samples) < 3:
            samples.append({'first': f, 'second': s, 'result': r})
        if r != fresh[s]:
            failures.append({'witness': {'first_parse': {'grammar': f[0], 'input': f[1]}, 'second_parse': {'grammar': s[0], 'input': s[1]}},
                             'detail': f'second parse gives {r} after the first, {fresh[s]} in a fresh process',
                             'cls': 'constant-sees-names-of-an-earlier-parse'})
    return bitem(prop, 'constant-histories', function='ParserEngine.constant / safe_builtins across parses',
                 domain='3 first parses binding names (incl. a name shadowing a builtin) x 4 later constants; each pair in its own forked process vs the later parse alone',
                 bound='histories of 2 parses', cases=len(jobs), distinct_nontrivial=len(jobs) - len(C17_SECOND),
                 rule='a case is (first parse, second parse); non-trivial when there is a first parse', exhaustive=True,
                 samples=samples, failures=failures)


# --------------------------------------------------------------------------- C19: damaged line, then more traffic

def run_queue_damage_histories(prop, tier, seed):
    """a damaged line (invalid UTF-8, torn multi-byte character, binary garbage) consumed by one receive();
    packets sent afterwards are fetched by LATER receive() calls on the same queue object"""
    from tatsu.packetz.queue import PacketzQueue

    damages = [b'\xff\xfe\xfd garbage\n', b'\xce\n', 'αβγ'.encode()[:5] + b'\n', b'\x80\x81\x82\x83\x84\x85\n',
               b'plain ascii garbage\n', 'ok-but-not-a-packet αβγ\n'.encode()]
    failures, cases, samples = [], 0, []
    tmpdir = tempfile.mkdtemp(prefix='verif-c19-', dir='/var/tmp')
    try:
        for di, damage in enumerate(damages):
            for nbefore in (0, 1, 2):
                for nafter in (1, 2, 3):
                    path = os.path.join(tmpdir, f'q{di}_{nbefore}_{nafter}.q')
                    if os.path.exists(path):
                        os.unlink(path)
                    reader = PacketzQueue(path)
                    writer = PacketzQueue(path)
                    sent = []
                    for i in range(nbefore):
                        writer.send(to='r', data=f'before{i} é')
                        sent.append(f'before{i} é')
                    with open(path, 'ab') as f:
                        f.write(damage)
                    cases += 1
                    try:
                        # a reader drains what is there with list(): a damaged line must be skipped, not abort the pass
                        got = [p.data for p in list(reader.receive())]
                        for i in range(nafter):
                            writer.send(to='r', data=f'after{i} ü')
                            sent.append(f'after{i} ü')
                            got += [p.data for p in list(reader.receive())]
                        got += [p.data for p in list(reader.receive())]
                    except Exception as e:  # noqa: BLE001
                        failures.append({'witness': {'damaged_line_bytes': repr(damage), 'packets_before': nbefore, 'packets_after': nafter},
                                         'detail': f'receive() raised {type(e).__name__}: {e}'[:200] + ' (a damaged line has to be skipped)',
                                         'cls': 'receive-raises-on-a-damaged-line'})
                        continue
                    if len(samples) < 2:
                        samples.append({'damage': repr(damage), 'sent': sent, 'delivered': got})
                    if got != sent:
                        failures.append({'witness': {'damaged_line_bytes': repr(damage), 'packets_before': nbefore, 'packets_after': nafter},
                                         'detail': f'sent {sent}, delivered over successive receive() calls {got}',
                                         'cls': 'packet-lost-or-repeated-after-damaged-line'})
    finally:
        import shutil
        shutil.rmtree(tmpdir, ignore_errors=True)
    return bitem(prop, 'damaged-line-then-traffic', function='PacketzQueue.receive (offset bookkeeping across calls)',
                 domain='6 damaged lines (invalid UTF-8, torn multi-byte char, binary, ascii garbage, valid text) x 0..2 packets before x 1..3 packets after, one receive() per send',
                 bound='<= 2 packets before, <= 3 after', cases=cases, distinct_nontrivial=cases,
                 rule='a case is (damage, packets before, packets after); all are non-trivial (a later receive must continue at the right byte)', exhaustive=True,
                 samples=samples, failures=failures)
