"""C10 bounded stand-in: API results depend only on the arguments (history driver).

Calls (ops) over a pool of 6 small grammars x variants {none, name=, asmodel=True, semantics=<object>,
ignorecase=True, whitespace='', start='other'}:

  C(g, v)        tatsu.compile(g, **v)                  result = fingerprint(model): pretty text, name, config
                                                        fields, parse outcome on two probe texts
  P(g, v, t)     tatsu.parse(g, t, **v)                 result = AST / exception class
  M(h, t, pv)    <model of call h>.parse(t, **pv)       result = AST / exception class
  S(g, v)        tatsu.to_python_sourcecode(g, **v)     result = source text + (exec + Parser().parse(probe))
  G(h, t)        <generated parser object of call h>.parse(t)

History driver: every call SEQUENCE runs in its own process forked from a parent that has only imported
tatsu (so the history is exactly the sequence); the result of the LAST call must equal the result of the
same call -- preceded only by the calls that produce its handles -- computed in a TRULY FRESH interpreter
(one `python -c` subprocess per distinct reference, cached on disk inside the run's temp dir only).

  quick    all sequences of length 1; all ordered pairs of calls on the same grammar; curated length 3:
           [C(g,v), X, M(0,t)] for every other call X on that grammar (the model obtained first must not be
           changed by X), [C, M(0,bad), M(0,good)], [S, G(0,bad), G(0,good)]; cross-grammar pairs (type-name
           collisions + a seeded sample)
  thorough additionally a seeded sample of all length-3 sequences

Also, in every sequence: each Grammar model is snapshotted (json, directives, keywords, name, config fields)
when it is returned and compared at the end of the sequence; every ParserConfig / semantics object passed in
is snapshotted before and after the call.  Threads (the `schedules` quantifier) are OUT OF SCOPE here.
A smallest failing sequence per finding class is replayed in a fresh `python -c` process before it is reported.
"""
from __future__ import annotations

import hashlib
import itertools
import json
import os
import random
import subprocess
import sys
import tempfile
import time
from concurrent.futures import ThreadPoolExecutor

from bounded.common import JOBS, bitem, chunked

# --------------------------------------------------------------------------- pool
GRAMMARS = {
    'A': ("@@grammar :: A\nstart = 'hello' w:word $ ;\nword = /[a-z]+/ ;\nother = 'x' w:word $ ;\n",
          ['hello abc', 'HELLO abc', 'helloabc', 'x abc', 'hello 1']),
    'B': ("@@grammar :: B\nstart::BNode = a:item b:item $ ;\nitem::BItem = v:/[a-z]/ ;\nother::BOther = 'x' i:item $ ;\n",
          ['a b', 'A b', 'ab', 'x a', 'a 1']),
    'C': ("@@grammar :: C\nstart = e:expr $ ;\nexpr = add | num ;\nadd::CAdd = left:expr 'plus' right:num ;\n"
          "num::int = /[0-9]+/ ;\nother = 'x' n:num $ ;\n",
          ['1 plus 2', '1 PLUS 2', '1plus2', 'x 3', '1 plus']),
    'D': ("@@grammar :: D\n@@keyword :: if\nstart = ns:{name}+ $ ;\n@name\nname = /[a-z]+/ ;\nother = 'x' n:name $ ;\n",
          ['ab cd', 'AB cd', 'abcd', 'x ab', 'ab if']),
    'E': ("@@grammar :: E\nstart::BItem::EBase = x:/[0-9]/ y:`{x}!` $ ;\nother::EOther = 'x' v:/[0-9]/ $ ;\n",
          ['1', 'X 1', ' 1', 'x 1', 'a']),
    'F': ("@@grammar :: F\n@@ignorecase :: True\n@@whitespace :: /[ ]+/\nstart = 'key' v:/[a-z]+/ {';'}* $ ;\n"
          "other = 'x' v:/[a-z]+/ $ ;\n",
          ['key ab;;', 'KEY ab', 'keyab', 'x ab', 'key\nab']),
}
VARIANTS = {
    'none': {},
    'name': {'name': 'Zed'},
    'asmodel': {'asmodel': True},
    'semantics': {'semantics': 'SEM'},
    'ignorecase': {'ignorecase': True},
    'whitespace': {'whitespace': ''},
    'start': {'start': 'other'},
    'config': {'config': 'CFG'},
    # an option that only IMPLIES model building (no asmodel=True, no semantics): the cache key must see it
    'basetype': {'basetype': 'BASE'},
}
PARSE_VARIANTS = {'none': {}, 'asmodel': {'asmodel': True}, 'start': {'start': 'other'}, 'ignorecase': {'ignorecase': True}}


def base_type():
    """the basetype=<class> variant: one class per process, created on first use"""
    global _BASE
    if _BASE is None:
        from tatsu.objectmodel import Node

        class C10Base(Node):
            pass
        _BASE = C10Base
    return _BASE


_BASE = None


class Sem:
    """the semantics=<object> variant: tags every rule result"""

    def _default(self, ast, *args, **kwargs):
        return ['S', ast]


def ops_for(g):
    """the calls on grammar g (without handles)"""
    texts = GRAMMARS[g][1]
    ops = []
    for v in VARIANTS:
        ops.append(('C', g, v))
    for v in VARIANTS:
        ops.append(('P', g, v, 3 if v == 'start' else 0))
    ops.append(('P', g, 'ignorecase', 1))
    for v in ('none', 'ignorecase'):
        ops.append(('S', g, v))
    return ops


def handle_ops(g):
    """[C, M] and [S, G] chains as (producer, consumer-with-handle-0)"""
    out = []
    for v in VARIANTS:
        for pv in PARSE_VARIANTS:
            for t in ((3,) if pv == 'start' else (0, 1)):
                out.append((('C', g, v), ('M', 0, t, pv)))
    for v in ('none', 'ignorecase'):
        for t in (0, 2):
            out.append((('S', g, v), ('G', 0, t)))
    return out


def core_chains(g):
    """the chains used for [producer, X, consumer] in the quick tier"""
    out = []
    for v, pv in (('none', 'none'), ('none', 'asmodel'), ('asmodel', 'none'), ('ignorecase', 'none'), ('semantics', 'none')):
        out.append((('C', g, v), ('M', 0, 0, pv)))
    out.append((('S', g, 'none'), ('G', 0, 0)))
    return out


def op_src(op, gname='grammar'):
    """python text of a call (for witnesses)"""
    k = op[0]
    if k in ('C', 'P', 'S'):
        g, v = op[1], op[2]
        kw = ', '.join(f'{a}={"Sem()" if b == "SEM" else "ParserConfig(ignorecase=True)" if b == "CFG" else "C10Base (a Node subclass)" if b == "BASE" else repr(b)}'
                       for a, b in VARIANTS[v].items())
        if k == 'C':
            return f'tatsu.compile(G[{g!r}]{", " + kw if kw else ""})'
        if k == 'P':
            return f'tatsu.parse(G[{g!r}], {GRAMMARS[g][1][op[3]]!r}{", " + kw if kw else ""})'
        return f'tatsu.to_python_sourcecode(G[{g!r}]{", " + kw if kw else ""})  # + exec, Parser().parse(probe)'
    if k == 'M':
        kw = ', '.join(f'{a}={b!r}' for a, b in PARSE_VARIANTS[op[3]].items())
        return f'r[{op[1]}].parse(TEXT[{op[2]}]{", " + kw if kw else ""})'
    if k == 'G':
        return f'parser_of(r[{op[1]}]).parse(TEXT[{op[2]}])'
    raise ValueError(op)


def seq_src(seq):
    return '; '.join(f'r[{i}] = {op_src(o)}' for i, o in enumerate(seq))


# --------------------------------------------------------------------------- executing a sequence
def canon(v, depth=0):
    """process-independent description of a result"""
    from tatsu.objectmodel import BaseNode
    if depth > 20:
        return '<deep>'
    if isinstance(v, BaseNode):
        attrs = {k: canon(x, depth + 1) for k, x in sorted(vars(v).items()) if not k.startswith('_') and k not in ('ctx', 'parseinfo')}
        return {'__node__': type(v).__name__, 'mro': [c.__name__ for c in type(v).__mro__[1:4]], 'attrs': attrs}
    if isinstance(v, dict):
        return {'__dict__': {str(k): canon(x, depth + 1) for k, x in sorted(v.items(), key=lambda kv: str(kv[0]))
                             if k not in ('parseinfo', '__parseinfo__')}}
    if isinstance(v, (list, tuple)):
        return [canon(x, depth + 1) for x in v]
    if isinstance(v, (str, int, float, bool)) or v is None:
        return v
    return f'<{type(v).__name__}>'


def outcome(fn):
    from tatsu.exceptions import ParseException
    try:
        return {'value': canon(fn())}
    except ParseException as e:
        return {'exc': type(e).__name__, 'tatsu': True}
    except Exception as e:
        return {'exc': type(e).__name__, 'tatsu': False, 'msg': str(e)[:120]}


def cfg_view(cfg):
    d = {}
    for k, v in cfg.asdict().items():
        if k == 'semantics':
            d[k] = None if v is None else type(v).__name__
        elif k in ('heart', 'owner', 'extra', 'tokenizercls'):
            d[k] = None if v is None else getattr(v, '__name__', type(v).__name__)
        else:
            d[k] = v if isinstance(v, (str, int, float, bool, type(None))) else repr(v)
    return d


def model_snapshot(m):
    return {'json': hashlib.sha256(json.dumps(m.asjson(), sort_keys=True, default=repr).encode()).hexdigest(),
            'pretty': m.pretty(), 'name': m.name, 'directives': {k: repr(v) for k, v in sorted(m.directives.items())},
            'keywords': list(m.keywords), 'rules': [r.name for r in m.rules], 'config': cfg_view(m.config)}


def fingerprint(m, g):
    t = GRAMMARS[g][1]
    snap = model_snapshot(m)
    snap['probe0'] = outcome(lambda: m.parse(t[0]))
    snap['probe1'] = outcome(lambda: m.parse(t[1]))
    return snap


def run_sequence(seq):
    """-> {'last': result of the last call, 'mutations': [...]}  (executed in a process whose only history is seq)"""
    import tatsu
    from tatsu.config import ParserConfig
    handles = []
    snaps = []  # (index, model, snapshot at return time)
    mutations = []
    last = None
    for i, op in enumerate(seq):
        k = op[0]
        handle = None
        if k in ('C', 'P', 'S'):
            g, vname = op[1], op[2]
            gtext = GRAMMARS[g][0]
            kw = dict(VARIANTS[vname])
            sem = None
            if kw.get('semantics') == 'SEM':
                sem = kw['semantics'] = Sem()
            if kw.get('basetype') == 'BASE':
                kw['basetype'] = base_type()
            cfg = None
            if kw.get('config') == 'CFG':
                cfg = kw['config'] = ParserConfig(ignorecase=True)
            cfg_before = cfg_view(cfg) if cfg is not None else None
            if k == 'C':
                try:
                    m = tatsu.compile(gtext, **kw)
                    handle = m
                    snaps.append((i, m, model_snapshot(m)))
                    last = {'value': fingerprint(m, g)}
                    snaps[-1] = (i, m, model_snapshot(m))  # the probes are part of the call
                except Exception as e:
                    from tatsu.exceptions import ParseException
                    last = {'exc': type(e).__name__, 'tatsu': isinstance(e, ParseException), 'msg': str(e)[:100].replace('\x1b', '')}
            elif k == 'P':
                text = GRAMMARS[g][1][op[3]]
                last = outcome(lambda: tatsu.parse(gtext, text, **kw))
            else:
                def gen():
                    src = tatsu.to_python_sourcecode(gtext, **kw)
                    ns = {'__name__': f'c10gen{i}'}
                    exec(compile(src, f'<c10 gen {g}>', 'exec'), ns)  # noqa: S102
                    pname = [n for n in ns if n.endswith('Parser') and n != 'Parser'][0]
                    handles_tmp.append(ns[pname]())  # the handle: a parser object nobody has used yet
                    t = GRAMMARS[g][1]
                    return {'source': src, 'parser': pname, 'probe0': outcome(lambda: ns[pname]().parse(t[0])),
                            'probe1': outcome(lambda: ns[pname]().parse(t[1]))}
                handles_tmp = []
                last = outcome(gen)
                handle = handles_tmp[0] if handles_tmp else None
            if cfg is not None and cfg_view(cfg) != cfg_before:
                mutations.append({'what': 'ParserConfig argument of call', 'call': i, 'diff': _diff(cfg_before, cfg_view(cfg))})
            if sem is not None and vars(sem):
                mutations.append({'what': 'semantics object got attributes', 'call': i, 'diff': sorted(vars(sem))})
        elif k == 'M':
            m = handles[op[1]]
            g = seq[op[1]][1]
            text = GRAMMARS[g][1][op[2]]
            kw = dict(PARSE_VARIANTS[op[3]])
            last = outcome(lambda: m.parse(text, **kw)) if m is not None else {'exc': 'NoHandle', 'tatsu': False}
        elif k == 'G':
            p = handles[op[1]]
            g = seq[op[1]][1]
            text = GRAMMARS[g][1][op[2]]
            last = outcome(lambda: p.parse(text)) if p is not None else {'exc': 'NoHandle', 'tatsu': False}
        handles.append(handle)
    for i, m, snap in snaps:
        now = model_snapshot(m)
        if now != snap:
            mutations.append({'what': 'Grammar model returned by call', 'call': i, 'diff': _diff(snap, now)})
    return {'last': last, 'mutations': mutations}


def _diff(a, b):
    out = {}
    for k in sorted(set(a) | set(b)):
        if a.get(k) != b.get(k):
            if isinstance(a.get(k), dict) and isinstance(b.get(k), dict):
                out[k] = _diff(a[k], b[k])
            else:
                out[k] = [str(a.get(k))[:80], str(b.get(k))[:80]]
    return out


def reference_seq(seq):
    """the last call with only the calls that produce its handles"""
    last = seq[-1]
    if last[0] in ('M', 'G'):
        prod = seq[last[1]]
        return (prod, (last[0], 0) + tuple(last[2:]))
    return (last,)


# --------------------------------------------------------------------------- processes
def forked(seq):
    """run seq in a forked child of this (API-call-free) process"""
    r, w = os.pipe()
    pid = os.fork()
    if pid == 0:
        try:
            os.close(r)
            try:
                res = run_sequence(seq)
            except BaseException as e:  # noqa: BLE001
                res = {'harness_error': f'{type(e).__name__}: {e}'[:300]}
            with os.fdopen(w, 'w') as f:
                json.dump(res, f, default=repr)
        finally:
            os._exit(0)
    os.close(w)
    with os.fdopen(r) as f:
        data = f.read()
    os.waitpid(pid, 0)
    try:
        return json.loads(data)
    except ValueError:
        return {'harness_error': 'child died: ' + data[:100]}


def worker_main(jobfile, outfile):
    """a fresh interpreter that imports tatsu, makes no API call itself and forks one child per sequence"""
    import gc

    import tatsu  # noqa: F401
    gc.collect()
    gc.freeze()  # fewer copy-on-write faults in the forked children
    seqs = json.load(open(jobfile))
    out = [forked(tuple(tuple(o) for o in s)) for s in seqs]
    json.dump(out, open(outfile, 'w'), default=repr)
    return 0


def run_chunk(args):
    idx, seqs, tmpdir = args
    job = os.path.join(tmpdir, f'job-{idx}.json')
    outp = os.path.join(tmpdir, f'out-{idx}.json')
    json.dump(seqs, open(job, 'w'))
    env = dict(os.environ)
    env['PYTHONPATH'] = os.pathsep.join(p for p in sys.path if p)
    p = subprocess.run([sys.executable, '-m', 'bounded.bC10', '--worker', job, outp], stdin=subprocess.DEVNULL,
                       capture_output=True, env=env, cwd=tmpdir, timeout=1800)
    if p.returncode != 0 or not os.path.exists(outp):
        err = p.stderr.decode('utf-8', 'replace')[-300:]
        return [{'harness_error': f'worker rc={p.returncode}: {err}'} for _ in seqs]
    return json.load(open(outp))


def fresh(seq, tmpdir):
    """truly fresh interpreter; result cached on disk inside tmpdir"""
    key = hashlib.sha256(json.dumps(seq).encode()).hexdigest()[:24]
    path = os.path.join(tmpdir, f'ref-{key}.json')
    if os.path.exists(path):
        return json.load(open(path))
    env = dict(os.environ)
    env['PYTHONPATH'] = os.pathsep.join(p for p in sys.path if p)
    code = ('import json, sys; from bounded import bC10; '
            'seq = json.loads(sys.argv[1]); seq = tuple(tuple(o) for o in seq); '
            'print("\\n@@RESULT@@" + json.dumps(bC10.run_sequence(seq), default=repr))')
    p = subprocess.run([sys.executable, '-c', code, json.dumps(seq)], stdin=subprocess.DEVNULL, capture_output=True,
                       env=env, timeout=300, cwd=tmpdir)
    out = p.stdout.decode('utf-8', 'replace')
    if '@@RESULT@@' not in out:
        res = {'harness_error': f'fresh process failed rc={p.returncode}: {p.stderr.decode("utf-8", "replace")[-300:]}'}
    else:
        res = json.loads(out.split('@@RESULT@@', 1)[1])
    with open(path + '.tmp', 'w') as f:
        json.dump(res, f)
    os.replace(path + '.tmp', path)
    return res


# --------------------------------------------------------------------------- enumeration
def sequences(tier, seed):
    rnd = random.Random(seed)
    seqs = {}

    def add(seq, kind):
        seqs.setdefault(tuple(seq), kind)

    allops = {g: ops_for(g) for g in GRAMMARS}
    chains = {g: handle_ops(g) for g in GRAMMARS}
    for g in GRAMMARS:
        for o in allops[g]:
            add((o,), 'single')
        for prod, cons in (core_chains(g) if tier == 'quick' else chains[g]):
            add((prod, cons), 'single-chain')
        # ordered pairs on the same grammar (quick: the second call restricted to 5 of the 8 variants)
        for a, b in itertools.product(allops[g], repeat=2):
            if tier == 'quick' and b[2] in ('name', 'whitespace', 'config'):
                continue
            add((a, b), 'pair')
        # the model / generated parser obtained first, any other call, then use the first
        for prod, cons in (core_chains(g) if tier == 'quick' else chains[g]):
            for x in allops[g]:
                if tier == 'quick' and x[2] in ('name', 'whitespace', 'config'):
                    continue
                add((prod, x, (cons[0], 0) + tuple(cons[2:])), 'handle-after-other-call')
        # failed parse then good parse on the same object
        for v in (('none', 'asmodel', 'semantics', 'ignorecase') if tier == 'quick' else VARIANTS):
            add((('C', g, v), ('M', 0, 4, 'none'), ('M', 0, 0, 'none')), 'failed-then-good')
            add((('C', g, v), ('M', 0, 0, 'none'), ('M', 0, 0, 'none')), 'good-then-good')
            if tier != 'quick':
                add((('C', g, v), ('M', 0, 4, 'none'), ('M', 0, 1, 'none')), 'failed-then-good')
        for v in ('none', 'ignorecase'):
            add((('S', g, v), ('G', 0, 4), ('G', 0, 0)), 'failed-then-good')
            add((('S', g, v), ('G', 0, 0), ('G', 0, 4)), 'good-then-good')
            add((('S', g, v), ('G', 0, 3), ('G', 0, 0)), 'failed-then-good')
        # a parse with per-call options, then a plain parse on the same model (a parse must not alter the model)
        for v in (('none', 'asmodel') if tier == 'quick' else VARIANTS):
            for pv in PARSE_VARIANTS:
                if pv == 'none':
                    continue
                t = 3 if pv == 'start' else 1 if pv == 'ignorecase' else 0
                add((('C', g, v), ('M', 0, t, pv)), 'single-chain')
                add((('C', g, v), ('M', 0, t, pv), ('M', 0, 0, 'none')), 'parse-options-then-plain-parse')
                add((('C', g, v), ('M', 0, t, pv), ('M', 0, 1, 'none')), 'parse-options-then-plain-parse')
    # cross grammar: type-name collision B/E both ways, and a seeded sample
    for a in allops['B']:
        for b in allops['E']:
            if a[0] in 'CP' and b[0] in 'CP' and a[2] in ('asmodel', 'none') and b[2] in ('asmodel', 'none'):
                add((a, b), 'cross')
                add((b, a), 'cross')
    gs = sorted(GRAMMARS)
    for _ in range(300 if tier == 'quick' else 1500):
        g1, g2 = rnd.sample(gs, 2)
        add((rnd.choice(allops[g1]), rnd.choice(allops[g2])), 'cross')
    if tier != 'quick':
        for _ in range(9000):
            g = rnd.choice(gs)
            pool = allops[g] + [c for _, c in chains[g]]
            seq = []
            for _ in range(3):
                o = rnd.choice(allops[g] if not seq else pool)
                if o[0] in ('M', 'G'):
                    want = 'C' if o[0] == 'M' else 'S'
                    idx = [i for i, p in enumerate(seq) if p[0] == want]
                    if not idx:
                        o = rnd.choice(allops[g])
                    else:
                        o = (o[0], rnd.choice(idx)) + tuple(o[2:])
                seq.append(o)
            add(tuple(seq), 'random-3')
        # all length 3 over one grammar for the compile/parse core with the options that matter
        core = [o for o in allops['B'] if o[0] in 'CP' and o[2] in ('none', 'asmodel', 'ignorecase', 'semantics') and (o[0] == 'C' or o[3] == 0)]
        for s in itertools.product(core, repeat=3):
            add(s, 'core-3')
    return seqs


# --------------------------------------------------------------------------- judging
def _model_building(res):
    """does a result show model building (nodes / builder semantics)?"""
    t = json.dumps(res, default=repr)
    return '"__node__"' in t or '"semantics": "ModelBuilderSemantics"' in t


def classify(seq, kind, got, ref):
    """finding class of a last-call mismatch, named by WHAT is observed (the witness shows the calls):
    the last call shows model building that its own arguments do not ask for (or lacks it) -> asmodel leak;
    any other difference caused by an earlier call on the same grammar text -> settings of an earlier call leak"""
    last = seq[-1]

    def without_mro(x):
        if isinstance(x, dict):
            return {k: without_mro(v) for k, v in x.items() if k != 'mro'}
        if isinstance(x, list):
            return [without_mro(v) for v in x]
        return x

    if got != ref and without_mro(got) == without_mro(ref):
        # same nodes, same attributes, only the base classes of the synthesized node classes differ: the process-wide
        # class registry handed out a class synthesized for an earlier call (other declared bases / other basetype=)
        return 'synth-registry-ignores-declared-bases'
    if kind in ('failed-then-good', 'good-then-good', 'parse-options-then-plain-parse'):
        return 'earlier-parse-changes-later-parse-on-same-' + ('generated-parser' if last[0] == 'G' else 'model')
    gl = seq[last[1]][1] if last[0] in 'MG' else last[1]
    others = [o for o in seq[:-1] if o[0] in 'CPS' and not (last[0] in 'MG' and o is seq[last[1]])]
    same = [o for o in others if o[1] == gl]
    cross = [o for o in others if o[1] != gl]
    def asm(o):
        return bool(o[0] in 'CPS' and VARIANTS[o[2]].get('asmodel'))

    base = seq[last[1]] if last[0] in 'MG' else last
    what = 'settings'
    if _model_building(got) != _model_building(ref):
        what = 'asmodel'
    elif same and all(asm(o) != asm(base) for o in same if o != base):
        # no node in the result (e.g. only a ::int conversion), but every interfering call differs in asmodel
        what = 'asmodel'
    if cross and not same:
        if {gl, cross[0][1]} == {'B', 'E'}:
            return 'synth-registry-ignores-declared-bases'
        return 'result-depends-on-call-with-other-grammar'
    if last[0] in 'MG':
        pi = last[1]
        before = [o for i, o in enumerate(seq[:-1]) if i < pi and o[0] in 'CPS' and o[1] == gl]
        after = [o for i, o in enumerate(seq[:-1]) if i > pi and o[0] in 'CPS' and o[1] == gl]
        if before and not after:
            # the call that produced the handle already depended on the history
            return f'compile-cache-key-omits-{what}'
        if last[0] == 'M':
            return f'earlier-model-parses-differently-after-later-call-{what}' if not before else \
                f'model-handle-result-depends-on-history-{what}'
        return f'generated-parser-parses-differently-after-later-call-{what}'
    if same and all(o == last for o in same):
        return 'result-differs-when-call-is-repeated'
    return f'compile-cache-key-omits-{what}'


def short(res):
    if res is None:
        return 'n/a'
    if 'exc' in res:
        return f"raises {res['exc']}" + (f" ({res.get('msg')})" if res.get('msg') else '')
    v = res.get('value')
    if isinstance(v, dict) and 'pretty' in v:
        return ('model{' + f"name={v['name']}, semantics={v['config'].get('semantics')}, ignorecase={v['config'].get('ignorecase')}, "
                f"whitespace={v['config'].get('whitespace')!r}, start={v['config'].get('start')}, probe0={short(v['probe0'])}, probe1={short(v['probe1'])}" + '}')
    if isinstance(v, dict) and 'source' in v:
        return f"source[{hashlib.sha256(v['source'].encode()).hexdigest()[:8]}, {len(v['source'])} chars] probe0={short(v['probe0'])} probe1={short(v['probe1'])}"
    return 'value ' + json.dumps(v)[:160]


def first_diff(a, b, path=''):
    if type(a) is not type(b):
        return f'{path}: {str(a)[:70]!r} != {str(b)[:70]!r}'
    if isinstance(a, dict):
        for k in sorted(set(a) | set(b)):
            if a.get(k) != b.get(k):
                return first_diff(a.get(k), b.get(k), f'{path}.{k}')
    if isinstance(a, list) and len(a) == len(b):
        for i, (x, y) in enumerate(zip(a, b)):
            if x != y:
                return first_diff(x, y, f'{path}[{i}]')
    if isinstance(a, str) and isinstance(b, str) and len(a) > 80:
        la, lb = a.splitlines(), b.splitlines()
        for i, (x, y) in enumerate(zip(la, lb)):
            if x != y:
                return f'{path} line {i + 1}: {x.strip()[:70]!r} != {y.strip()[:70]!r}'
    return f'{path}: {str(a)[:70]!r} != {str(b)[:70]!r}'


def run(tier='quick', seed=0, info=None):
    t0 = time.time()
    seqs = sequences(tier, seed)
    order = list(seqs)
    tmp = tempfile.mkdtemp(prefix='c10-', dir=os.environ.get('VERIF_TMP') or None)
    try:
        # references: one truly fresh interpreter per distinct reference sequence
        refs_needed = sorted({reference_seq(s) for s in order})
        with ThreadPoolExecutor(max_workers=JOBS) as ex:
            ref_results = dict(zip(refs_needed, ex.map(lambda s: fresh(s, tmp), refs_needed)))
        # histories: forked children of import-only workers
        chunks = chunked(order, JOBS * 3)
        with ThreadPoolExecutor(max_workers=JOBS) as ex:
            parts = list(ex.map(run_chunk, [(i, c, tmp) for i, c in enumerate(chunks)]))
        results = dict(zip(order, [r for p in parts for r in p]))
        failures = []
        nontriv = 0
        muts = {}
        for s in order:
            kind = seqs[s]
            got = results[s]
            ref = ref_results[reference_seq(s)]
            if 'harness_error' in got or 'harness_error' in ref:
                failures.append(dict(witness={'sequence': seq_src(s)}, detail=str(got.get('harness_error') or ref.get('harness_error')),
                                     cls='harness-error'))
                continue
            if len(s) > len(reference_seq(s)):
                nontriv += 1
            if got['last'] != ref['last']:
                cls = classify(s, kind, got['last'], ref['last'])
                failures.append(dict(
                    witness={'sequence': seq_src(s), 'reference': seq_src(reference_seq(s)), 'ops': [list(o) for o in s],
                             'how': 'import tatsu; from tatsu.config import ParserConfig; from bounded.bC10 import Sem; r = {}; run '
                                    '`sequence` in one fresh python process and `reference` in another; compare the last r[i]. '
                                    'parser_of(src): exec(src) and instantiate its <Name>Parser once; TEXT = TEXT of that grammar',
                             'G': {o[1]: GRAMMARS[o[1]][0] for o in s if o[0] in 'CPS'},
                             'TEXT': GRAMMARS[[o for o in s if o[0] in 'CPS'][0][1]][1]},
                    detail=f'after the sequence the last call gives {short(got["last"])}; alone in a fresh interpreter it gives '
                           f'{short(ref["last"])}; first difference {first_diff(got["last"], ref["last"])}',
                    cls=cls, _seq=s))
            for m in got['mutations']:
                # what changed, attributed to the call that was last executed when it became visible (the sequence end)
                key = 'grammar-model-mutated-by-later-call' if m['what'].startswith('Grammar') else \
                    'parserconfig-argument-mutated' if m['what'].startswith('ParserConfig') else 'semantics-object-mutated'
                if key == 'grammar-model-mutated-by-later-call' and m['call'] == len(s) - 1:
                    key = 'grammar-model-mutated-by-its-own-probes'
                failures.append(dict(witness={'sequence': seq_src(s), 'ops': [list(o) for o in s],
                                              'G': {o[1]: GRAMMARS[o[1]][0] for o in s if o[0] in 'CPS'}},
                                     detail=f'{m["what"]} {m["call"]} differs at the end of the sequence from its snapshot when '
                                            f'returned / passed: {json.dumps(m["diff"])[:300]}', cls=key, _seq=s))
        # minimal witnesses: shortest sequence per class; confirm it in a truly fresh interpreter
        by_cls = {}
        for f in failures:
            by_cls.setdefault(f['cls'], []).append(f)
        confirmed = []
        for cls, fs in by_cls.items():
            fs.sort(key=lambda f: (len(f.get('_seq', ())), len(repr(f['witness']))))
            head = fs[0]
            if '_seq' in head and cls != 'harness-error':
                rep = fresh(tuple(head['_seq']) + (), tmp) if len(head['_seq']) > 1 else None
                if rep is not None and 'harness_error' not in rep:
                    ref = ref_results[reference_seq(head['_seq'])]
                    same_fail = (rep['last'] != ref['last']) or bool(rep['mutations'])
                    head['detail'] += ' [replayed in a fresh `python -c` process: ' + ('reproduced' if same_fail else 'NOT reproduced') + ']'
                    if not same_fail:
                        head['cls'] = cls + '-not-reproduced-in-fresh-replay'
            for f in fs:
                f.pop('_seq', None)
                f['witness'].pop('ops', None)
            confirmed += fs
        failures = confirmed
    finally:
        import shutil
        shutil.rmtree(tmp, ignore_errors=True)
    kinds = {}
    for s in order:
        kinds[seqs[s]] = kinds.get(seqs[s], 0) + 1
    items = bitem(
        'C10', 'history', function='tatsu.compile / tatsu.parse / Grammar.parse / tatsu.to_python_sourcecode (+ generated parser)',
        domain=f'{len(order)} call sequences of length <= 3 over {len(GRAMMARS)} grammars x {len(VARIANTS)} variants '
               f'({", ".join(f"{k}: {v}" for k, v in sorted(kinds.items()))}); each in its own forked process; last call vs '
               f'{len(refs_needed)} references computed in truly fresh interpreters; models / ParserConfig / semantics objects '
               f'snapshotted',
        bound='sequences of length <= 3 (quick: all singles and same-grammar pairs, curated triples; thorough: + seeded sample of triples)',
        cases=len(order), distinct_nontrivial=nontriv,
        rule='sequences with at least one call before the last that is not needed to produce its handles',
        exhaustive=False, samples=[seq_src(s) for s in order[:2]] + [seq_src(order[len(order) // 2])], failures=failures,
        note='bounded: history driver for the public API; threads / concurrent parses on a shared model are out of scope of this run')
    if info is not None:
        for it in items:
            info.setdefault('bounded', []).append({k: it.extra.get(k) for k in ('function', 'domain', 'bound', 'cases')})
    return items


def main(argv=None):
    argv = list(sys.argv[1:] if argv is None else argv)
    if argv and argv[0] == '--worker':
        return worker_main(argv[1], argv[2])
    tier = argv[0] if argv else 'quick'
    seed = int(argv[1]) if len(argv) > 1 else 0
    t0 = time.time()
    items = run(tier, seed, {})
    for it in items:
        print(f'{it.status:8} {it.id}  cases={it.extra.get("cases")} nontrivial={it.extra.get("distinct_nontrivial")}'
              + (f' failing={it.extra.get("failing_cases")}' if it.status == 'refuted' else ''))
        if it.status == 'refuted':
            w = it.witness
            print(f'    sequence:  {w.get("sequence")}'[:400])
            if w.get('reference'):
                print(f'    reference: {w.get("reference")}'[:300])
            print(f'    {it.detail}'[:700])
    print(f'C10 bounded [{tier}]: {len(items)} items, {sum(i.status == "refuted" for i in items)} refuted, '
          f'{time.time() - t0:.1f}s')
    return 0


if __name__ == '__main__':
    sys.exit(main())
