"""C16 bounded stand-in: left recursion is detected exactly and never causes unbounded recursion.

(a) function level, on the REAL `tatsu.peg.leftrec.sccutils` and the REAL `Grammar` analysis
    (`Grammar.initialize -> _mark_left_recursion -> pegen.mark_left_recursion`):
    ALL digraphs on <= 4 labelled vertices incl. self loops (2 + 16 + 512 + 65 536; quick: n <= 3 fully and a
    seeded sample of 8 192 of the 4-vertex ones; thorough: all)
      scc        `strongly_connected_components` returns a partition of the vertices equal to the classes of
                 mutual reachability (own reachability closure)
      cycles     `find_cycles_in_scc(graph, scc, start)` for every scc and every start in it: every yielded
                 list is a genuine walk of the graph inside the scc that begins at `start`, repeats no vertex
                 except the last one, which closes a cycle (the pegen contract: `[A, B, C, A]` or the lasso
                 `[A, B, C, B]`); the lists that return to `start` are exactly ALL simple cycles through
                 `start` (own enumeration by permutations) -- hence at least one for every scc with an edge
      leaders    the grammar whose left-call graph is the digraph (rule v = `w 'x'` for every edge v->w, plus
                 the alternative 'z'), built with the real model classes: every cycle of the digraph contains
                 a rule with `is_lrec` (LEADERS); rules on no cycle have `is_memo` and not `is_lrec`; rules on a
                 cycle have `is_memo == False`; (seeded sample) the same flags through `tatsu.compile(text)`
(b) API level: rule graphs with <= 3 rules whose bodies are choices of <= 2 sequences of <= 2 items over
    {call r_i, token 'a', optional [r_i], closure {r_i}} (1 rule: all 420; 2 and 3 rules: seeded samples,
    structurally deduplicated) x a battery of 8 inputs:
      off        `tatsu.compile('@@left_recursion :: False ...')` raises GrammarError exactly when `spec_lrec`
                 (own analysis: nullable as documented, left-call graph = calls preceded only by nullable
                 elements) finds a cycle -- for grammars inside the property's restriction (no call to a
                 nullable rule in such a prefix); the others are counted and skipped for this clause
      on         compile succeeds, the flags satisfy LEADERS / non-cycle rules stay memoized, and every parse
                 of the battery ends (recursion limit + alarm in the worker) with a result or a TatSu exception
      undefined  the same rule graphs with one reference to a rule that does not exist (also inside `{..}+`):
                 compile raises a TatSu exception (GrammarError), never an exception of the analysis
"""
from __future__ import annotations

import itertools
import os
import random
import signal
import sys
import time

from bounded.common import bitem, chunked, pmap

PROP = 'C16'
NAMES = 'abcd'


# --------------------------------------------------------------------------- independent graph specs
def all_digraphs(n):
    """every digraph on the vertices NAMES[:n] as a code: bit (i*n+j) <=> edge i->j"""
    return range(1 << (n * n))


def decode(n, code):
    vs = NAMES[:n]
    return {vs[i]: {vs[j] for j in range(n) if code >> (i * n + j) & 1} for i in range(n)}


def spec_reach(graph):
    """reach[v] = vertices reachable from v by >= 1 edge (plain closure, no DFS numbering)"""
    reach = {v: set(ws) for v, ws in graph.items()}
    changed = True
    while changed:
        changed = False
        for v in reach:
            new = set()
            for w in reach[v]:
                new |= reach[w]
            if not new <= reach[v]:
                reach[v] |= new
                changed = True
    return reach


def spec_sccs(graph):
    reach = spec_reach(graph)
    out = set()
    for v in graph:
        out.add(frozenset([v] + [w for w in graph if w in reach[v] and v in reach[w]]))
    return out


def spec_on_cycle(graph):
    reach = spec_reach(graph)
    return {v for v in graph if v in reach[v]}


def spec_simple_cycles_through(graph, scc, start):
    """all simple cycles through start inside scc as tuples (start, ..., start); by permutations"""
    others = sorted(set(scc) - {start})
    out = set()
    for k in range(len(others) + 1):
        for mid in itertools.permutations(others, k):
            path = (start, *mid, start)
            if all(path[i + 1] in graph[path[i]] for i in range(len(path) - 1)):
                out.add(path)
    return out


def spec_acyclic_without(graph, removed):
    sub = {v: {w for w in ws if w not in removed} for v, ws in graph.items() if v not in removed}
    return not spec_on_cycle(sub)


def gtext(graph):
    return ' '.join(f'{v}->{"".join(sorted(ws)) or "-"}' for v, ws in sorted(graph.items()))


# --------------------------------------------------------------------------- (a) scc / cycles
def check_scc(graph):
    from tatsu.peg.leftrec import sccutils
    fails = []
    w = {'graph': gtext(graph), 'call': f'sccutils.strongly_connected_components({set(graph)!r}, {graph!r})'}
    try:
        got = [set(s) for s in sccutils.strongly_connected_components(set(graph), graph)]
    except Exception as e:
        return [dict(witness=w, detail=f'raised {type(e).__name__}: {e}', cls='scc-raises')], []
    exp = spec_sccs(graph)
    flat = [v for s in got for v in s]
    if sorted(flat) != sorted(graph) or {frozenset(s) for s in got} != exp:
        fails.append(dict(witness=w, detail=f'components {sorted(map(sorted, got))}, classes of mutual reachability '
                                            f'{sorted(map(sorted, exp))}', cls='scc-partition-wrong'))
    return fails, got


def check_cycles(graph, sccs):
    from tatsu.peg.leftrec import sccutils
    fails = []
    ncyc = 0
    for scc in sccs:
        scc = set(scc)
        allc = set()
        for start in sorted(scc):
            w = {'graph': gtext(graph), 'call': f'sccutils.find_cycles_in_scc({graph!r}, {scc!r}, {start!r})'}
            try:
                got = [list(p) for p in sccutils.find_cycles_in_scc(graph, scc, start)]
            except Exception as e:
                fails.append(dict(witness=w, detail=f'raised {type(e).__name__}: {e}', cls='find-cycles-raises'))
                continue
            closed = set()
            for p in got:
                ok = (len(p) >= 2 and p[0] == start and all(v in scc for v in p)
                      and all(p[i + 1] in graph[p[i]] for i in range(len(p) - 1))
                      and len(set(p[:-1])) == len(p) - 1 and p[-1] in p[:-1])
                if not ok:
                    fails.append(dict(witness=w, detail=f'yields {p}: not a walk from {start!r} inside the component that '
                                                        f'repeats only its last vertex', cls='find-cycles-yields-non-cycle'))
                elif p[-1] == start:
                    closed.add(tuple(p))
            exp = spec_simple_cycles_through(graph, scc, start)
            ncyc += len(exp)
            allc |= exp
            if closed != exp:
                miss, extra = sorted(exp - closed), sorted(closed - exp)
                fails.append(dict(witness=w, detail=f'cycles through {start!r}: missing {miss}, not cycles {extra} (yielded {got})',
                                  cls='find-cycles-misses-a-cycle' if miss else 'find-cycles-yields-non-cycle'))
            has_edge = len(scc) > 1 or start in graph[start]
            if has_edge and not got:
                fails.append(dict(witness=w, detail='component with an edge, nothing yielded', cls='find-cycles-yields-nothing'))
            if not has_edge and got:
                fails.append(dict(witness=w, detail=f'single vertex without a self loop, yields {got}', cls='find-cycles-yields-non-cycle'))
    return fails, ncyc


# --------------------------------------------------------------------------- (a) leaders on the real Grammar
def digraph_grammar_text(graph):
    lines = []
    for v in sorted(graph):
        alts = [f"{w} 'x'" for w in sorted(graph[v])] + ["'z'"]
        lines.append(f'{v} = {" | ".join(alts)} ;')
    return '\n'.join(lines) + '\n'


def digraph_grammar(graph):
    from tatsu.peg import Call, Choice, Grammar, Option, Rule, Sequence, Token
    rules = []
    for v in sorted(graph):
        opts = [Option(ast=Sequence(ast=[Call(ast=w), Token(ast='x')])) for w in sorted(graph[v])]
        opts.append(Option(ast=Token(ast='z')))
        rules.append(Rule(name=v, exp=Choice(ast=opts), params=(), kwparams={}, decorators=[]))
    return Grammar('G', rules)


def _common_vertex(graph, _unused=None):
    """is some vertex on every simple cycle of the component of `cyc` vertices?  (for classification only)"""
    out = {}
    for scc in spec_sccs(graph):
        cycles = set()
        for s in scc:
            cycles |= {frozenset(c) for c in spec_simple_cycles_through(graph, scc, s)}
        if cycles:
            out[scc] = bool(frozenset.intersection(*cycles))
    return out


def unled(graph, lrec):
    """-> (rules on a cycle that contains no rule of `lrec`, do the cycles of one of their components share no rule?)"""
    sub = {v: {x for x in ws if x not in lrec} for v, ws in graph.items() if v not in lrec}
    left = sorted(spec_on_cycle(sub))
    if not left:
        return [], False
    common = _common_vertex(graph, None)
    return left, any(not c for scc, c in common.items() if set(left) & scc)


NO_COMMON = '-in-component-whose-cycles-share-no-rule'


def check_flags(graph, flags, how, text):
    """flags: {rule: (is_lrec, is_memo)} -> failures"""
    fails = []
    cyc = spec_on_cycle(graph)
    lrec = {v for v, (l, _m) in flags.items() if l}
    w = {'grammar_text': text, 'left_call_graph': gtext(graph), 'how': how,
         'flags': {v: {'is_lrec': l, 'is_memo': m} for v, (l, m) in sorted(flags.items())}}
    left, nocommon = unled(graph, lrec)
    if left:
        fails.append(dict(witness=w, detail=f'LEADERS: the rules {left} lie on a cycle of the left-call graph that contains no rule '
                                            f'marked is_lrec (marked: {sorted(lrec)})'
                                            + ('; the cycles of that component share no rule' if nocommon else ''),
                          cls='cycle-without-leader' + (NO_COMMON if nocommon else '')))
    for v, (l, m) in sorted(flags.items()):
        if v not in cyc:
            if l:
                fails.append(dict(witness=w, detail=f'rule {v} lies on no cycle but is marked is_lrec', cls='rule-off-cycle-marked-lrec'))
            if not m:
                fails.append(dict(witness=w, detail=f'rule {v} lies on no cycle but lost is_memo', cls='rule-off-cycle-not-memoized'))
        elif m:
            fails.append(dict(witness=w, detail=f'rule {v} lies on a cycle (seed growing re-evaluates it) but keeps is_memo',
                              cls='rule-on-cycle-still-memoized'))
    return fails


def _guarded_parse(model, text, limit=1500, seconds=5):
    """-> ('ok'|'tatsu'|'recursion'|'timeout'|'other', detail)"""
    from tatsu.exceptions import TatSuException
    old = sys.getrecursionlimit()
    sys.setrecursionlimit(limit)
    signal.setitimer(signal.ITIMER_VIRTUAL, seconds)  # CPU time: robust against a busy machine
    try:
        model.parse(text)
        return 'ok', ''
    except _Timeout:
        return 'timeout', f'no result within {seconds} s'
    except TatSuException as e:
        return 'tatsu', type(e).__name__
    except RecursionError:
        return 'recursion', f'RecursionError at recursion limit {limit}'
    except Exception as e:
        return 'other', f'{type(e).__name__}: {e}'[:200]
    finally:
        signal.setitimer(signal.ITIMER_VIRTUAL, 0)
        sys.setrecursionlimit(old)


class _Timeout(BaseException):
    pass


def _alarm(_s, _f):
    raise _Timeout()


def _work_a(job):
    n, codes, compile_every = job
    signal.signal(signal.SIGVTALRM, _alarm)
    import tatsu
    cases = dict(scc=0, cycles=0, leaders=0, compiled=0)
    nontriv = dict(scc=0, cycles=0, leaders=0)
    f_scc, f_cyc, f_lead = [], [], []
    for k, code in enumerate(codes):
        graph = decode(n, code)
        fs, sccs = check_scc(graph)
        cases['scc'] += 1
        nontriv['scc'] += any(len(s) > 1 for s in spec_sccs(graph))
        f_scc += fs
        if not fs:
            fc, ncyc = check_cycles(graph, sccs)
            cases['cycles'] += sum(len(s) for s in sccs)
            nontriv['cycles'] += ncyc
            f_cyc += fc
        text = digraph_grammar_text(graph)
        cases['leaders'] += 1
        cyc = spec_on_cycle(graph)
        nontriv['leaders'] += bool(cyc)
        try:
            g = digraph_grammar(graph)
            flags = {r.name: (bool(r.is_lrec), bool(r.is_memo)) for r in g.rules}
            fl = check_flags(graph, flags, 'Grammar(name, rules) built from the model classes', text)
            if any(f['cls'].startswith('cycle-without-leader') for f in fl):
                # show the consequence on the real parser
                res = _guarded_parse(g, 'z')
                for f in fl:
                    if f['cls'].startswith('cycle-without-leader'):
                        f['witness']['input'] = 'z'
                        f['detail'] += f"; parsing 'z' with that grammar: {res[0]} {res[1]}"
            f_lead += fl
        except Exception as e:
            f_lead.append(dict(witness={'grammar_text': text, 'left_call_graph': gtext(graph)},
                               detail=f'building the grammar raised {type(e).__name__}: {e}', cls=f'grammar-analysis-raises-{type(e).__name__.lower()}'))
        if compile_every and k % compile_every == 0:
            cases['compiled'] += 1
            try:
                m = tatsu.compile(text)
                flags2 = {r.name: (bool(r.is_lrec), bool(r.is_memo)) for r in m.rules}
                f_lead += check_flags(graph, flags2, 'tatsu.compile(grammar_text)', text)
            except Exception as e:
                f_lead.append(dict(witness={'grammar_text': text}, detail=f'tatsu.compile raised {type(e).__name__}: {e}',
                                   cls=f'compile-raises-{type(e).__name__.lower()}'))
    return cases, nontriv, f_scc, f_cyc, f_lead


def run_digraphs(tier, seed):
    rnd = random.Random(f'C16-a-{seed}')
    jobs = []
    total = 0
    sizes = {}
    for n in (1, 2, 3, 4):
        codes = list(all_digraphs(n))
        if n == 4 and tier == 'quick':
            codes = sorted(rnd.sample(codes, 8192))
        sizes[n] = len(codes)
        total += len(codes)
        every = {1: 1, 2: 1, 3: 8}.get(n, 64 if tier == 'quick' else 128)
        for ch in chunked(codes, 1 if n < 3 else (4 if n == 3 else 48)):
            jobs.append((n, ch, every))
    res = pmap(_work_a, jobs)
    cases = dict(scc=0, cycles=0, leaders=0, compiled=0)
    nontriv = dict(scc=0, cycles=0, leaders=0)
    F = ([], [], [])
    for c, nt, a, b, d in res:
        for k in cases:
            cases[k] += c[k]
        for k in nontriv:
            nontriv[k] += nt[k]
        F[0].extend(a)
        F[1].extend(b)
        F[2].extend(d)
    exhaustive = tier != 'quick'
    dom = (f'all digraphs on 1..4 labelled vertices incl. self loops ({sizes[1]} + {sizes[2]} + {sizes[3]} + {sizes[4]}'
           + ('' if exhaustive else ' seeded sample of 65 536') + ')')
    bound = '<= 4 vertices' + ('' if exhaustive else ' (4 vertices: sample)')
    sample = [gtext(decode(3, 0b011101110)), gtext(decode(2, 0b1111))]
    items = bitem(PROP, 'scc', function='tatsu.peg.leftrec.sccutils.strongly_connected_components', domain=dom, bound=bound,
                  cases=cases['scc'], distinct_nontrivial=nontriv['scc'], rule='digraphs with a component of more than one vertex',
                  exhaustive=exhaustive, samples=sample, failures=F[0],
                  note='bounded: SCC partition equals the classes of mutual reachability')
    items += bitem(PROP, 'find-cycles', function='tatsu.peg.leftrec.sccutils.find_cycles_in_scc', domain=dom + ' x every component x every start vertex',
                   bound=bound, cases=cases['cycles'], distinct_nontrivial=nontriv['cycles'],
                   rule='simple cycles through the start vertex that had to be found (cases = (component, start) pairs)',
                   exhaustive=exhaustive, samples=sample, failures=F[1],
                   note='bounded: only genuine cycles (closed or pegen lasso form) and every simple cycle through the start vertex')
    items += bitem(PROP, 'leaders', function='tatsu.peg.base.Grammar.initialize/_mark_left_recursion -> leftrec.pegen.mark_left_recursion',
                   domain=dom + f": grammar with that left-call graph (rule v = w 'x' per edge v->w | 'z'), built from the model classes; "
                               f'{cases["compiled"]} of them also through tatsu.compile(text)',
                   bound=bound, cases=cases['leaders'], distinct_nontrivial=nontriv['leaders'], rule='digraphs with at least one cycle',
                   exhaustive=exhaustive, samples=[digraph_grammar_text(decode(2, 0b1111))], failures=F[2],
                   note='bounded: every cycle of the left-call graph has a rule with is_lrec; rules off every cycle stay memoized, '
                        'are not is_lrec; rules on a cycle are not memoized')
    return items


# --------------------------------------------------------------------------- (b) rule graphs
# tokens are separated by blanks: with the default nameguard the token 'a' does not match inside 'aa'
BATTERY = ('', 'a', 'a a', 'a a a', 'a a a a', 'b', 'a b', 'aa')


def items_for(n):
    rs = [f'r{i}' for i in range(n)]
    return [('tok',)] + [('call', r) for r in rs] + [('opt', r) for r in rs] + [('clo', r) for r in rs]


def item_text(it):
    return {'tok': "'a'", 'call': '{0}', 'opt': '[{0}]', 'clo': '{{{0}}}'}[it[0]].format(*it[1:])


def grammar_text(bodies, directive=''):
    """bodies: tuple of rule bodies; a body is a tuple of 1..2 sequences; a sequence a tuple of 1..2 items"""
    lines = [directive] if directive else []
    for i, body in enumerate(bodies):
        lines.append(f'r{i} = ' + ' | '.join(' '.join(item_text(it) for it in seq) for seq in body) + ' ;')
    return '\n'.join(lines) + '\n'


def all_bodies(n):
    its = items_for(n)
    seqs = [(a,) for a in its] + [(a, b) for a in its for b in its]
    out = [(s,) for s in seqs]
    out += [(s, t) for s in seqs for t in seqs if s != t]  # `s | s` is the one-sequence body
    return out


def random_body(n, rnd, ptok):
    its = items_for(n)

    def item():
        return its[0] if rnd.random() < ptok else rnd.choice(its[1:])

    def seq():
        return tuple(item() for _ in range(rnd.choice((1, 2, 2))))

    s = seq()
    if rnd.random() < 0.3:
        return (s,)
    t = seq()
    return (s,) if s == t else (s, t)


def sample_grammars(n, count, rnd):
    seen, out = set(), []
    tries = 0
    while len(out) < count and tries < count * 20:
        tries += 1
        ptok = rnd.choice((0.25, 0.5, 0.7))
        g = tuple(random_body(n, rnd, ptok) for _ in range(n))
        # structural dedupe: identical, or equal up to renaming the rules other than the start rule
        key = min(_renamed(g, perm) for perm in _perms(n))
        if key in seen:
            continue
        seen.add(key)
        out.append(g)
    return out


def _perms(n):
    return [(0, *p) for p in itertools.permutations(range(1, n))]


def _renamed(g, perm):
    ren = {f'r{i}': f'r{perm[i]}' for i in range(len(g))}
    bodies = [None] * len(g)
    for i, body in enumerate(g):
        bodies[perm[i]] = tuple(tuple((it[0], ren[it[1]]) if len(it) == 2 else it for it in seq) for seq in body)
    return tuple(bodies)


# ---- independent analysis
def spec_nullable(g):
    """documented nullability, least fixpoint: token no, call = the rule, optional/closure yes, sequence all, choice any"""
    n = len(g)
    null = {f'r{i}': False for i in range(n)}

    def item_null(it):
        return it[0] in ('opt', 'clo') or (it[0] == 'call' and null[it[1]])

    changed = True
    while changed:
        changed = False
        for i, body in enumerate(g):
            v = any(all(item_null(it) for it in seq) for seq in body)
            if v and not null[f'r{i}']:
                null[f'r{i}'] = True
                changed = True
    return null


def spec_restricted(g, null):
    """the property's restriction: no call to a nullable rule sits in a nullable prefix (i.e. is followed by
    something whose left position it decides)"""
    for body in g:
        for seq in body:
            if len(seq) == 2 and seq[0][0] == 'call' and null[seq[0][1]]:
                return False
    return True


def spec_leftcalls(g, null):
    graph = {f'r{i}': set() for i in range(len(g))}
    for i, body in enumerate(g):
        for seq in body:
            for it in seq:
                if it[0] != 'tok':
                    graph[f'r{i}'].add(it[1])
                nullable = it[0] in ('opt', 'clo') or (it[0] == 'call' and null[it[1]])
                if not nullable:
                    break
    return graph


def spec_lrec(g):
    """-> (inside restriction?, left-call graph, rules on a cycle)"""
    null = spec_nullable(g)
    graph = spec_leftcalls(g, null)
    return spec_restricted(g, null), graph, spec_on_cycle(graph)


def _compile(text, **kw):
    import tatsu
    from tatsu.exceptions import GrammarError, TatSuException
    try:
        return 'ok', tatsu.compile(text, **kw)
    except GrammarError as e:
        return 'GrammarError', str(e)[:200]
    except TatSuException as e:
        return f'tatsu:{type(e).__name__}', str(e)[:200]
    except RecursionError as e:
        return 'RecursionError', str(e)[:100]
    except Exception as e:
        return f'other:{type(e).__name__}', f'{type(e).__name__}: {e}'[:200]


def check_rule_graph(g):
    """-> (stats, failures)"""
    fails = []
    st = dict(restricted=0, lrec=0, parses=0, parses_ok=0)
    inside, graph, cyc = spec_lrec(g)
    st['restricted'] = int(inside)
    st['lrec'] = int(bool(cyc))
    text_off = grammar_text(g, '@@left_recursion :: False')
    text_on = grammar_text(g)
    # --- off: GrammarError <=> cycle
    kind, val = _compile(text_off)
    w_off = {'grammar_text': text_off, 'call': 'tatsu.compile(grammar_text)', 'spec_left_call_graph': gtext(graph)}
    if kind not in ('ok', 'GrammarError'):
        fails.append(dict(witness=w_off, detail=f'compile raised {val}', cls=f'compile-left-recursion-off-raises-{kind.split(":")[-1].lower()}'))
    elif inside:
        if kind == 'GrammarError' and 'left' not in val:
            fails.append(dict(witness=w_off, detail=f'GrammarError for another reason: {val}', cls='compile-left-recursion-off-other-grammar-error'))
        elif (kind == 'GrammarError') != bool(cyc):
            fails.append(dict(
                witness=w_off,
                detail=(f'rules {sorted(cyc)} reach themselves through calls preceded only by nullable elements, compile accepted the grammar'
                        if cyc else f'no rule reaches itself in left position, compile raised GrammarError: {val}'),
                cls='left-recursion-off-cycle-not-reported' if cyc else 'left-recursion-off-false-grammar-error'))
    # --- on
    kind, model = _compile(text_on)
    w_on = {'grammar_text': text_on, 'call': 'tatsu.compile(grammar_text)', 'spec_left_call_graph': gtext(graph)}
    if kind != 'ok':
        fails.append(dict(witness=w_on, detail=f'compile raised {kind}: {model}', cls=f'compile-raises-{kind.split(":")[-1].lower()}'))
        return st, fails
    if inside:
        flags = {r.name: (bool(r.is_lrec), bool(r.is_memo)) for r in model.rules}
        fails += check_flags(graph, flags, 'tatsu.compile(grammar_text)', text_on)
    lrec_marked = sorted(r.name for r in model.rules if r.is_lrec)
    # cycles without a leader: in the left-call graph as TatSu reads it (a call is never nullable), and -- outside the
    # restriction -- in the documented one, where a call to a nullable rule lets the next item start at the same position
    syntactic = graph if inside else spec_leftcalls(g, {f'r{i}': False for i in range(len(g))})
    un_syn, nocommon = unled(syntactic, set(lrec_marked))
    un_true = un_syn if inside else unled(graph, set(lrec_marked))[0]
    unled_cycle = bool(un_syn or un_true)
    for inp in BATTERY:
        st['parses'] += 1
        res, det = _guarded_parse(model, inp)
        if res == 'recursion' and not unled_cycle:
            # no analysis explains it: make sure it is not merely a deep (bounded) recursion
            res2, det2 = _guarded_parse(model, inp, limit=6000, seconds=20)
            if res2 == 'recursion':
                res, det = res2, det + ' and at 6000'
            else:
                res, det = res2, det2
        elif res == 'timeout':
            res, det = _guarded_parse(model, inp, seconds=30)
        if res in ('ok', 'tatsu'):
            st['parses_ok'] += res == 'ok'
            continue
        w = dict(w_on, input=inp, call=f'tatsu.compile(grammar_text).parse({inp!r})')
        suffix = '' if inside else '-grammar-outside-restriction'
        if res == 'recursion':
            if un_syn:
                cls = 'recursionerror-cycle-without-leader' + (NO_COMMON if nocommon else '')
                why = f'rules on a cycle of the left-call graph with no leader: {un_syn}'
            elif un_true and all(r.is_memo and not r.is_lrec for r in model.rules if r.name in un_true) and any(r.name in un_true for r in model.rules):
                # every rule on the hidden cycle keeps its results: the guard planted in the memo table before a rule body runs stops
                # the recursion (that is how such grammars parse although the analysis does not see the cycle)
                cls = 'recursionerror-hidden-left-recursion-of-memoizable-rules-not-stopped-by-the-guard'
                why = (f'rules {un_true} reach themselves at the same position through a call to a nullable rule; all of them are memoizable, so the '
                       'left-recursion guard in the memo table has to end the recursion with a parse failure')
            elif un_true:
                cls = 'recursionerror-hidden-left-recursion-through-call-to-nullable-rule'
                why = (f'rules {un_true} reach themselves at the same position through a call to a nullable rule '
                       f'(nullable: {sorted(k for k, v in spec_nullable(g).items() if v)}); the analysis treats calls as never nullable, '
                       'sees no such cycle, and these rules are not memoized (their component has another leader), so no guard stops the recursion')
            else:
                cls = 'recursionerror-though-every-cycle-has-a-leader' + suffix
                why = 'every cycle has a leader'
            fails.append(dict(witness=w, detail=f'{det}; rules marked is_lrec: {lrec_marked}; {why}', cls=cls))
        elif res == 'timeout':
            fails.append(dict(witness=w, detail=det, cls='parse-does-not-end-within-budget' + suffix))
        else:
            fails.append(dict(witness=w, detail=f'parse raised a non-TatSu exception: {det}', cls='parse-raises-non-tatsu-exception' + suffix))
        break  # one failing input per grammar (the failing runs are the slow ones)
    return st, fails


UNDEFINED_FORMS = ('zz', '[zz]', '{zz}', '{zz}+', 'zz+', "','.{zz}+")


def check_undefined(g, k):
    """replace the k-th item position (round robin over forms) by a reference to the undefined rule zz"""
    fails = []
    form = UNDEFINED_FORMS[k % len(UNDEFINED_FORMS)]
    lines = []
    done = False
    for i, body in enumerate(g):
        alts = []
        for seq in body:
            parts = [item_text(it) for it in seq]
            if not done and i == k % len(g):
                parts[-1 if (k // len(g)) % 2 else 0] = form
                done = True
            alts.append(' '.join(parts))
        lines.append(f'r{i} = ' + ' | '.join(alts) + ' ;')
    base = '\n'.join(lines) + '\n'
    for directive in ('', '@@left_recursion :: False\n'):
        text = directive + base
        kind, val = _compile(text)
        w = {'grammar_text': text, 'call': 'tatsu.compile(grammar_text)', 'undefined_rule': 'zz'}
        if kind == 'ok':
            fails.append(dict(witness=w, detail='compile accepted a grammar that references the undefined rule zz', cls='undefined-rule-accepted'))
        elif kind != 'GrammarError' and not kind.startswith('tatsu:'):
            where = 'positive-closure' if '+' in form else 'plain'
            fails.append(dict(witness=w, detail=f'compile raised {val} instead of a TatSu exception (GrammarError: unknown rules)',
                              cls=f'undefined-rule-in-{where}-raises-{kind.split(":")[-1].lower()}'))
    return fails


def _work_b(job):
    signal.signal(signal.SIGVTALRM, _alarm)
    out = []
    for kind, g, k in job:
        if kind == 'graph':
            out.append(('graph', *check_rule_graph(g)))
        else:
            out.append(('undef', {}, check_undefined(g, k)))
    return out


def run_rule_graphs(tier, seed):
    from bounded.common import JOBS
    rnd = random.Random(f'C16-b-{seed}')
    one = [(b,) for b in all_bodies(1)]
    n2, n3 = (1800, 1800) if tier == 'quick' else (14000, 14000)
    two = sample_grammars(2, n2, rnd)
    three = sample_grammars(3, n3, rnd)
    graphs = one + two + three
    nund = 240 if tier == 'quick' else 2400
    und = [(rnd.choice(graphs), k) for k in range(nund)]
    work = [('graph', g, 0) for g in graphs] + [('undef', g, k) for g, k in und]
    rnd.shuffle(work)
    res = pmap(_work_b, chunked(work, JOBS * 6))
    st = dict(restricted=0, lrec=0, parses=0, parses_ok=0, inside_lrec=0)
    f_graph, f_und = [], []
    ngraph = 0
    for r in res:
        for kind, s, fs in r:
            if kind == 'graph':
                ngraph += 1
                for k in ('restricted', 'lrec', 'parses', 'parses_ok'):
                    st[k] += s[k]
                st['inside_lrec'] += s['restricted'] and s['lrec']
                f_graph += fs
            else:
                f_und += fs
    dom = (f'rule graphs: all {len(one)} one-rule grammars + {len(two)} two-rule + {len(three)} three-rule grammars (seeded, deduplicated '
           f'up to renaming), bodies = choices of <= 2 sequences of <= 2 items over {{call, \'a\', [call], {{call}}}} x {len(BATTERY)} inputs '
           f'{list(BATTERY)}; {ngraph - st["restricted"]} grammars outside the restriction (call to a nullable rule in a prefix) '
           f'skipped for the GrammarError clause, kept for the termination clause')
    items = bitem(PROP, 'rule-graphs', function="tatsu.compile('@@left_recursion :: False ...') / tatsu.compile(...).parse(input)",
                  domain=dom, bound='<= 3 rules, <= 2 alternatives, <= 2 items' + ('; 1 rule exhaustive, 2-3 rules sampled'),
                  cases=ngraph, distinct_nontrivial=st['inside_lrec'],
                  rule='grammars inside the restriction with a left-recursive cycle (GrammarError expected)', exhaustive=False,
                  samples=[grammar_text(two[0]), grammar_text(three[0])], failures=f_graph,
                  note='bounded: GrammarError <=> spec_lrec finds a cycle; with left recursion on every parse ends with a result or a TatSu exception')
    for it in items:
        it.extra.update(grammars=ngraph, inside_restriction=st['restricted'], outside_restriction=ngraph - st['restricted'],
                        with_cycle=st['lrec'], parses=st['parses'], parses_accepted=st['parses_ok'])
    items += bitem(PROP, 'undefined-rule', function='tatsu.compile -> Grammar.initialize (analysis order)',
                   domain=f'{nund} of the rule graphs with one item replaced by a reference to the undefined rule zz in the forms '
                          f'{list(UNDEFINED_FORMS)}, left recursion on and off',
                   bound='sample', cases=2 * nund, distinct_nontrivial=2 * nund, rule='every case references an undefined rule',
                   exhaustive=False, samples=["r0 = {zz}+ ;"], failures=f_und,
                   note='bounded: a grammar with an undefined rule is rejected with a TatSu exception, not by an exception of the left-recursion analysis')
    return items


# --------------------------------------------------------------------------- entry points
def run(tier='quick', seed=0, info=None, parts=('digraphs', 'rule-graphs')):
    items = []
    if 'digraphs' in parts:
        items += run_digraphs(tier, seed)
    if 'rule-graphs' in parts:
        items += run_rule_graphs(tier, seed)
    if info is not None:
        for it in items:
            info.setdefault('bounded', []).append({k: it.extra.get(k) for k in ('function', 'domain', 'bound', 'cases')})
    return items


def main(argv=None):
    argv = list(sys.argv[1:] if argv is None else argv)
    tier = argv[0] if argv else 'quick'
    seed = int(argv[1]) if len(argv) > 1 else int(os.environ.get('VERIF_SEED', '0') or 0)
    parts = tuple(argv[2].split(',')) if len(argv) > 2 else ('digraphs', 'rule-graphs')
    t0 = time.time()
    import tatsu
    print(f'tatsu from {os.path.dirname(tatsu.__file__)}')
    items = run(tier, seed, {}, parts)
    for it in items:
        print(f'{it.status:8} {it.id}  cases={it.extra.get("cases")} nontrivial={it.extra.get("distinct_nontrivial")}'
              + (f' failing={it.extra.get("failing_cases")}' if it.status == 'refuted' else ''))
        if it.status == 'refuted':
            print(f'    witness: {it.witness!r}'[:500])
            print(f'    {it.detail}'[:500])
    for it in items:
        if 'grammars' in it.extra:
            print('    rule graphs: ' + ', '.join(f'{k}={it.extra[k]}' for k in ('grammars', 'inside_restriction', 'outside_restriction',
                                                                                  'with_cycle', 'parses', 'parses_accepted')))
            break
    print(f'C16 bounded [{tier}]: {len(items)} items, {sum(i.status == "refuted" for i in items)} refuted, '
          f'{time.time() - t0:.1f}s')
    return 0


if __name__ == '__main__':
    sys.exit(main())
