"""C17 bounded stand-in: constant expressions of a grammar are evaluated in a sandbox.

Expression strings are evaluated through

  helper   tatsu.util.safeeval.is_eval_safe / safe_eval with the context the engine builds
           (safe_builtins() | names of the current AST), as expression and as f-string
  model    a grammar  `start = x:word n:num xs+:letter xs+:letter xs+:letter v:`EXPR` $`  parsed by the
           compiled model on "ab 42 b a c"
  alert    the same with  ^`EXPR`  (value read back from parseinfo.alerts)
  gen      the same constant through the generated parser (to_python_sourcecode + exec)

in WORKER SUBPROCESSES (stdin = /dev/null, own cwd) under a `sys.addaudithook` hook.  Contract:

  * no forbidden audit event during evaluation: open / os.* / subprocess / socket / input / breakpoint /
    ctypes / shutil at any depth, and import / exec / compile raised from inside the evaluated expression
    (frames whose globals carry the sandbox's empty `__builtins__`; the engine's own ast.parse/eval of the
    expression text are outside such frames and are not counted);
  * no SystemExit raised (anywhere in the exception chain), the worker never dies;
  * a name of spec.FORBIDDEN (DESIGN 3/C17: open eval exec compile input exit quit breakpoint __import__
    getattr setattr delattr hasattr globals locals vars dir help ...) is never callable: the call is
    rejected (left as text / SecurityError);
  * dunder attributes are never reached (also not through str.format field traversal);
  * the only exceptions are SecurityError/ValueError/SyntaxError/TypeError/AttributeError from the helper
    and TatSu ParseException from a parse;
  * safe expressions give the value Python gives.
Threads/async are out of scope.
"""
from __future__ import annotations

import builtins
import json
import os
import subprocess
import sys
import tempfile
import time
from concurrent.futures import ThreadPoolExecutor

from bounded.common import JOBS, bitem, chunked

# --------------------------------------------------------------------------- the expression battery
FORBIDDEN = {
    'open', 'eval', 'exec', 'compile', 'input', 'exit', 'quit', 'breakpoint', '__import__', 'getattr', 'setattr',
    'delattr', 'hasattr', 'globals', 'locals', 'vars', 'dir', 'help', 'type', 'object', 'super', 'memoryview',
    'id', 'classmethod', 'staticmethod', 'property', '__build_class__', '__loader__', '__spec__', 'copyright',
    'credits', 'license', 'aiter', 'anext',
}
NAMES = {'x': 'ab', 'n': '42', 'xs': ['b', 'a', 'c']}
INPUT = 'ab 42 b a c'

PLAUSIBLE = {
    'open': ["open('/etc/hostname')", "open('/etc/hostname').read()", "open('c17_probe.txt', 'w')"],
    '__import__': ["__import__('os')", "__import__('os').system('true')"],
    'eval': ["eval('1')", "eval('1+1')"],
    'exec': ["exec('y=1')"],
    'compile': ["compile('1', 'f', 'eval')"],
    'input': ['input()', "input('? ')"],
    'exit': ['exit()', 'exit(3)'],
    'quit': ['quit()'],
    'breakpoint': ['breakpoint()'],
    'help': ['help()', "help('len')"],
    'getattr': ["getattr(x, '__class__')", "getattr(x, 'upper')()"],
    'setattr': ["setattr(xs, 'a', 1)"],
    'delattr': ["delattr(x, 'a')", "delattr(xs, '__doc__')"],
    'hasattr': ["hasattr(x, '__class__')"],
    'globals': ['globals()'],
    'locals': ['locals()'],
    'vars': ['vars()', 'vars(x)'],
    'dir': ['dir()', 'dir(x)'],
    'type': ['type(x)', "type('E', (), {})"],
    'object': ['object()'],
    'super': ['super()'],
    'id': ['id(x)'],
    'print': ["print('c17')"],
    'iter': ['iter(xs)', 'iter(exit, 1)', 'next(iter(quit, 1))'],
    'next': ['next(iter(xs))'],
    'format': ["format(n, '>4')", "format(x, '{0.__class__}')"],
    'callable': ['callable(len)'],
    'hash': ['hash(x)'],
    'len': ['len(x)', 'len(xs)'],
    'min': ['min(xs)'], 'max': ['max(xs)'], 'sorted': ['sorted(xs)'], 'sum': ['sum([1, 2])'],
    'abs': ['abs(-3)'], 'all': ['all(xs)'], 'any': ['any(xs)'], 'ascii': ['ascii(x)'], 'bin': ['bin(5)'],
    'chr': ['chr(65)'], 'divmod': ['divmod(7, 2)'], 'hex': ['hex(255)'], 'oct': ['oct(8)'], 'ord': ["ord('a')"],
    'pow': ['pow(2, 5)'], 'repr': ['repr(x)'], 'round': ['round(2.5)'], 'int': ['int(n)'], 'str': ['str(1)'],
    'float': ["float('1.5')"], 'bool': ['bool(x)'], 'list': ['list(x)'], 'tuple': ['tuple(xs)'], 'set': ['set(xs)'],
    'dict': ['dict(a=1)'], 'bytes': ["bytes(x, 'ascii')"], 'bytearray': ['bytearray(2)'], 'memoryview': ["memoryview(b'a')"],
    'range': ['range(3)', 'list(range(3))'], 'enumerate': ['enumerate(xs)'], 'zip': ['zip(xs, xs)'],
    'map': ['map(len, xs)', 'list(map(exit, xs))'], 'filter': ['filter(None, xs)'], 'reversed': ['reversed(xs)'],
    'slice': ['slice(1)'], 'frozenset': ['frozenset(xs)'], 'complex': ['complex(1, 2)'],
    'isinstance': ['isinstance(x, str)'], 'issubclass': ['issubclass(str, str)'],
    'classmethod': ['classmethod(len)'], 'staticmethod': ['staticmethod(len)'], 'property': ['property(len)'],
    'aiter': ['aiter(xs)'], 'anext': ['anext(xs)'],
    'copyright': ['copyright()'], 'credits': ['credits()'], 'license': ['license()'],
}


def builtin_cases():
    out = []
    for name in sorted(dir(builtins)):
        if not name.isidentifier():
            continue
        exprs = PLAUSIBLE.get(name)
        if exprs is None:
            val = getattr(builtins, name)
            if isinstance(val, type) and issubclass(val, BaseException):
                exprs = [f"{name}('c17')"]
            elif callable(val):
                exprs = [f'{name}()', f'{name}(x)']
            else:
                exprs = [name]
        for e in exprs:
            out.append(dict(kind='builtin', name=name, expr=e))
    return out


def other_cases():
    c = []

    def add(kind, expr, **kw):
        c.append(dict(kind=kind, expr=expr, **kw))

    # attribute chains, with and without dunders
    for e in ['x.upper', 'x.upper()', 'x.upper().lower()', 'xs.copy()', 'x.__class__', 'x.__class__.__mro__',
              'x.__class__.__base__.__subclasses__()', 'xs.__len__()', 'x.upper.__self__', 'len.__self__',
              'len.__self__.open', "len.__self__.open('/etc/hostname')", 'x.__doc__', 'x._x', "x.join(xs)",
              "x.__init__.__globals__", "().__class__.__bases__[0].__subclasses__()", "x.format.__self__"]:
        add('attr', e)
    # dunder through format-field traversal (no ast.Attribute node)
    for e in ["'{0.__class__}'.format(x)", "'{0.__class__.__mro__}'.format(x)", "'{a.__class__}'.format_map({'a': x})",
              "'{0.__init__.__globals__}'.format(len)", "'{0.upper}'.format(x)"]:
        add('format-dunder', e)
    # comprehensions / generators
    for e in ['[c for c in x]', '[x for x in xs]', '[len(x) for x in xs]', '{x: n for x in xs}', '{x for x in xs}',
              'sorted(x for x in xs)', '[len(len) for len in [exit]]', '[len() for len in [quit]]',
              "[len('/etc/hostname') for len in [open]]", "[len('1') for len in [eval]]",
              '[n for n in [input]][0]()', '[x.upper() for x in xs if x]']:
        add('comprehension', e)
    # lambdas
    for e in ['(lambda: 1)()', 'lambda: exit()', '(lambda q: q)(1)', 'sorted(xs, key=lambda q: q)',
              "(lambda len: len('/etc/hostname'))(open)", 'sorted(xs, key=len)', "max(xs, key=exit)",
              "sorted(['1'], key=eval)", "sorted(['/etc/hostname'], key=open)", "min(['y=1'], key=exec)"]:
        add('lambda', e)
    # f-strings, nesting
    for e in ["f'{x}-{n}'", "f'{x!r:>6}'", "f'{x:{n}}'", "f'{f\"{x}\"}'", "f'{len(xs)}'", "f'{x.__class__}'",
              "f'{open(\"/etc/hostname\").read()}'", "f'{exit()}'", "f'{f\"{eval(n)}\"}'", "f'{x:{exit()}}'",
              "f'{input()}'"]:
        add('fstring', e)
    # free interpolation text (no expression syntax): the constant text itself is an f-string body
    for e in ['seen {x} and {n}', '{x.upper()}!', 'v={len(xs)};', "{open('/etc/hostname').read()}", '{exit()}',
              "{eval('1')}.", '{x.__class__}', '{xs[0]}{xs[1]}?']:
        add('interp', e)
    # misc syntax routes to a call
    for e in ['(exit)()', '[exit][0]()', 'exit.__call__()', '(y := exit)()', 'x if x else exit()', 'exit and exit()',
              '(open)("/etc/hostname")', 'open.__call__("/etc/hostname")', '*xs', 'xs[0]', 'xs[::-1]', 'x * 2',
              'n + x', '1 if xs else 2', '(y := 3) + y', 'not x', 'x == x', 'x in xs', 'await x', 'yield x']:
        add('syntax', e)
    return c


SAFE = [  # expressions whose python value is a fixpoint of the engine's re-interpretation
    '1 + 2 * 3', '2 ** 10', '7 // 2', '7 % 3', '-5', '1.5 * 2', '(1, 2)', '[1, 2, 3]', "{'a': 1}", 'True and False',
    'not True', '1 < 2 < 3', 'len(x)', 'len(xs)', 'min(xs)', 'max(xs)', 'sorted(xs)', 'sum([1, 2, 3])', 'abs(-3)',
    'x.upper() + "!"', "x.replace('a', 'z') + '.'", "'-'.join(xs) + ';'", 'x.startswith("a")', 'x.split("b")',
    'xs[0] + "."', 'xs[::-1]', 'x * 2 + "~"', 'n + x', 'x in xs', 'len(xs) * 2', "f'{x}-{n}!'", "f'{len(xs)} items'",
    "f'{x!r} {n:>4}|'", 'x if xs else n', 'ord("a")', 'chr(65) + "."', 'divmod(7, 2)', 'round(2.675, 2)', 'pow(2, 5)',
    'hex(255) + "h"', 'any(xs)', 'all(xs)', 'repr(x) + "."', 'max(len(x), len(xs))', "sorted(xs)[0] + '#'",
]
SAFE_INTERP = ['seen {x} and {n}', '{x.upper()}!', 'v={len(xs)};', '<{xs[0]}{xs[1]}>', '{x}-{n}-{x}']
# NOTE the engine evaluates constants in several passes ON PURPOSE (tests/grammar/semantics_test.py::
# test_constant_math / test_constant_deep_eval pin `{a} / {b}` -> '7 / 2' -> 3.5), so an interpolated string is
# evaluated again and `{n}` gives 42, not '42'.  That is not judged here; what is judged is that text which
# reaches evaluation that way (INJECT: the parsed INPUT) stays inside the sandbox.
# input text reaching the evaluator through `{x}`: no forbidden event, no exit, only TatSu exceptions
INJECT = ['1+1', 'len(x)', "open('/etc/hostname').read()", 'exit()', "__import__('os').system('true')", 'x.__class__',
          "'{0.__class__}'.format(x)", 'plain text', '42']

SHADOW = [  # (names bound before the constant, expr)
    ('open', "open('/etc/hostname')"), ('len', 'len(len)'), ('len', 'len'), ('print', 'print'), ('eval', "eval('1')"),
    ('exit', 'exit()'), ('sorted', 'sorted(xs)'), ('max', 'max + "!"'), ('input', 'input'), ('x', 'x.upper() + "."'),
    ('n', 'len(n)'), ('min', 'min(xs)'), ('exec', 'exec'), ('compile', 'compile'), ('getattr', "getattr(x, 'upper')"),
]


INJECT_GRAMMAR = '@@grammar :: S\nstart = x:/.+/ v:`{x}` $ ;\n'


def gtext(expr, alert=False, shadow=None):
    body = 'x:word n:num xs+:letter xs+:letter xs+:letter'
    if shadow and shadow not in NAMES:
        body += f' {shadow}:`zz`'  # an AST key with the name of a builtin, bound before the constant
    const = f'```{expr}```' if '`' in expr else f'`{expr}`'
    tail = f'^{const}' if alert else f'v:{const}'
    return (f'@@grammar :: S\nstart = {body} {tail} $ ;\nword = /[a-z]+/ ;\nnum = /[0-9]+/ ;\n'
            f'letter = /[a-z]/ ;\n')


def all_cases(tier):
    cases = []
    cid = 0
    for c in builtin_cases() + other_cases():
        cases.append(dict(c, routes=['helper', 'model', 'alert', 'gen']))
    for e in SAFE:
        # in a grammar the constant text itself is an f-string body, so explicit f'..' goes through the helper only
        cases.append(dict(kind='safe', expr=e, routes=['helper'] if e.startswith("f'") else ['helper', 'model', 'alert', 'gen']))
    for text in INJECT:
        cases.append(dict(kind='inject', expr='{x}', input=text, routes=['model', 'gen']))
    for e in SAFE_INTERP:
        cases.append(dict(kind='safe-interp', expr=e, routes=['model', 'alert', 'gen']))
    for nm, e in SHADOW:
        cases.append(dict(kind='shadow', expr=e, shadow=nm, routes=['helper', 'model', 'gen']))
    if tier != 'quick':
        # every safe builtin as key= / element of map over forbidden names, and every forbidden name in every
        # syntactic position of a call
        for nm in sorted(n for n in dir(builtins) if callable(getattr(builtins, n)) and n.isidentifier()):
            for tmpl in ['({0})(x)', '[{0}][0](x)', '{0}.__call__(x)', 'list(map({0}, xs))', 'sorted(xs, key={0})',
                         '[len(x) for len in [{0}]]', "f'{{{0}(x)}}'", '(y := {0})(x)', 'x and {0}(x)', '{0}(x) if x else 0',
                         'max(xs, key={0})', 'next(iter({0}, x))', '{0}(*xs)', '{0}(**{{}})']:
                cases.append(dict(kind='builtin', name=nm, expr=tmpl.format(nm), routes=['helper', 'model']))
    out = []
    for c in cases:
        for r in c['routes']:
            d = {k: v for k, v in c.items() if k != 'routes'}
            d['route'] = r
            d['id'] = cid
            cid += 1
            out.append(d)
    return out


# --------------------------------------------------------------------------- worker
HARD_PREFIXES = ('open', 'os.', 'subprocess.', 'socket.', 'builtins.input', 'builtins.breakpoint', 'ctypes.', 'shutil.',
                 'pty.', 'fcntl.', 'mmap.', 'webbrowser.', 'urllib.', 'http.', 'ftplib.', 'smtplib.', 'glob.', 'tempfile.',
                 'pathlib.', 'winreg.', 'msvcrt.', 'signal.', 'resource.', 'syslog.')
INNER_ONLY = ('import', 'exec', 'compile', 'marshal.', 'pickle.', 'code.__new__', 'function.__new__', 'sys.')

_STATE = {'on': False, 'events': [], 'busy': False}


def _hook(event, args):
    if not _STATE['on'] or _STATE['busy']:
        return
    _STATE['busy'] = True  # sys._getframe and repr below raise audit events themselves
    try:
        hard = event.startswith(HARD_PREFIXES)
        inner_candidate = event.startswith(INNER_ONLY)
        if not hard and not inner_candidate:
            return
        inside = False
        f = sys._getframe(1)
        while f is not None:
            b = f.f_globals.get('__builtins__', 1)
            if type(b) is dict and not b:
                inside = True
                break
            f = f.f_back
        if hard or inside:
            if event == 'open' and not inside:
                # lazily loaded modules of the interpreter / tatsu itself (first use) are not evaluation
                p = str(args[0]) if args else ''
                # (also the interpreter looking up the source line "<string>" for a SyntaxError it reports)
                if p.endswith(('.py', '.pyc', '.so')) or '/lib/python' in p or '__pycache__' in p or p.startswith('<'):
                    return
            a = tuple(repr(x)[:60] for x in args[:2])
            _STATE['events'].append([event, list(a), bool(inside)])
    except Exception as e:  # never let the hook change behaviour
        _STATE['events'].append(['hook-error', [repr(e)], False])
    finally:
        _STATE['busy'] = False


def _chain(e):
    out, seen = [], set()
    while e is not None and id(e) not in seen:
        seen.add(id(e))
        out.append(type(e).__name__)
        e = e.__cause__ or e.__context__
    return out


def _outcome(fn):
    """run fn under the hook -> dict"""
    _STATE['events'] = []
    _STATE['on'] = True
    try:
        try:
            v = fn()
            res = {'out': 'value', 'repr': repr(v)[:300], 'type': type(v).__name__}
        except BaseException as e:  # noqa: BLE001 - SystemExit/KeyboardInterrupt escaping IS a finding
            from tatsu.exceptions import ParseException
            res = {'out': 'exc', 'cls': type(e).__name__, 'tatsu': isinstance(e, ParseException), 'chain': _chain(e),
                   'msg': str(e)[:200].replace('\x1b', '')}
    finally:
        _STATE['on'] = False
    res['events'] = _STATE['events'][:8]
    return res


def _names_for(case):
    names = dict(NAMES)
    sh = case.get('shadow')
    if sh and sh not in NAMES:
        names[sh] = 'zz'
    return names


def _python_value(case):
    """what plain Python gives (only used for kinds safe / safe-interp / shadow)"""
    names = _names_for(case)
    e = case['expr']
    if case['kind'] == 'safe-interp':
        e = 'f' + repr(e)
    try:
        return {'ok': True, 'repr': repr(eval(e, {'__builtins__': builtins}, dict(names)))[:300]}  # noqa: S307
    except Exception as ex:
        return {'ok': False, 'cls': type(ex).__name__}


def _is_expr(e, names):
    import ast
    try:
        ast.parse(e, mode='eval')
        return True
    except SyntaxError:
        return False


def run_case(case, cache):
    import tatsu
    from tatsu.util import safeeval
    route = case['route']
    expr = case['expr']
    names = _names_for(case)
    res = {'id': case['id']}
    if case['kind'] in ('safe', 'safe-interp', 'shadow'):
        res['python'] = _python_value(case)
    if route == 'helper':
        ctx = safeeval.safe_builtins() | names
        res['is_safe'] = _outcome(lambda: safeeval.is_eval_safe(expr, dict(ctx)))
        res['eval'] = _outcome(lambda: safeeval.safe_eval(expr, dict(ctx)))
        fexpr = 'f' + repr(expr)
        res['fis_safe'] = _outcome(lambda: safeeval.is_eval_safe(fexpr, dict(ctx)))
        res['feval'] = _outcome(lambda: safeeval.safe_eval(fexpr, dict(ctx)))
        return res
    g = gtext(expr, alert=(route == 'alert'), shadow=case.get('shadow'))
    text = INPUT
    if case['kind'] == 'inject':
        g, text = INJECT_GRAMMAR, case['input']
    res['grammar'] = g
    key = (g, route == 'gen')
    try:
        if key not in cache:
            if route == 'gen':
                src = tatsu.to_python_sourcecode(g)
                ns = {'__name__': 'c17gen'}
                exec(compile(src, '<c17 generated parser>', 'exec'), ns)  # noqa: S102
                cache[key] = ns['SParser']
            else:
                cache[key] = tatsu.compile(g)
    except Exception as e:
        from tatsu.exceptions import ParseException
        res['compile_error'] = {'cls': type(e).__name__, 'tatsu': isinstance(e, (ParseException,)),
                                'msg': str(e)[:200].replace('\x1b', '')}
        return res
    obj = cache[key]

    def parse():
        if route == 'gen':
            ast = obj().parse(text, parseinfo=True)
        else:
            ast = obj.parse(text, parseinfo=True)
        if route == 'alert':
            pi = ast.parseinfo
            return [a.message for a in pi.alerts]
        return ast['v']

    res['eval'] = _outcome(parse)
    return res


def worker_main(jobfile, outfile):
    sys.addaudithook(_hook)
    cases = json.load(open(jobfile))
    import tatsu
    from tatsu.util import safeeval
    # warm every route so that lazy imports happen before the hook is armed
    safeeval.safe_eval('len(x)', safeeval.safe_builtins() | NAMES)
    g = gtext('len(x)')
    tatsu.compile(g).parse(INPUT, parseinfo=True)
    ns = {'__name__': 'c17warm'}
    exec(compile(tatsu.to_python_sourcecode(g), '<warm>', 'exec'), ns)  # noqa: S102
    ns['SParser']().parse(INPUT, parseinfo=True)
    tatsu.compile(gtext('x', alert=True)).parse(INPUT, parseinfo=True)
    cache = {}
    # vacuity guard: the hook must see an open() made from inside a sandbox-like frame
    probe = _outcome(lambda: eval("f('/etc/hostname').close()", {'__builtins__': {}}, {'f': open}))  # noqa: S307
    hook_ok = any(e[0] == 'open' and e[2] for e in probe.get('events', []))
    with open(outfile, 'a') as out:
        if not hook_ok:
            for case in cases:
                out.write(json.dumps({'id': case['id'], 'harness_error': f'audit hook self-test failed: {probe}'}) + '\n')
            return 0
        for case in cases:
            out.write(json.dumps({'start': case['id']}) + '\n')
            out.flush()
            try:
                r = run_case(case, cache)
            except BaseException as e:  # noqa: BLE001
                r = {'id': case['id'], 'harness_error': f'{type(e).__name__}: {e}'[:300]}
            out.write(json.dumps(r) + '\n')
            out.flush()
            if len(cache) > 50:
                cache.clear()
    return 0


# --------------------------------------------------------------------------- driver
def run_batch(cases, tmpdir, tag):
    """run cases in worker subprocesses; a worker that dies is restarted after the case it died in."""
    results = {}
    pending = list(cases)
    rounds = 0
    while pending and rounds < 50:
        rounds += 1
        job = os.path.join(tmpdir, f'job-{tag}-{rounds}.json')
        outp = os.path.join(tmpdir, f'out-{tag}-{rounds}.jsonl')
        json.dump(pending, open(job, 'w'))
        open(outp, 'w').close()
        env = dict(os.environ)
        env['PYTHONPATH'] = os.pathsep.join(p for p in sys.path if p)
        env['PYTHONHASHSEED'] = '0'
        wd = os.path.join(tmpdir, f'cwd-{tag}')
        os.makedirs(wd, exist_ok=True)
        try:
            p = subprocess.run([sys.executable, '-m', 'bounded.bC17', '--worker', job, outp], stdin=subprocess.DEVNULL,
                               stdout=subprocess.DEVNULL, stderr=subprocess.PIPE, cwd=wd, env=env, timeout=600)
            rc, err = p.returncode, p.stderr.decode('utf-8', 'replace')[-300:]
        except subprocess.TimeoutExpired:
            rc, err = 'timeout', ''
        started = None
        done = set()
        for line in open(outp):
            try:
                d = json.loads(line)
            except ValueError:
                continue
            if 'start' in d:
                started = d['start']
            else:
                results[d['id']] = d
                done.add(d['id'])
        if started is not None and started not in done:
            results[started] = {'id': started, 'died': {'rc': rc, 'stderr': err}}
            done.add(started)
        elif rc != 0 and not done:
            for c in pending:
                results[c['id']] = {'id': c['id'], 'harness_error': f'worker failed rc={rc}: {err}'}
            break
        pending = [c for c in pending if c['id'] not in done]
    return results


HELPER_EXC = {'SecurityError', 'ValueError', 'SyntaxError', 'TypeError', 'AttributeError'}


def _forbidden_events(o):
    return [e for e in (o or {}).get('events', [])]


def judge(case, r):
    """-> list of failures for one (case, route) result"""
    fails = []
    expr, route, kind = case['expr'], case['route'], case['kind']
    names = _names_for(case)
    if route == 'helper':
        replay = (f"from tatsu.util.safeeval import safe_builtins, safe_eval; "
                  f"safe_eval({expr!r}, safe_builtins() | {names!r})")
        wit = {'route': 'helper', 'expr': expr, 'replay': replay}
    else:
        how = {'model': 'tatsu.compile(grammar).parse(input)', 'alert': 'tatsu.compile(grammar).parse(input, parseinfo=True).parseinfo.alerts',
               'gen': 'exec(tatsu.to_python_sourcecode(grammar)); SParser().parse(input)'}[route]
        wit = {'route': route, 'expr': expr, 'grammar': r.get('grammar') or gtext(expr, route == 'alert', case.get('shadow')),
               'input': case.get('input', INPUT), 'replay': how}

    def fail(cls, detail):
        fails.append(dict(witness=wit, detail=detail, cls=cls))

    if 'harness_error' in r:
        fail('harness-error', r['harness_error'])
        return fails
    if 'died' in r:
        fail('evaluation-terminates-the-process', f'the worker process died while evaluating ({r["died"]})')
        return fails
    if 'compile_error' in r:
        if not r['compile_error']['tatsu']:
            fail('grammar-with-constant-does-not-compile-' + r['compile_error']['cls'].lower(), str(r['compile_error']))
        return fails
    fname = case.get('name') if kind == 'builtin' else None
    shadowed = case.get('shadow')
    mentioned = sorted(n for n in FORBIDDEN if _mentions(expr, n) and n != shadowed)
    outs = [(k, r[k]) for k in ('is_safe', 'eval', 'fis_safe', 'feval') if k in r]
    for k, o in outs:
        evs = o.get('events') or []
        if evs:
            who = fname if fname in FORBIDDEN else (mentioned[0] if mentioned else None)
            cls = f'builtin-{who.strip("_")}-allowed' if who else 'forbidden-audit-event-' + evs[0][0].replace('.', '-')
            fail(cls, f'audit events during evaluation ({k}): {evs[:3]}; outcome {_short(o)}')
        if o['out'] == 'exc' and 'SystemExit' in o.get('chain', []):
            who = fname if fname in FORBIDDEN else next((n for n in mentioned if n in ('exit', 'quit')), None)
            fail(f'builtin-{who}-allowed' if who else 'systemexit-raised-during-evaluation',
                 f'SystemExit raised during evaluation ({k}): exception chain {o["chain"]}')
        if o['out'] == 'exc':
            if route == 'helper':
                if o['cls'] not in HELPER_EXC or k in ('is_safe', 'fis_safe'):
                    fail('helper-raises-' + o['cls'].lower(), f'{k}: {_short(o)}')
            elif not o['tatsu']:
                fail('constant-evaluation-raises-' + o['cls'].lower(), f'{k}: {_short(o)} (not a TatSu ParseException)')
    # accepted = the walker let the expression through (it was evaluated, not left as text / SecurityError)
    ev = r.get('eval') or {}
    texts = (repr(expr), repr(expr.strip()), repr([expr]), repr([expr.strip()]))
    if route == 'helper':
        accepted = r['is_safe'].get('repr') == 'True' or ('{' in expr and r['fis_safe'].get('repr') == 'True')
        if r['is_safe'].get('repr') == 'False' and ev.get('out') == 'value':
            fail('safe-eval-evaluates-what-is-eval-safe-rejects', f'is_eval_safe False but safe_eval returned {_short(ev)}')
        shown = r['feval'] if ('{' in expr and r['is_safe'].get('repr') != 'True') else ev
    else:
        accepted = not (ev.get('out') == 'value' and ev.get('repr') in texts)
        shown = ev
    if accepted and not shadowed:
        for n in mentioned:
            fail(f'builtin-{n.strip("_")}-allowed',
                 f'the expression names the forbidden builtin {n!r} and was evaluated instead of rejected: {_short(shown)}')
    if accepted and _has_dunder_attr(expr):
        fail('dunder-attribute-reached', f'an expression with a dunder attribute was evaluated: {_short(shown)}')
    if kind == 'format-dunder' and '__' in expr and shown.get('out') == 'value':
        rep = shown.get('repr', '')
        if rep not in texts and any(m in rep for m in ('<class', '<built-in', '<method', "{'__", '__name__')):
            fail('dunder-reached-through-str-format', f'str.format field traversal exposes a dunder attribute: {rep[:120]}')
    if kind == 'inject':
        fails[:] = [f for f in fails if not f['cls'].startswith(('builtin-', 'forbidden-audit-event', 'systemexit-'))]  # judged here, by what happened
        for k, o in outs:
            if o.get('events'):
                fail('input-text-evaluated-as-code', f'input {case["input"]!r} bound to x and interpolated by `{{x}}` is evaluated: '
                     f'audit events {o["events"][:2]}; result {_short(o)}')
        if 'SystemExit' in ev.get('chain', []):
            fail('input-text-evaluated-as-code', f'input {case["input"]!r} interpolated by `{{x}}` raises SystemExit: {_short(ev)}')
        return fails
    # values of safe expressions
    if kind in ('safe', 'safe-interp') and 'python' in r:
        py = r['python']
        if route == 'helper':
            got = r['eval'] if kind == 'safe' else r['feval']
        else:
            got = ev
        want = py.get('repr')
        if route == 'alert' and py['ok']:
            want = '[' + want + ']'
        if not py['ok']:
            fail('harness-error', f'battery expression does not evaluate in python: {py}')
        elif got.get('out') != 'value' or got.get('repr') != want:
            fail('safe-expression-value-differs', f'python gives {want}, the sandbox route gives {_short(got)}')
    if kind == 'shadow' and 'python' in r and route != 'helper':
        py = r['python']
        if py['ok'] and ev.get('out') == 'value' and ev.get('repr') not in (py['repr'], repr(expr)):
            # value must be python's (shadowing name wins) or the uninterpreted text
            if not _reinterp_equal(py['repr'], ev.get('repr')):
                fail('shadowed-name-value-differs', f'python (AST key shadows the builtin) gives {py["repr"]}, got {_short(ev)}')
    return fails


def _reinterp_equal(a, b):
    return a == b


def _tree(expr):
    import ast
    for src in (expr, 'f' + repr(expr)):
        try:
            return ast.parse(src.strip(), mode='eval')
        except (SyntaxError, ValueError):
            continue
    return None


def _mentions(expr, name):
    """the expression (or, for free text, its f-string reading) loads the bare name"""
    import ast
    t = _tree(expr)
    if t is None:
        return False
    both = [t]
    if '{' in expr:
        try:
            both.append(ast.parse('f' + repr(expr), mode='eval'))
        except (SyntaxError, ValueError):
            pass
    return any(isinstance(n, ast.Name) and n.id == name for tt in both for n in ast.walk(tt))


def _has_dunder_attr(expr):
    import ast
    t = _tree(expr)
    return t is not None and any(isinstance(n, ast.Attribute) and n.attr.startswith('__') for n in ast.walk(t))


def _short(o):
    if not o:
        return 'n/a'
    if o.get('out') == 'value':
        return f"value {o.get('repr')}"
    return f"{o.get('cls')}: {o.get('msg', '')[:100]} chain={o.get('chain')}"


def run(tier='quick', seed=0, info=None):
    t0 = time.time()
    cases = all_cases(tier)
    tmp = tempfile.mkdtemp(prefix='c17-', dir=os.environ.get('VERIF_TMP') or None)
    try:
        # risky (forbidden names mentioned) and benign cases are interleaved; one worker per chunk
        chunks = chunked(cases, max(JOBS, 1) * 2)
        with ThreadPoolExecutor(max_workers=JOBS) as ex:
            parts = list(ex.map(lambda ic: run_batch(ic[1], tmp, str(ic[0])), enumerate(chunks)))
    finally:
        import shutil
        shutil.rmtree(tmp, ignore_errors=True)
    results = {}
    for p in parts:
        results.update(p)
    failures = []
    nontriv = 0
    evaluated = rejected = 0
    for c in cases:
        r = results.get(c['id'])
        if r is None:
            failures.append(dict(witness={'expr': c['expr'], 'route': c['route']}, detail='no result from worker', cls='harness-error'))
            continue
        fs = judge(c, r)
        failures += fs
        ev = r.get('eval') or {}
        if ev.get('out') == 'value' and ev.get('repr') not in (repr(c['expr']), repr([c['expr']])):
            evaluated += 1
        else:
            rejected += 1
    exprs = sorted({c['expr'] for c in cases})
    nbuiltin = len({c.get('name') for c in cases if c['kind'] == 'builtin'})
    items = bitem(
        'C17', 'sandbox', function='safeeval.safe_eval/is_eval_safe, engine.constant, context.alert (model and generated parser)',
        domain=f'{len(exprs)} expression strings ({nbuiltin} names of dir(builtins) called with plausible arguments, attribute '
               f'chains with/without dunders, str.format traversal, comprehensions, lambdas, nested f-strings, free '
               f'interpolation, AST keys shadowing builtins, {len(SAFE) + len(SAFE_INTERP)} safe expressions) x routes '
               f'{{helper, model constant, model alert, generated parser}} = {len(cases)} evaluations in subprocess workers '
               f'under an audit hook',
        bound='battery (every builtin of the running interpreter; not exhaustive over expressions)', cases=len(cases),
        distinct_nontrivial=evaluated,
        rule=f'evaluations that produced a value other than the uninterpreted text (the other {rejected} were rejected / failed)',
        exhaustive=False, samples=["open('/etc/hostname').read()", 'x.__class__', "[len(len) for len in [exit]]", 'sorted(xs)'],
        failures=failures,
        note='bounded: sandbox of grammar constants under an audit hook; threads/async evaluation out of scope; '
             '`print` (writes stdout, no audit event) is allowed by the deny-list and is not in spec.FORBIDDEN: noted, not failed')
    if info is not None:
        for it in items:
            info.setdefault('bounded', []).append({k: it.extra.get(k) for k in ('function', 'domain', 'bound', 'cases')})
    return items


def main(argv=None):
    argv = list(sys.argv[1:] if argv is None else argv)
    if argv and argv[0] == '--worker':
        return worker_main(argv[1], argv[2])
    tier = argv[0] if argv else 'quick'
    seed = int(argv[1]) if len(argv) > 1 else 0
    t0 = time.time()
    items = run(tier, seed, {})
    for it in items:
        print(f'{it.status:8} {it.id}  cases={it.extra.get("cases")} nontrivial={it.extra.get("distinct_nontrivial")}'
              + (f' failing={it.extra.get("failing_cases")}' if it.status == 'refuted' else ''))
        if it.status == 'refuted':
            print(f'    witness: {it.witness!r}'[:500])
            print(f'    {it.detail}'[:400])
    print(f'C17 bounded [{tier}]: {len(items)} items, {sum(i.status == "refuted" for i in items)} refuted, '
          f'{time.time() - t0:.1f}s')
    return 0


if __name__ == '__main__':
    sys.exit(main())
