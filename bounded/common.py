"""Helpers for the bounded stand-in runs (never counted as proved).

A bounded run evaluates a contract (or the documented-semantics oracle) on the REAL code over an
exhaustively enumerated finite domain with a stated bound and returns one `Item` (kind 'B'):

    status   'clean'   every case satisfied the contract
             'refuted' at least one case failed; `witness` is the (smallest) failing input,
                       `detail` says expected vs actual; one Item per DISTINCT finding class so
                       that known findings can be matched individually
    extra    function, domain, bound, cases (evaluated), distinct_nontrivial (+ the rule), exhaustive, samples
"""
from __future__ import annotations

import os
import time
from concurrent.futures import ProcessPoolExecutor

from vlib.runner import Item

JOBS = int(os.environ.get('VERIF_JOBS', '0') or 0) or min(16, os.cpu_count() or 4)


def bitem(prop, name, *, function, domain, bound, cases, distinct_nontrivial, rule, exhaustive, samples,
          failures=None, note='', group=None):
    """Build the Item(s) of one bounded run.  `failures`: list of dicts {witness, detail, cls} -- one
    Item per distinct `cls` (finding class; default: one class)."""
    extra = dict(function=function, domain=domain, bound=bound, cases=int(cases),
                 distinct_nontrivial=int(distinct_nontrivial), rule=rule, exhaustive=bool(exhaustive),
                 samples=samples[:5])
    items = []
    failures = failures or []
    if not failures:
        items.append(Item(id=f'{prop}/B:{name}', kind='B', status='clean', note=note or f'bounded: {function}',
                          function=function, extra=extra))
        return items
    by_cls = {}
    for f in failures:
        by_cls.setdefault(f.get('cls', 'fail'), []).append(f)
    for cls, fs in sorted(by_cls.items()):
        fs.sort(key=lambda f: len(repr(f['witness'])))
        f = fs[0]
        e = dict(extra)
        e['failing_cases'] = len(fs)
        items.append(Item(id=f'{prop}/B:{name}/{cls}', kind='B', status='refuted',
                          note=(note or f'bounded: {function}') + f' -- {cls}', function=function,
                          witness=f['witness'], detail=f['detail'], replayed='bounded-input', extra=e))
    return items


def pmap(fn, chunks, jobs=None):
    """map over chunks in worker processes (fork); results in order."""
    jobs = jobs or JOBS
    chunks = list(chunks)
    if jobs <= 1 or len(chunks) <= 1:
        return [fn(c) for c in chunks]
    with ProcessPoolExecutor(max_workers=jobs) as ex:
        return list(ex.map(fn, chunks, chunksize=1))


def chunked(seq, n):
    seq = list(seq)
    k = max(1, (len(seq) + n - 1) // n)
    return [seq[i:i + k] for i in range(0, len(seq), k)]


class Budget:
    def __init__(self, seconds):
        self.t0 = time.time()
        self.seconds = seconds

    def left(self):
        return self.seconds - (time.time() - self.t0)

    def spent(self):
        return time.time() - self.t0
