"""C11 (bounded, API level): reserved words are never accepted where a name is required.

    PYTHONPATH=/verif /verif/.venv/bin/python -m bounded.bC11 quick|thorough [seed]

Domain: KEYWORD_GRAMMARS (one or more `@@keyword` directives with bare words and quoted strings; `@name` rules used
in choices, closures, joins, positive and negative lookaheads, behind an undecorated twin alternative, two `@name`
rules tried at one position, an upper-case `@name` rule, keywords declared in upper case, keywords that differ only in case) x ALL sequences of up to
3 words over a vocabulary of keywords, keyword prefixes / suffixes and case variants (+ `=`) x the ways ignorecase can
be given: off, directive, compile-time setting, PARSE-TIME setting, directive on + parse-time off.

Per case:
1. `never-a-keyword`: a recording action on every `@name` rule (it runs after the keyword check) sees every value the
   rule succeeded with: none of them may be a keyword (compared case-insensitively iff ignorecase is in force);
2. `ordinary-failure` + `as-undecorated`: the outcome equals the documented semantics (`specpeg.evaluate` with
   `keywords` / `ignorecase`: the decorated rule fails plainly, so later alternatives are tried), and, on inputs
   in which no keyword occurs (as a substring), equals the outcome of the twin grammar WITHOUT the `@name` decorators;
3. model == generated parser (fresh object per parse) == ONE generated parser object reused for all the inputs and
   all the parse-time settings in an interleaved order.
"""
from __future__ import annotations

import itertools
import re
import sys
import time

import tatsu  # noqa: F401  (imported before forking)
import tatsu.exceptions
from tatsu.util import safe_name

from bounded import specpeg as S
from bounded.bC02 import load_generated
from bounded.common import JOBS, Budget, bitem, chunked, pmap

PROP = 'C11'
FUNCTION = ('ParserEngine.semantics_call / validate_is_not_keyword, ParserCore._reset (keyword table of the active '
            'configuration), Grammar.__init__ / ParserConfig.__post_init__ (keyword normalisation), gen_keywords')
RULE = ('a case is (grammar, ignorecase mode, input); distinct non-trivial = cases whose input contains a word that is a '
        'keyword, a case variant of a keyword, or a keyword with one more / one fewer letter')


def T(x):
    return ('tok', x)


def C(x):
    return ('call', x)


def seq(*xs):
    return ('seq', tuple(xs))


def ch(*xs):
    return ('choice', tuple(xs))


WORD = ('pat', '[a-zA-Z]+')
NAME = ('name', WORD, ('name',))

# (name, description, keywords, keyword line override or None, vocabulary)
_V = ('if', 'IF', 'If', 'iff', 'i', 'end', 'End', 'x', 'endx', '=')
_MANY = ('begin', 'case', 'default', 'downto', 'elsif', 'end', 'function', 'if', 'otherwise', 'procedure', 'record', 'repeat', 'then',
         'until', 'while')
KEYWORD_GRAMMARS = (
    ('choice', (('start', seq(C('stmt'), ('eof',))),
                ('stmt', ch(seq(T('if'), ('named', 'c', C('name')), T('end')), seq(('named', 'l', C('name')), T('='), ('named', 'r', C('name'))))),
                NAME), ('if', 'end'), None, _V),
    ('closure', (('start', seq(('closure', C('name')), ('eof',))), NAME), ('if',), None, _V),
    ('twin-alternative', (('start', seq(('group', ch(('named', 'n', C('name')), ('named', 'k', C('word')))), ('eof',))),
                          NAME, ('word', WORD)), ('if', 'end'), None, _V),
    ('lookahead', (('start', ch(seq(('la', C('name')), ('named', 'n', WORD), ('eof',)), seq(('named', 'k', T('if')), ('eof',)))), NAME),
     ('if', 'end'), None, _V),
    ('negative-lookahead', (('start', seq(('nla', C('name')), ('named', 'k', C('word')), ('eof',))), NAME, ('word', WORD)),
     ('if', 'end'), None, _V),
    ('gather', (('start', seq(('pgather', T('='), C('name')), ('eof',))), NAME), ('if', 'end'), None, _V),
    ('two-name-rules', (('start', ch(seq(C('short'), T('x'), ('eof',)), seq(C('name'), ('eof',)))),
                        ('short', ('pat', '[a-zA-Z]{2}'), ('name',)), NAME), ('if', 'en'), None,
     ('if', 'ifx', 'IF', 'IFx', 'en', 'enx', 'x', 'ab', 'abx', 'end')),
    ('token-name-rule', (('start', seq(T('let'), C('NAME'), ('closure', C('NAME')), ('eof',))),
                         ('NAME', ('pat', r'\s*[a-zA-Z]+'), ('name',))), ('if', ' if', 'let'), "@@keyword :: if ' if' let",
     ('let', 'if', 'IF', 'x', 'iff', 'Let')),
    ('quoted-keywords', (('start', seq(('closure', C('name')), ('eof',))), ('name', ('pat', '[a-zA-Z-]+'), ('name',))),
     ('end-if', 'class', 'if'), "@@keyword :: 'end-if' \"class\"\n@@keyword :: if",
     ('end-if', 'END-IF', 'end', 'if', 'class', 'Class', 'classes', 'end-i', 'x')),
    ('upper-case-keywords', (('start', seq(('closure', C('name')), ('eof',))), NAME), ('IF', 'End'), None, _V),
    # a keyword list long enough for the emitted KEYWORDS tuple of a generated parser to wrap over several lines: every one is reserved
    ('many-keywords', (('start', seq(('closure', C('name')), ('eof',))), NAME), _MANY, None, (*_MANY, 'x', 'beginx')),
    # spellings that differ only in case are separate keywords whenever case matters for the parse at hand
    ('case-variant-keywords', (('start', seq(('closure', C('name')), ('eof',))), NAME), ('If', 'if', 'End'), None, _V),
    ('name-or-token', (('start', seq(('closure', ('group', ch(('named', 'n', C('name')), ('named', 'k', T('if')), ('named', 'k', T('end'))))),
                                     ('eof',))), NAME), ('if', 'end'), '@@keyword :: if\n@@keyword :: end', _V),
)

# (mode, directive lines, compile-time settings, parse-time settings, ignorecase in force)
MODES = (
    ('off', '', {}, {}, False),
    ('directive', '@@ignorecase :: True\n', {}, {}, True),
    ('compile-time-setting', '', {'ignorecase': True}, {}, True),
    ('parse-time-setting', '', {}, {'ignorecase': True}, True),
    ('directive-on-parse-time-off', '@@ignorecase :: True\n', {}, {'ignorecase': False}, False),
)


def grammar_text(desc, keywords, kwline, decorated=True):
    d = desc if decorated else tuple((r[0], r[1]) for r in desc)
    text = S.to_text(d, keywords=keywords)
    if kwline is not None:
        text = re.sub(r'^@@keyword :: .*\n', kwline + '\n', text, count=1, flags=re.M)
    return text


def inputs_of(vocab, n):
    out = ['']
    for k in range(1, n + 1):
        out += [' '.join(p) for p in itertools.product(vocab, repeat=k)]
    return out


class Recorder:
    def __init__(self, rules):
        self.seen = {r: [] for r in rules}


def recorder(name_rules):
    ns = {}

    def make(rule):
        def action(self, ast, *a, **kw):
            self.seen[rule].append(ast)
            return ast
        return action

    for r in name_rules:
        ns[safe_name(r)] = make(r)
    return type('NameRecorder', (Recorder,), ns)(name_rules)


def real(fn):
    from tatsu.exceptions import FailedParse
    try:
        return ('ok', S.normalize(fn()))
    except FailedParse as e:
        return ('fail', type(e).__name__)
    except Exception as e:  # noqa: BLE001
        return ('exc', type(e).__name__, str(e)[:100])


def _same(o, r):
    if isinstance(o, S.Unspecified):
        return True
    if o.ok:
        return r[0] == 'ok' and S.same_value(o.value, r[1])
    return r[0] == 'fail'


def _is_kw(value, keywords, ic):
    s = str(value)
    return (s.upper() in {k.upper() for k in keywords}) if ic else (s in keywords)


def _near_keyword(word, keywords):
    w = word.lower()
    for k in keywords:
        k = k.lower().strip()
        if w == k or w[:-1] == k or w == k[:-1] or w[1:] == k:
            return True
    return False


def _work(job):
    gname, mode_names, inputs = job
    _n, desc, keywords, kwline, _vocab = next(g for g in KEYWORD_GRAMMARS if g[0] == gname)
    name_rules = [r[0] for r in desc if len(r) > 2 and 'name' in r[2]]
    stats = {'cases': 0, 'nontrivial': 0, 'name_values_seen': 0, 'keyword_rejections': 0}
    failures, samples = [], []
    for mname, dlines, cset, pset, ic in (m for m in MODES if m[0] in mode_names):
        text = dlines + grammar_text(desc, keywords, kwline)
        twin_text = dlines + grammar_text(desc, keywords, kwline, decorated=False)
        try:
            model = tatsu.compile(text, **cset)
            twin = tatsu.compile(twin_text, **cset)
            _src, cls = load_generated(text, **cset)
        except Exception as e:  # noqa: BLE001
            failures.append({'witness': {'grammar': text, 'compile_settings': cset}, 'cls': f'compile-raises-{type(e).__name__}',
                             'detail': str(e)[:200]})
            continue
        reused = cls()
        # the reused object sees the inputs interleaved with parses under the OTHER ignorecase value
        flip = {'ignorecase': not ic}
        for i, inp in enumerate(inputs):
            stats['cases'] += 1
            words = re.findall(r'[a-zA-Z-]+', inp)
            if any(_near_keyword(w, keywords) for w in words):
                stats['nontrivial'] += 1
            w = {'grammar': text, 'compile_settings': cset, 'parse_settings': pset, 'input': inp, 'ignorecase_given_as': mname}

            def fail(cls_name, detail, extra=None):
                if cls_name not in ('model-and-generated-parser-differ', 'reused-generated-parser-differs-from-fresh'):
                    if mname == 'compile-time-setting':
                        # the setting given to tatsu.compile is not in force at all (the C09 layering finding)
                        cls_name = 'compile-time-ignorecase-setting-not-in-force/' + cls_name
                    elif mname == 'directive-on-parse-time-off':
                        # the keywords were upper-cased when the grammar was built and stay so
                        cls_name = 'keywords-stay-upper-cased-when-ignorecase-is-switched-off-at-parse-time/' + cls_name
                failures.append({'witness': {**w, **(extra or {})}, 'cls': cls_name, 'detail': detail})

            rec = recorder(name_rules)
            m = real(lambda: model.parse(inp, semantics=rec, **pset))
            m_plain = real(lambda: model.parse(inp, **pset))
            g = real(lambda: cls().parse(inp, **pset))
            if i % 3 == 0:
                real(lambda: reused.parse(inp, **{**pset, **flip}))
            gr = real(lambda: reused.parse(inp, **pset))
            # 1. never a keyword
            for rule, vals in rec.seen.items():
                stats['name_values_seen'] += len(vals)
                bad = [v for v in vals if _is_kw(v, keywords, ic)]
                if bad:
                    fail('name-rule-succeeds-with-a-keyword', f'@name rule {rule} succeeded with {bad!r}; keywords {keywords}, '
                                                              f'ignorecase in force: {ic}')
            # 2. documented outcome; undecorated twin on keyword-free inputs
            o = S.evaluate(desc, inp, keywords=keywords, ignorecase=ic)
            if not _same(o, m_plain):
                fail('outcome-differs-from-documented-keyword-semantics',
                     f'documented: {o!r}; model: {m_plain!r} (keywords {keywords}, ignorecase in force: {ic})')
            elif not o.ok:
                o2 = S.evaluate(tuple((r[0], r[1]) for r in desc), inp, ignorecase=ic)
                if o2.ok:
                    stats['keyword_rejections'] += 1
            if m != m_plain:
                fail('recording-action-changes-the-outcome', f'without semantics {m_plain!r}, with the recording action {m!r}')
            hay = inp.upper() if ic else inp
            if not any((k.strip().upper() if ic else k.strip()) in hay for k in keywords):
                # no keyword occurs anywhere in the text, so no @name rule can produce one
                t = real(lambda: twin.parse(inp, **pset))
                if t != m_plain:
                    fail('non-keyword-not-accepted-as-the-undecorated-rule',
                         f'no keyword occurs in the input; decorated: {m_plain!r}; without @name: {t!r}')
            # 3. back ends
            if g != m_plain:
                fail('model-and-generated-parser-differ', f'model: {m_plain!r}; generated parser (fresh object): {g!r}')
            if gr != g:
                fail('reused-generated-parser-differs-from-fresh', f'fresh object: {g!r}; object reused across parses with other settings: {gr!r}')
            if len(samples) < 2 and not o.ok and m_plain[0] == 'fail' and len(words) == 1 and _is_kw(words[0], keywords, ic) and mname != 'off':
                samples.append({**w, 'result': m_plain})
    by, kept, counts = {}, [], {}
    for f in failures:
        by.setdefault(f['cls'], []).append(f)
    for c, fs in by.items():
        fs.sort(key=lambda f: len(repr(f['witness'])))
        counts[c] = len(fs)
        kept += fs[:4]
    return stats, kept, counts, samples


def run(tier='quick', seed=0, info=None):
    budget = Budget(60 if tier == 'quick' else 900)
    n = 3 if tier == 'quick' else 4
    jobs = []
    for gname, _d, _k, _l, vocab in KEYWORD_GRAMMARS:
        ins = inputs_of(vocab, n if len(vocab) <= 10 else (n - 1 if len(vocab) <= 12 else 1))
        for mode in MODES:
            for part in chunked(ins, max(1, len(ins) // 400)):
                jobs.append((gname, (mode[0],), part))
    results = pmap(_work, jobs, jobs=JOBS)
    stats = {'cases': 0, 'nontrivial': 0, 'name_values_seen': 0, 'keyword_rejections': 0}
    failures, counts, samples = [], {}, []
    for st, fs, cn, sm in results:
        for k in stats:
            stats[k] += st[k]
        failures += fs
        samples += sm
        for c, k in cn.items():
            counts[c] = counts.get(c, 0) + k
    items = bitem(PROP, 'keyword-matrix', function=FUNCTION,
                  domain=f'{len(KEYWORD_GRAMMARS)} grammars ({", ".join(g[0] for g in KEYWORD_GRAMMARS)}) x ALL sequences of <= {n} '
                         f'words over vocabularies of 6-10 words (keywords, prefixes / suffixes, case variants, `=`) x ignorecase given as '
                         f'{tuple(m[0] for m in MODES)}; model, fresh generated parser, one reused generated parser object, '
                         'undecorated twin grammar, recording action on the @name rules',
                  bound=f'<= {n} words per input', cases=stats['cases'], distinct_nontrivial=stats['nontrivial'], rule=RULE,
                  exhaustive=True, samples=samples[:4], failures=failures)
    for it in items:
        it.extra['name_rule_values_recorded'] = stats['name_values_seen']
        it.extra['rejections_due_to_keywords'] = stats['keyword_rejections']
        c = it.id.split('B:keyword-matrix/', 1)[-1]
        if c in counts:
            it.extra['failing_cases'] = counts[c]
    if info is not None:
        info.setdefault('bounded', []).append({'run': 'bC11', 'tier': tier, 'wall_s': round(budget.spent(), 1)})
    run.summary = [('keyword-matrix', stats, budget.spent())]
    return items


def main(argv=None):
    from bounded.bC02 import print_summary
    argv = sys.argv[1:] if argv is None else argv
    tier = argv[0] if argv else 'quick'
    seed = int(argv[1]) if len(argv) > 1 else 0
    t0 = time.time()
    items = run(tier, seed, {})
    print_summary(items, run.summary, time.time() - t0)
    return 0


if __name__ == '__main__':
    sys.exit(main())
