"""spec.peg -- an executable oracle of the DOCUMENTED TatSu PEG/AST semantics.

Written from /repo/docs/syntax.rst, /repo/docs/ast.rst, /repo/docs/semantics.rst and DESIGN.md
Appendix C.  It is a compositional evaluator over a small immutable grammar *description*; it does
not share code, control flow or data structures with the engine in /repo/tatsu (no state stack, no
CST merging, no memoization, no exceptions for failure).

Grammar description
-------------------
A grammar is a tuple of rules; a rule is ``(name, body)`` or ``(name, body, flags)`` with ``flags`` a
tuple of strings (``'name'`` = the ``@name`` decorator).  Expressions are nested tuples::

    ('tok','a') ('pat','a+') ('const',1) ('void',) ('fail',) ('eof',) ('dot',) ('emptyclosure',) ('cut',)
    ('seq',(e1,..,en)) ('choice',(e1,..,en)) ('group',e) ('skipgroup',e) ('opt',e)
    ('closure',e) ('pclosure',e) ('join',sep,e) ('pjoin',sep,e) ('gather',sep,e) ('pgather',sep,e)
    ('la',e) ('nla',e) ('skipto',e) ('call',name)
    ('named',n,e) ('namedlist',n,e) ('override',e) ('overridelist',e)

`wellformed(desc)` says whether a description is directly expressible in TatSu's concrete syntax
(which is what `to_text` / `to_model` need); `evaluate` accepts any nesting.

The evaluation function
-----------------------
``ev(e, pos) -> failure(cut) | (pos', items, binds, cut)``

* ``items``  the values the expression contributes to the enclosing sequence (docs: groups and
  optionals are spliced, a closure / a rule call is exactly one item);
* ``binds``  ordered binding operations (define / set / add / override) which reach the rule level
  only if every enclosure on the way out parses (syntax.rst, note under ``name=e``);
* ``cut``    whether a ``~`` was passed in the *current cut scope* (syntax.rst, section ``~``).

What the documentation leaves open is NOT decided here:

* value-only gaps are returned as the marker `UNSPEC` inside the value; `same_value` treats the
  marker as a wildcard (Appendix C `UNSPECIFIED`: the value bound by a name / override whose operand is
  a group / sequence / optional containing a lookahead, void, EOF or an inner name; `n:()`, `n:&e`,
  `n:~`; names inside lookaheads; how an undetermined value accumulates);
* gaps that change control flow or the shape of the result are *policies* (`POLICIES`):
  `evaluate(..., policy={...})` selects one admissible behaviour, `admissible_outcomes` enumerates all;
* a cut whose propagation is not documented (`&~`, `!~`, `->~`) is tracked as "maybe"; if the
  outcome would depend on it `evaluate` returns `Unspecified`;
* left recursion is not covered: `Unsupported` is raised and callers skip the case.

API
---
    evaluate(desc, text, start=None, **config) -> Ok(value, endpos) | Fail() | Unspecified(why)
    evaluate_info(...)        -> (outcome, {'matched': bool, 'open': frozenset of POLICIES reached})
    admissible_outcomes(...)  -> [(policy, outcome)] over all admissible policies
    same_value(expected, actual), has_unspec(v), normalize(real_value)
    to_model(desc, **settings) -> tatsu.peg.Grammar     to_text(desc, **settings) -> grammar source
    wellformed(desc), names_of(e), node_count(e), kinds_of(e), children(e)
    config: whitespace (default r'\\s+'; regex; '' / None = none), nameguard (default: on iff whitespace or
            namechars), namechars, ignorecase, keywords, comments, eol_comments, left_recursion, actions,
            policy, group_cut_scope (syntax.rst: a group is a cut scope), deviations (see DEVIATIONS:
            emulations of engine defects, used only to name failure classes)
"""
from __future__ import annotations

import itertools
import re
from dataclasses import dataclass
from typing import Any

__all__ = [
    'Ok', 'Fail', 'Unspecified', 'UNSPEC', 'Unsupported', 'SemanticFail', 'evaluate', 'evaluate_info', 'admissible_outcomes',
    'same_value', 'has_unspec', 'to_model', 'to_text', 'wellformed', 'names_of', 'POLICIES', 'DEFAULT_POLICY', 'DEVIATIONS',
    'node_count', 'kinds_of', 'rule_names', 'normalize',
]


# --------------------------------------------------------------------------------------------------
# results
# --------------------------------------------------------------------------------------------------

class _Unspec:
    """the value the documentation does not determine (wildcard in comparisons)"""
    _inst = None

    def __new__(cls):
        if cls._inst is None:
            cls._inst = super().__new__(cls)
        return cls._inst

    def __repr__(self):
        return 'UNSPEC'

    def __reduce__(self):
        return (_Unspec, ())


UNSPEC = _Unspec()


@dataclass(frozen=True)
class Ok:
    value: Any
    endpos: int

    ok = True


@dataclass(frozen=True)
class Fail:
    pos: int | None = None

    ok = False


@dataclass(frozen=True)
class Unspecified:
    """the documentation does not determine success/failure of this case (comparison must skip it)"""
    why: str = ''

    ok = None


class Unsupported(Exception):
    """the oracle does not cover this grammar/input (e.g. left recursion): callers skip the case"""


class SemanticFail(Exception):
    """raised by an action in `actions` to make the rule fail (the documented FailedSemantics)"""


class _UnspecifiedCase(Exception):
    pass


# documented-silent aspects that change control flow or the shape of the result.  Each value is admissible.
POLICIES = {
    # syntax.rst says nothing about an iteration of a closure/join that matches WITHOUT CONSUMING.
    # Appendix C: such an iteration ends the repetition.  Open: does it still count (value, bindings)?
    #   empty_first: the first iteration of {e}          (the first e of {e}+ / s%{e} always counts:
    #                "one or more times", "e {s ~ e}")
    #   empty_later: any later iteration; 'fail' = it counts as a failed iteration (after the cut that
    #                follows a separator this makes the repetition fail)
    'empty_first': ('drop', 'keep'),
    'empty_later': ('drop', 'keep', 'fail'),
    # "(?: e ) ... do not capture what was parsed": are names / overrides inside e captured?
    'skipgroup_binds': ('keep', 'drop'),
    # s%{e} (not the positive form) when an iteration fails after the cut that follows a separator:
    # Appendix C / the C05 statement: "makes the repetition fail"; syntax.rst: "s%{e} is equivalent to
    # s%{e}+|{}" with s%{e}+ parsing as "e {s ~ e}", whose cut is inside the braces, so that the second
    # option {} still applies (result [] with nothing consumed).  Both are admissible.
    'join_cut': ('fail', 'empty'),
    # a cut written directly inside ( ... ) or (?: ... ): syntax.rst says "scoped to the nearest enclosing brackets
    # (group, optional, closure)", the C05 statement lists option / optional / closure or join iteration / rule body
    # as the scopes (a group has no alternatives of its own).  Both readings are admissible.
    'group_cut': ('through', 'scope'),
}
DEFAULT_POLICY = {k: v[0] for k, v in POLICIES.items()}

# NOT documented behaviour: emulations of deviations of the real engine.  They never make a case
# pass; bounded/bC01.py uses them only to NAME the class of a failure that was already found
# (a failure that becomes an agreement under deviation D belongs to class D).
DEVIATIONS = (
    'names-undefined-unless-sequence',  # only sequences / options / optionals pre-define None / []
    'none-dropped-at-frame-start',      # a None item (valueless rule / iteration) vanishes when it is
                                        # the first item of its scope (and anywhere in the group / optional
                                        # operand of a name or override)
    'cut-escapes-group',                # ( ... ~ ... ) commits the option around the group
    'cut-lost-in-later-iteration',      # ~ in iteration >= 2 of a closure / in e after a separator
    'optional-around-repetition-dropped',  # [ {e} ], [ s%{e} ], [ [e] ] parse as the inner expression, so a
                                        # repetition that fails (after a cut) makes the optional fail
    'pattern-first-group-only',         # a pattern with several groups yields its first group, not the tuple
    'none-dropped-at-frame-start/undetermined',  # the same deviation where the vanishing item is one whose value the docs
                                        # leave open (`@:~`, `@:!e`, `@:[&e]` ...): the engine gives it None, so it is
                                        # dropped like any other None item.  Same finding class, named without the suffix.
    'open-list-spliced',                # a list that is the value of a multi-item group operand of a name /
                                        # override (and hence of a rule whose value is such an override) is
                                        # not closed: it is spliced when it is the first item of its scope and
                                        # flattened when a second value is bound to the same name
)

_NOCUT, _CUT, _MAYBE = 0, 1, 2


def _cor(a, b):
    if a == _CUT or b == _CUT:
        return _CUT
    if a == _MAYBE or b == _MAYBE:
        return _MAYBE
    return _NOCUT


def shape(items):
    """syntax.rst 'Rules': None | a single value | a list"""
    if not items:
        return None
    if len(items) == 1:
        return items[0]
    return list(items)


def _strip(items, unspec=False):
    i = 0
    while i < len(items) and (items[i] is None or (unspec and items[i] is UNSPEC)):
        i += 1
    return items[i:] if i else items


class _Open(list):
    """(deviation emulation only) a list value the engine leaves open"""


def _splice(items):
    if items and isinstance(items[0], _Open):
        return [*items[0], *items[1:]]
    return items


class _Acc(list):
    """a name's value that became a list because more than one item was bound (ast.rst) or `+:`"""


def _add(old, v, force_list, present):
    if old is UNSPEC or (isinstance(old, list) and old and (v is UNSPEC or any(x is UNSPEC for x in old))):
        return UNSPEC  # how an undetermined value accumulates is undetermined as well
    if isinstance(old, _Acc):
        return _Acc([*old, v])
    if isinstance(old, _Open):
        return _Acc([*old, v])
    if not present or old is None:
        return _Acc([v]) if force_list else v
    if v is None and not force_list:
        # x:'a' ... x:[unmatched]: docs do not say whether the "not found" None is an item
        return UNSPEC
    if old is UNSPEC:
        return UNSPEC
    return _Acc([old, v])


def _plain(v):
    if isinstance(v, (_Acc, _Open)):
        return [_plain(x) for x in v]
    if type(v) is list:
        return [_plain(x) for x in v]
    if type(v) is dict:
        return {k: _plain(x) for k, x in v.items()}
    return v


# --------------------------------------------------------------------------------------------------
# static helpers on descriptions
# --------------------------------------------------------------------------------------------------

_BOX1 = {'group', 'skipgroup', 'opt', 'closure', 'pclosure', 'la', 'nla', 'skipto', 'override', 'overridelist'}
_JOINS = {'join', 'pjoin', 'gather', 'pgather'}
_LEAVES = {'tok', 'pat', 'const', 'void', 'fail', 'eof', 'dot', 'emptyclosure', 'cut', 'call'}


def children(e):
    k = e[0]
    if k in ('seq', 'choice'):
        return tuple(e[1])
    if k in _BOX1:
        return (e[1],)
    if k in _JOINS:
        return (e[1], e[2])
    if k in ('named', 'namedlist'):
        return (e[2],)
    return ()


def node_count(e):
    return 1 + sum(node_count(c) for c in children(e))


def kinds_of(e, acc=None):
    acc = set() if acc is None else acc
    acc.add(e[0])
    for c in children(e):
        kinds_of(c, acc)
    return acc


def names_of(e):
    """(single names, list names) syntactically inside `e` (never through a rule call), in order"""
    single, lst = [], []

    def walk(x):
        if x[0] == 'named' and x[1] not in single:
            single.append(x[1])
        if x[0] == 'namedlist' and x[1] not in lst:
            lst.append(x[1])
        for c in children(x):
            walk(c)

    walk(e)
    return tuple(n for n in single if n not in lst), tuple(lst)


def _names_under(e, kinds, under=False, acc=None):
    acc = set() if acc is None else acc
    if under and e[0] in ('named', 'namedlist'):
        acc.add(e[1])
    u = under or e[0] in kinds
    for c in children(e):
        _names_under(c, kinds, u, acc)
    return acc


def _names_under_lookahead(e):
    return _names_under(e, ('la', 'nla'))


def rule_names(desc):
    return [r[0] for r in desc]


def _contains_valueless(e):
    """the operand of a name/override whose value the docs do not determine (Appendix C UNSPECIFIED):
    a group / sequence / optional / choice that contains a lookahead, void, EOF, fail, or an inner
    name or override -- looked for through the transparent constructs only."""
    k = e[0]
    if k in ('la', 'nla', 'void', 'eof', 'fail', 'named', 'namedlist', 'override', 'overridelist'):
        return True
    if k in ('seq', 'choice', 'group', 'opt', 'skipto'):
        return any(_contains_valueless(c) for c in children(e))
    return False


def _operand_unspecified(e):
    k = e[0]
    if k in ('void', 'la', 'nla', 'eof', 'fail', 'cut', 'named', 'namedlist', 'override', 'overridelist'):
        return True
    if k in ('group', 'opt', 'seq', 'choice', 'skipto'):
        return _contains_valueless(e)
    return False


# --------------------------------------------------------------------------------------------------
# the evaluator
# --------------------------------------------------------------------------------------------------

_DEFAULT_WS = r'\s+'
_UNSET = object()


class _Evaluator:
    def __init__(self, desc, text, *, whitespace=_UNSET, nameguard=None, namechars='', ignorecase=False,
                 keywords=(), comments=None, eol_comments=None, left_recursion=True, actions=None,
                 policy=None, group_cut_scope=False, deviations=()):
        self.rules = {}
        for r in desc:
            name, body = r[0], r[1]
            flags = tuple(r[2]) if len(r) > 2 else ()
            self.rules[name] = (body, flags)  # a later definition overrides (the documented @override)
        self.first = desc[0][0]
        self.text = text
        self.n = len(text)
        if whitespace is _UNSET:
            whitespace = _DEFAULT_WS
        self.ws_re = re.compile(whitespace) if whitespace else None
        self.comments_re = re.compile(comments) if comments else None
        self.eol_re = re.compile(eol_comments) if eol_comments else None
        self.namechars = set(namechars or '')
        # syntax.rst: the check is on by default and can be turned off with nameguard=False; the task
        # statement (and C09) fix the default as "on iff whitespace is skipped or namechars are given"
        self.nameguard = bool(nameguard) if nameguard is not None else bool(self.ws_re) or bool(self.namechars)
        self.ignorecase = bool(ignorecase)
        self.keywords = {(k.upper() if self.ignorecase else k) for k in keywords or ()}
        self.left_recursion = left_recursion
        self.actions = actions or {}
        self.policy = dict(DEFAULT_POLICY)
        self.policy.update(policy or {})
        self.dev = frozenset(deviations)
        self.group_cut_scope = group_cut_scope and 'cut-escapes-group' not in self.dev
        self.dev_nodef = 'names-undefined-unless-sequence' in self.dev
        self.dev_none_u = 'none-dropped-at-frame-start/undetermined' in self.dev
        self.dev_none = 'none-dropped-at-frame-start' in self.dev or self.dev_none_u
        self.dev_cutlost = 'cut-lost-in-later-iteration' in self.dev
        self.dev_open = 'open-list-spliced' in self.dev
        self.dev_optdrop = 'optional-around-repetition-dropped' in self.dev
        self.dev_pat1 = 'pattern-first-group-only' in self.dev
        self.active = set()  # (rule, pos) being evaluated: re-entry = left recursion
        self.pat_cache = {}
        self.used_policy = set()  # which open aspects were actually exercised
        self.depth = 0
        self.matched = False  # some terminal matched at least one character

    # ---- lexical layer -------------------------------------------------------------------------
    def ws(self, p):
        """skip whitespace, end-of-line comments and comments until none of them matches"""
        text = self.text
        while True:
            q = p
            for rx in (self.ws_re, self.eol_re, self.comments_re):
                if rx is None:
                    continue
                while True:
                    m = rx.match(text, q)
                    if not m or m.end() == q:
                        break
                    q = m.end()
            if q == p:
                return p
            p = q

    def is_name_char(self, c):
        return c.isalnum() or c in self.namechars

    def token_is_name(self, t):
        # "if text is alphanumeric" (+ namechars, which "should also be considered part of names")
        return bool(t) and all(self.is_name_char(c) for c in t)

    # ---- expressions ---------------------------------------------------------------------------
    def ev(self, e, pos):
        return getattr(self, 'e_' + e[0])(e, pos)

    def e_tok(self, e, pos):
        t = e[1]
        p = self.ws(pos)
        got = self.text[p:p + len(t)]
        if not t or len(got) != len(t):
            return _NOCUT
        if (got.lower() != t.lower()) if self.ignorecase else (got != t):
            return _NOCUT
        q = p + len(t)
        if self.nameguard and self.token_is_name(t) and q < self.n and self.is_name_char(self.text[q]):
            return _NOCUT
        self.matched = True
        return q, [t], [], _NOCUT

    def e_pat(self, e, pos):
        rx = self.pat_cache.get(e[1])
        if rx is None:
            rx = self.pat_cache[e[1]] = re.compile(e[1])
        m = rx.match(self.text, pos)  # never preceded by whitespace skipping
        if not m:
            return _NOCUT
        # "the semantics of re.findall(pattern, text)[0] (a tuple if there is more than one group)"
        g = m.groups(default='')
        if len(g) == 0:
            v = m.group()
        elif len(g) == 1:
            v = g[0]
        else:
            v = g[0] if self.dev_pat1 else tuple(g)
        if m.end() > pos:
            self.matched = True
        return m.end(), [v], [], _NOCUT

    def e_const(self, e, pos):
        return self.ws(pos), [e[1]], [], _NOCUT

    def e_void(self, e, pos):
        return self.ws(pos), [], [], _NOCUT

    def e_fail(self, e, pos):
        return _NOCUT

    def e_eof(self, e, pos):
        p = self.ws(pos)
        if p < self.n:
            return _NOCUT
        return p, [], [], _NOCUT

    def e_dot(self, e, pos):
        if pos >= self.n:
            return _NOCUT
        self.matched = True
        return pos + 1, [self.text[pos]], [], _NOCUT

    def e_emptyclosure(self, e, pos):
        return pos, [[]], [], _NOCUT

    def e_cut(self, e, pos):
        return pos, [], [], _CUT

    def _defs(self, e, level=''):
        """names pre-defined (None / []) by the scope unit `e` (an option, a rule body, the body of
        an optional / closure iteration / group): all names syntactically inside, except that a
        choice leaves the definition to the option that parses"""
        if self.dev_nodef and level in ('rule', 'iteration', 'group'):
            return None
        while e[0] == 'group':
            e = e[1]
        if e[0] == 'choice':
            return None
        s, l = names_of(e)
        if s or l:
            return ('def', s, l)
        return None

    def e_seq(self, e, pos):
        items, binds, cut = [], [], _NOCUT
        d = self._defs(e)
        if d:
            binds.append(d)
        for x in e[1]:
            r = self.ev(x, pos)
            if type(r) is not tuple:
                return _cor(cut, r)
            pos, i, b, c = r
            items += i
            binds += b
            cut = _cor(cut, c)
        return pos, items, binds, cut

    def _alternatives(self, options, pos, epsilon):
        """ordered choice with the cut rule: an option that fails after a cut makes the choice fail;
        the cut of the option that parses does not leave the choice.  `epsilon`: an implicit last
        empty option ([x] = x | e)."""
        n = len(options)
        for i, o in enumerate(options):
            r = self.ev(o, pos)
            if type(r) is tuple:
                p, items, binds, cut = r
                d = self._defs(o)
                if epsilon and self.dev_nodef and o[0] in ('opt', 'closure', 'join', 'gather'):
                    d = None  # Optional.optimized() drops the outer optional
                if d:
                    binds = [d, *binds]
                if self.dev_none:
                    items = _strip(items, self.dev_none_u)
                if self.dev_open:
                    items = _splice(items)
                return p, items, binds, _NOCUT
            if r == _CUT:
                return _NOCUT
            if r == _MAYBE and (i + 1 < n or epsilon):
                raise _UnspecifiedCase('a cut inside a lookahead/skip-to operand would decide the outcome')
        return None

    def e_choice(self, e, pos):
        r = self._alternatives(e[1], pos, False)
        if r is None:
            return _NOCUT
        return r

    def e_group(self, e, pos):
        r = self.ev(e[1], pos)
        scope = self.group_cut_scope or self.policy['group_cut'] == 'scope'
        if type(r) is not tuple:
            if r != _NOCUT:
                self.used_policy.add('group_cut')
            return _NOCUT if scope else r
        p, items, binds, cut = r
        if cut != _NOCUT:
            self.used_policy.add('group_cut')
        d = self._defs(e[1], 'group')
        if d:
            binds = [d, *binds]
        return p, items, binds, (_NOCUT if scope else cut)

    def e_skipgroup(self, e, pos):
        r = self.e_group(e, pos)
        if type(r) is not tuple:
            return r
        p, _items, binds, cut = r
        if binds:
            self.used_policy.add('skipgroup_binds')
            if self.policy['skipgroup_binds'] == 'drop':
                binds = []
        return p, [], binds, cut  # "do not capture what was parsed"

    def e_opt(self, e, pos):
        if self.dev_optdrop and e[1][0] in ('opt', 'closure', 'join', 'gather'):
            return self.ev(e[1], pos)
        r = self._alternatives((e[1],), pos, True)
        if r is None:
            return pos, [], [], _NOCUT  # the empty option: contributes no items
        if type(r) is tuple:
            return r
        return _NOCUT  # the body failed after a cut

    # closures and joins ---------------------------------------------------------------------------
    # {x} = B -> x B | e ; {x}+ = x {x} ; s%{e}+ "parses the same as e {s ~ e}" ; s%{e} = s%{e}+ | {}
    # The braces are brackets: no cut leaves them.
    def _body(self, body, pos):
        """the body of one iteration -> failure(cut) | (pos, value, binds, cut)"""
        r = self.ev(body, pos)
        if type(r) is not tuple:
            return r
        p, i, b, c = r
        d = self._defs(body, 'iteration')
        if d:
            b = [d, *b]
        if self.dev_none:
            i = _strip(i, self.dev_none_u)
        if self.dev_open:
            i = _splice(i)
        return p, shape(i), b, c

    def _more(self, body, sep, keepsep, pos, values, binds, first):
        """the iterations of a closure ({x}: all of them; joins: the `{s ~ e}` part).
        -> None when an iteration fails after a cut (the repetition fails), else the end position;
        `values` / `binds` are extended in place."""
        while True:
            vals, bs, cut, p = [], [], _NOCUT, pos
            failed = None
            if sep is not None:
                r = self.ev(sep, p)
                if type(r) is not tuple:
                    failed = r
                else:
                    p, i, b, _c = r
                    if keepsep:
                        vals.append(shape(i))
                    bs += b
                    cut = _CUT  # the join commits after each separator
            if failed is None:
                r = self._body(body, p)
                if type(r) is not tuple:
                    failed = _cor(cut, _NOCUT if (self.dev_cutlost and not first) else r)
                else:
                    p, v, b, c = r
                    vals.append(v)
                    bs += b
                    cut = _cor(cut, c)
            if failed is not None:
                if failed == _CUT:
                    return None
                if failed == _MAYBE:
                    raise _UnspecifiedCase('a cut inside a lookahead/skip-to operand would decide the outcome')
                return pos
            if p == pos:
                # an iteration that consumes nothing ends the repetition (Appendix C); whether it still
                # counts is not documented
                which = 'empty_first' if first else 'empty_later'
                self.used_policy.add(which)
                if self.policy[which] == 'keep':
                    values += vals
                    binds += bs
                elif self.policy[which] == 'fail' and cut == _CUT:
                    return None
                return pos
            if self.dev_none and not first:
                vals = _strip(vals, True)
            values += vals
            binds += bs
            pos = p
            first = False

    def e_closure(self, e, pos):
        values, binds = [], []
        end = self._more(e[1], None, False, pos, values, binds, True)
        if end is None:
            return _NOCUT
        return end, [values], binds, _NOCUT

    def e_pclosure(self, e, pos):
        r = self._body(e[1], pos)  # "one or more times": the first match is required and always counts
        if type(r) is not tuple:
            return _NOCUT
        p, v, binds, _c = r
        values = [v]
        if p == pos:
            return p, [values], binds, _NOCUT  # a further iteration would consume nothing as well
        end = self._more(e[1], None, False, p, values, binds, False)
        if end is None:
            return _NOCUT
        return end, [values], binds, _NOCUT

    def _pjoin(self, e, pos, keepsep):
        """e {s ~ e} -> (success tuple | None, cut seen at the level of the first e, a later iteration failed
        after the separator's cut)"""
        r = self._body(e[2], pos)
        if type(r) is not tuple:
            return None, r, False
        p, v, binds, c = r
        values = [v]
        end = self._more(e[2], e[1], keepsep, p, values, binds, False)
        if end is None:
            return None, c, True
        return (end, [values], binds, _NOCUT), c, False

    def _join(self, e, pos, keepsep, positive):
        r, c, later_cut = self._pjoin(e, pos, keepsep)
        if r is not None:
            return r
        if positive:
            return _NOCUT
        # s%{e} = s%{e}+ | {} : the first option failed
        if c == _CUT:
            return _NOCUT
        if later_cut:
            self.used_policy.add('join_cut')
            if self.policy['join_cut'] == 'fail':
                return _NOCUT
        if c == _MAYBE:
            raise _UnspecifiedCase('a cut inside a lookahead/skip-to operand would decide the outcome')
        return pos, [[]], [], _NOCUT

    def e_join(self, e, pos):
        return self._join(e, pos, True, False)

    def e_pjoin(self, e, pos):
        return self._join(e, pos, True, True)

    def e_gather(self, e, pos):
        return self._join(e, pos, False, False)

    def e_pgather(self, e, pos):
        return self._join(e, pos, False, True)

    # lookaheads -----------------------------------------------------------------------------------
    def _probe(self, e, pos):
        r = self.ev(e, pos)
        if type(r) is tuple:
            return True, (_MAYBE if r[3] != _NOCUT else _NOCUT)
        return False, (_MAYBE if r != _NOCUT else _NOCUT)

    def e_la(self, e, pos):
        ok, cut = self._probe(e[1], pos)
        if not ok:
            return cut
        return pos, [], [], cut

    def e_nla(self, e, pos):
        ok, cut = self._probe(e[1], pos)
        if ok:
            return cut
        return pos, [], [], cut

    def e_skipto(self, e, pos):
        # "advance over input, one character at time, until e matches.  Whitespace and comments
        # will be skipped at each step."  == { !e /./ } e
        while pos < self.n:
            ok, _c = self._probe(e[1], pos)
            if ok:
                break
            p = self.ws(pos)
            pos = p if p != pos else pos + 1
        r = self.ev(e[1], pos)
        if type(r) is not tuple:
            return _MAYBE if r != _NOCUT else _NOCUT
        p, items, binds, cut = r
        return p, items, binds, (_MAYBE if cut != _NOCUT else _NOCUT)

    # names ----------------------------------------------------------------------------------------
    def _operand(self, e, pos):
        r = self.ev(e, pos)
        if type(r) is not tuple:
            return r, None
        v = UNSPEC if _operand_unspecified(e) else shape(r[1])
        if self.dev_none and v is not UNSPEC and e[0] in ('group', 'opt') and any(i is None for i in r[1]):
            v = shape([i for i in r[1] if i is not None])  # (emulation) Sequence._parse skips None results
        if self.dev_open and type(v) is list and len(r[1]) > 1:
            v = _Open(v)
        return r, v

    def e_named(self, e, pos):
        r, v = self._operand(e[2], pos)
        if type(r) is not tuple:
            return r
        p, items, binds, cut = r
        return p, items, [*binds, ('set', e[1], v)], cut

    def e_namedlist(self, e, pos):
        r, v = self._operand(e[2], pos)
        if type(r) is not tuple:
            return r
        p, items, binds, cut = r
        return p, items, [*binds, ('add', e[1], v)], cut

    def e_override(self, e, pos):
        r, v = self._operand(e[1], pos)
        if type(r) is not tuple:
            return r
        p, items, binds, cut = r
        return p, items, [*binds, ('ovr', v)], cut

    def e_overridelist(self, e, pos):
        r, v = self._operand(e[1], pos)
        if type(r) is not tuple:
            return r
        p, items, binds, cut = r
        return p, items, [*binds, ('ovl', v)], cut

    # rules ----------------------------------------------------------------------------------------
    def e_call(self, e, pos):
        r = self.call(e[1], pos)
        if r is None:
            return _NOCUT  # the callee's cut never escapes
        value, p = r
        return p, [value], [], _NOCUT  # exactly one element of the caller

    def call(self, name, pos):
        if name not in self.rules:
            raise Unsupported(f'unknown rule {name}')
        body, flags = self.rules[name]
        # "Rule names that start with an uppercase character do not advance over whitespace before
        # beginning to parse"; every other rule invocation does
        p = pos if name[:1].isupper() else self.ws(pos)
        key = (name, p)
        if key in self.active:
            raise Unsupported(f'left recursion through {name}')
        self.depth += 1
        if self.depth > 60:
            raise Unsupported('recursion depth')
        self.active.add(key)
        try:
            r = self.ev(body, p)
        finally:
            self.active.discard(key)
            self.depth -= 1
        if type(r) is not tuple:
            if r == _MAYBE:
                pass  # a rule contains its cuts whatever they were
            return None
        endpos, items, binds, _cut = r
        d = self._defs(body, 'rule')
        if d:
            binds = [d, *binds]
        if self.dev_none:
            items = _strip(items, self.dev_none_u)
        if self.dev_open:
            items = _splice(items)
        value = self.rule_value(body, items, binds)
        if 'name' in flags:
            if value is UNSPEC or has_unspec(value):
                raise _UnspecifiedCase('@name rule with an undetermined value')
            s = str(value)
            if (s.upper() if self.ignorecase else s) in self.keywords:
                return None
        action = self.actions.get(name)
        if action is not None:
            try:
                value = action(value)
            except SemanticFail:
                return None
        return value, endpos

    def rule_value(self, body, items, binds):
        B = {}
        O = _UNSET
        under_la = _names_under_lookahead(body)
        for b in binds:
            op = b[0]
            if op == 'def':
                for n in b[2]:
                    if n not in B:
                        B[n] = _Acc()
                for n in b[1]:
                    if n not in B:
                        B[n] = None
            elif op == 'set':
                B[b[1]] = _add(B.get(b[1]), b[2], False, b[1] in B)
            elif op == 'add':
                B[b[1]] = _add(B.get(b[1]), b[2], True, b[1] in B)
            elif op == 'ovr':
                O = b[1] if O is _UNSET else _add(O, b[1], False, True)
            elif op == 'ovl':
                if O is None:
                    O = UNSPEC  # a list override after an override that matched nothing: not documented
                else:
                    O = _Acc([b[1]]) if O is _UNSET else _add(O, b[1], True, True)
        if O is not _UNSET:
            if self.dev_open and isinstance(O, (_Acc, _Open)):
                return _Open(_plain(O))
            return _plain(O)
        if B:
            for n in under_la:
                if n in B:
                    B[n] = UNSPEC  # what a name inside a lookahead binds is not documented
            if self.policy['skipgroup_binds'] == 'drop':
                for n in _names_under(body, ('skipgroup',)):
                    if n in B and (B[n] is None or (isinstance(B[n], _Acc) and not B[n])):
                        B[n] = UNSPEC  # not captured: present as None / [] or absent
            if all(v is UNSPEC for v in B.values()):
                return UNSPEC  # whether the rule "has named elements" at all is then open as well
            return {k: _plain(v) for k, v in B.items()}
        return shape(items)


def _outcome(ev, start):
    try:
        r = ev.call(start or ev.first, 0)
    except _UnspecifiedCase as e:
        return Unspecified(str(e))
    except RecursionError:
        raise Unsupported('recursion depth') from None
    if r is None:
        return Fail()
    return Ok(_plain(r[0]), r[1])


def evaluate(grammar_desc, text, start=None, **config):
    """the documented outcome of parsing `text` with `grammar_desc` from rule `start` (default: the
    first rule).  config: whitespace (default r'\\s+'; a regex; '' / None = no skipping), nameguard,
    namechars, ignorecase, keywords, comments, eol_comments, left_recursion, actions {rule: callable},
    policy {aspect: choice} (see POLICIES), group_cut_scope (syntax.rst: True).
    -> Ok(value, endpos) | Fail() | Unspecified(why); raises Unsupported."""
    return _outcome(_Evaluator(grammar_desc, text, **config), start)


def evaluate_info(grammar_desc, text, start=None, **config):
    """-> (outcome, info): info['matched'] some terminal matched >= 1 character (also on paths that were
    backtracked), info['open'] the open aspects (POLICIES) the evaluation reached"""
    ev = _Evaluator(grammar_desc, text, **config)
    out = _outcome(ev, start)
    return out, {'matched': ev.matched, 'open': frozenset(ev.used_policy)}


def admissible_outcomes(grammar_desc, text, start=None, **config):
    """every outcome admissible under the open aspects (POLICIES): [(policy, outcome)], the default
    policy first.  If the default evaluation never reaches an open aspect there is only one."""
    config.pop('policy', None)
    ev = _Evaluator(grammar_desc, text, **config)
    out = [(dict(DEFAULT_POLICY), _outcome(ev, start))]
    if not ev.used_policy:
        return out
    keys = sorted(POLICIES)
    for combo in itertools.product(*(POLICIES[k] for k in keys)):
        pol = dict(zip(keys, combo))
        if pol == DEFAULT_POLICY:
            continue
        out.append((pol, _outcome(_Evaluator(grammar_desc, text, policy=pol, **config), start)))
    return out


# --------------------------------------------------------------------------------------------------
# comparison helpers
# --------------------------------------------------------------------------------------------------

def has_unspec(v):
    if v is UNSPEC:
        return True
    if isinstance(v, dict):
        return any(has_unspec(x) for x in v.values())
    if isinstance(v, (list, tuple)):
        return any(has_unspec(x) for x in v)
    return False


def same_value(expected, actual):
    """python equality on what users see (closedlist == list, dict order irrelevant), with UNSPEC in
    `expected` matching anything (a dict key whose value is UNSPEC may also be absent)"""
    if expected is UNSPEC:
        return True
    if isinstance(expected, dict):
        if not isinstance(actual, dict):
            return False
        for k, v in expected.items():
            if k not in actual:
                if v is UNSPEC:
                    continue
                return False
            if not same_value(v, actual[k]):
                return False
        return all(k in expected for k in actual)
    if isinstance(expected, list):
        if not isinstance(actual, list) or len(actual) != len(expected):
            return False
        return all(same_value(x, y) for x, y in zip(expected, actual))
    if isinstance(expected, tuple):
        if not isinstance(actual, tuple) or len(actual) != len(expected):
            return False
        return all(same_value(x, y) for x, y in zip(expected, actual))
    if isinstance(actual, (dict, list)):
        return False
    return type(expected) is type(actual) and expected == actual if isinstance(expected, (bool, int)) \
        else expected == actual


def normalize(v):
    """a plain-python copy of a value returned by the real parser (AST -> dict, closedlist -> list)"""
    if isinstance(v, dict):
        return {k: normalize(x) for k, x in v.items()}
    if isinstance(v, list):
        return [normalize(x) for x in v]
    if isinstance(v, tuple):
        return tuple(normalize(x) for x in v)
    return v


# --------------------------------------------------------------------------------------------------
# concrete syntax: which descriptions can be written down, and how
# --------------------------------------------------------------------------------------------------

_ATOMS = {'tok', 'pat', 'const', 'dot', 'eof', 'call', 'group', 'skipgroup'}
_TERMS = _ATOMS | {'closure', 'pclosure', 'join', 'pjoin', 'gather', 'pgather', 'emptyclosure', 'opt', 'void',
                   'fail', 'skipto', 'la', 'nla', 'cut'}
_ELEMENTS = _TERMS | {'named', 'namedlist', 'override', 'overridelist'}


def _wf(e, ctx):
    """ctx: 'expre' (rule / bracket body), 'option', 'element', 'term', 'atom'"""
    k = e[0]
    if k == 'choice':
        return ctx == 'expre' and len(e[1]) >= 2 and all(_wf(o, 'option') for o in e[1])
    if k == 'seq':
        return ctx in ('expre', 'option') and len(e[1]) >= 2 and all(_wf(x, 'element') for x in e[1])
    if ctx == 'atom' and k not in _ATOMS:
        return False
    if ctx == 'term' and k not in _TERMS:
        return False
    if k not in _ELEMENTS:
        return False
    if k in ('named', 'namedlist'):
        return _wf(e[2], 'term')
    if k in ('override', 'overridelist', 'la', 'nla', 'skipto'):
        return _wf(e[1], 'term')
    if k in ('group', 'skipgroup', 'opt', 'closure', 'pclosure'):
        return _wf(e[1], 'expre')
    if k in _JOINS:
        return _wf(e[1], 'atom') and _wf(e[2], 'expre')
    if k == 'tok':
        return bool(e[1])
    return True


def wellformed(desc):
    names = set()
    for r in desc:
        if r[0] in names or not re.fullmatch(r'[A-Za-z_]\w*', r[0]):
            return False
        names.add(r[0])
        if not _wf(r[1], 'expre'):
            return False

    def calls_ok(e):
        if e[0] == 'call' and e[1] not in names:
            return False
        return all(calls_ok(c) for c in children(e))

    return all(calls_ok(r[1]) for r in desc)


def _const_text(v):
    if isinstance(v, str):
        return '`' + repr(v) + '`'
    return f'`{v!r}`'


def _txt(e):
    k = e[0]
    if k == 'tok':
        return repr(e[1])
    if k == 'pat':
        return f'?"{e[1]}"' if '/' in e[1] else f'/{e[1]}/'
    if k == 'const':
        return _const_text(e[1])
    if k == 'void':
        return '()'
    if k == 'fail':
        return '!()'
    if k == 'eof':
        return '$'
    if k == 'dot':
        return '/./'
    if k == 'emptyclosure':
        return '{}'
    if k == 'cut':
        return '~'
    if k == 'call':
        return e[1]
    if k == 'seq':
        return ' '.join(_txt(x) for x in e[1])
    if k == 'choice':
        return ' | '.join(_txt(x) for x in e[1])
    if k == 'group':
        return f'({_txt(e[1])})'
    if k == 'skipgroup':
        return f'(?: {_txt(e[1])})'
    if k == 'opt':
        return f'[{_txt(e[1])}]'
    if k == 'closure':
        return f'{{{_txt(e[1])}}}'
    if k == 'pclosure':
        return f'{{{_txt(e[1])}}}+'
    if k == 'join':
        return f'{_txt(e[1])}%{{{_txt(e[2])}}}'
    if k == 'pjoin':
        return f'{_txt(e[1])}%{{{_txt(e[2])}}}+'
    if k == 'gather':
        return f'{_txt(e[1])}.{{{_txt(e[2])}}}'
    if k == 'pgather':
        return f'{_txt(e[1])}.{{{_txt(e[2])}}}+'
    if k == 'la':
        return '&' + _txt(e[1])
    if k == 'nla':
        return '!' + _txt(e[1])
    if k == 'skipto':
        return '->' + _txt(e[1])
    if k == 'named':
        return f'{e[1]}:{_txt(e[2])}'
    if k == 'namedlist':
        return f'{e[1]}+:{_txt(e[2])}'
    if k == 'override':
        return '@:' + _txt(e[1])
    if k == 'overridelist':
        return '@+:' + _txt(e[1])
    raise ValueError(f'unknown expression kind {k!r}')


def _directives(settings):
    """settings -> ({directive: value as GrammarSemantics.grammar stores it}, keywords, text lines)"""
    d, lines = {}, []
    s = dict(settings)
    keywords = tuple(s.pop('keywords', ()) or ())
    if 'whitespace' in s:
        w = s.pop('whitespace')
        if w in (None, ''):
            d['whitespace'] = ''
            lines.append('@@whitespace :: None')
        else:
            d['whitespace'] = w
            lines.append(f'@@whitespace :: ?"{w}"' if '/' in w else f'@@whitespace :: /{w}/')
    for k in ('comments', 'eol_comments'):
        if s.get(k):
            w = s.pop(k)
            d[k] = w
            lines.append(f'@@{k} :: ?"{w}"' if '/' in w else f'@@{k} :: /{w}/')
        else:
            s.pop(k, None)
    for k in ('nameguard', 'ignorecase', 'left_recursion'):
        if k in s:
            v = s.pop(k)
            if v is not None:
                d[k] = bool(v)
                lines.append(f'@@{k} :: {bool(v)}')
    if s.get('namechars'):
        d['namechars'] = s['namechars']
        lines.append(f'@@namechars :: {s["namechars"]!r}')
    s.pop('namechars', None)
    for k in ('actions', 'policy', 'group_cut_scope'):
        s.pop(k, None)
    if s:
        raise ValueError(f'unknown settings {sorted(s)}')
    if keywords:
        lines.append('@@keyword :: ' + ' '.join(keywords))
    return d, keywords, lines


def to_text(grammar_desc, **settings):
    """grammar source text: `tatsu.compile(to_text(d)).parse(text)` replays a case by hand"""
    if not wellformed(grammar_desc):
        raise ValueError('description is not expressible in the concrete syntax')
    _d, _kw, lines = _directives(settings)
    out = list(lines)
    if out:
        out.append('')
    for r in grammar_desc:
        flags = tuple(r[2]) if len(r) > 2 else ()
        if 'name' in flags:
            out.append('@name')
        out.append(f'{r[0]} = {_txt(r[1])} ;')
    return '\n'.join(out) + '\n'


def _mk(e, peg):
    k = e[0]
    if k == 'tok':
        return peg.Token(token=e[1])
    if k == 'pat':
        return peg.Pattern(pattern=e[1])
    if k == 'const':
        return peg.Constant(literal=e[1])
    if k == 'void':
        return peg.Void()
    if k == 'fail':
        return peg.Fail()
    if k == 'eof':
        return peg.EOF()
    if k == 'dot':
        return peg.Dot()
    if k == 'emptyclosure':
        return peg.EmptyClosure()
    if k == 'cut':
        return peg.Cut()
    if k == 'call':
        return peg.Call(name=e[1])
    if k == 'seq':
        return peg.Sequence(sequence=[_mk(x, peg) for x in e[1]])
    if k == 'choice':
        return peg.Choice(options=[peg.Option(exp=_mk(x, peg)) for x in e[1]])
    if k == 'group':
        return peg.Group(exp=_mk(e[1], peg))
    if k == 'skipgroup':
        return peg.SkipGroup(exp=_mk(e[1], peg))
    if k == 'opt':
        return peg.Optional(exp=_mk(e[1], peg))
    if k == 'closure':
        return peg.Closure(exp=_mk(e[1], peg))
    if k == 'pclosure':
        return peg.PositiveClosure(exp=_mk(e[1], peg))
    if k in _JOINS:
        cls = {'join': peg.Join, 'pjoin': peg.PositiveJoin, 'gather': peg.Gather, 'pgather': peg.PositiveGather}[k]
        return cls(exp=_mk(e[2], peg), sep=_mk(e[1], peg))
    if k == 'la':
        return peg.Lookahead(exp=_mk(e[1], peg))
    if k == 'nla':
        return peg.NegativeLookahead(exp=_mk(e[1], peg))
    if k == 'skipto':
        return peg.SkipTo(exp=_mk(e[1], peg))
    if k == 'named':
        return peg.Named(name=e[1], exp=_mk(e[2], peg))
    if k == 'namedlist':
        return peg.NamedList(name=e[1], exp=_mk(e[2], peg))
    if k == 'override':
        return peg.Override(exp=_mk(e[1], peg))
    if k == 'overridelist':
        return peg.OverrideList(exp=_mk(e[1], peg))
    raise ValueError(f'unknown expression kind {k!r}')


def to_model(grammar_desc, **settings):
    """the REAL in-memory grammar model (tatsu.peg.Grammar), built node by node the way
    GrammarSemantics builds it from source text (same node classes, same directives dict)"""
    from tatsu import peg
    if not wellformed(grammar_desc):
        raise ValueError('description is not expressible in the concrete syntax')
    directives, keywords, _lines = _directives(settings)
    rules = []
    for r in grammar_desc:
        flags = tuple(r[2]) if len(r) > 2 else ()
        decorators = ['name'] if 'name' in flags else []
        rules.append(peg.Rule(name=r[0], exp=_mk(r[1], peg), params=(), kwparams={}, decorators=decorators))
    return peg.Grammar('Spec', rules, directives=directives, keywords=keywords)
