"""C12 bounded stand-in: source positions and parse information.

(a) line index: ALL strings over {a, ' ', LF, CR} up to a length bound x every offset 0..len, for the
    TextLines cursor, the Buffer cursor and the Buffer's own (legacy) lineinfo/posline/poscol, against
    an independent spec (DESIGN 2.4): split at LF / CR / CRLF, line = index of the line containing the
    offset, col = offset - line start, text = that line; offset == len: the last line when it is
    unterminated, else a new empty line after the last one at column 0.  No call may raise.
(b) parse info: a battery of grammars with named rules (dict ASTs) and typed rules (object-model
    nodes) x inputs with leading whitespace / comments / several lines, parseinfo on.  An independent
    small PEG interpreter (own grammar representation, own whitespace/comment skipping) recomputes,
    for the successful parse, every rule invocation (rule, start after leading whitespace, end) and
    which invocations return a dict AST / node that is retained in the result.  Every dict AST / node
    of the real result must carry parseinfo with one of the (rule, pos, endpos) triples of the rules
    that returned it, line == line_of(pos) per (a)'s spec, endline == line_of(endpos); the multiset of
    objects must be exactly the retained invocations; Node.text / Node.line agree when defined.
"""
from __future__ import annotations

import itertools
import random
import re
import sys
import time

from bounded.common import bitem, chunked, pmap

ALPHABET = ('a', ' ', '\n', '\r')


# --------------------------------------------------------------------------- spec (independent)
def spec_lines(text):
    """split at LF, CR, CRLF keeping the terminators (written out; not str.splitlines)."""
    lines, cur, i, n = [], [], 0, len(text)
    while i < n:
        c = text[i]
        cur.append(c)
        if c == '\r' and i + 1 < n and text[i + 1] == '\n':
            cur.append('\n')
            i += 1
            lines.append(''.join(cur))
            cur = []
        elif c in '\r\n':
            lines.append(''.join(cur))
            cur = []
        i += 1
    if cur:
        lines.append(''.join(cur))
    return lines


def spec_pos(text, pos):
    """-> (line, col, start, linetext) of DESIGN 2.4 for 0 <= pos <= len(text)."""
    lines = spec_lines(text)
    start = 0
    for k, ln in enumerate(lines):
        if start <= pos < start + len(ln):
            return k, pos - start, start, ln
        start += len(ln)
    # pos == len(text)
    if lines and lines[-1][-1] not in '\r\n':
        st = len(text) - len(lines[-1])
        return len(lines) - 1, pos - st, st, lines[-1]
    return len(lines), 0, len(text), ''


# --------------------------------------------------------------------------- (a) line index
def _impls():
    from tatsu.input.buffer import Buffer
    from tatsu.input.textlines import TextLines

    def tl(text):
        c = TextLines(text).newcursor()
        return {'lineinfo': c.lineinfo, 'lineat': c.lineat, 'poscol': c.poscol}

    def bc(text):
        c = Buffer(text).newcursor()
        return {'lineinfo': c.lineinfo, 'lineat': c.lineat, 'poscol': c.poscol}

    def bo(text):
        b = Buffer(text)
        return {'lineinfo': b.lineinfo, 'lineat': b.posline, 'poscol': b.poscol}

    return (('TextLinesCursor', tl, 'TextLines({t!r}).newcursor()'),
            ('BufferCursor', bc, 'Buffer({t!r}).newcursor()'),
            ('Buffer', bo, 'Buffer({t!r})'))


def _cls_a(impl, fn, text, pos, exc):
    """finding class: the cursors share one class per function (they share the cache and duplicate
    the code); the Buffer's own legacy methods get their own classes."""
    own = 'buffer-own-' if impl == 'Buffer' else ''
    if exc:
        if text == '':
            who = {'TextLinesCursor': 'textlines', 'BufferCursor': 'buffer', 'Buffer': 'buffer-own'}[impl]
            return f'{who}-empty-text-{exc.lower()}'
        return f'{own}{fn}-raises-{exc.lower()}'
    if pos == len(text):
        if fn == 'lineinfo':
            # two classes: (i) the last line is unterminated and the column is clamped onto its last
            # character; (ii) the text ends in a line break and the last line is reported instead of the
            # new empty line (pinned by tests/buffering_test.py::test_line_info_consistency)
            return own + ('lineinfo-at-eof-after-line-break-reports-last-line' if text[-1:] in ('\n', '\r')
                          else 'lineinfo-at-eof-clamped')
        if impl == 'Buffer':
            return {'lineat': 'buffer-own-posline-at-eof-clamped', 'poscol': 'buffer-own-poscol-at-eof-sentinel-start'}[fn]
        return {'lineat': 'lineat-at-eof-sentinel-line-count', 'poscol': 'poscol-at-eof-sentinel-start'}[fn]
    return f'{own}{fn}-wrong-inside-text'


def check_text(text, impls=None):
    """-> (cases, nontrivial, failures)"""
    impls = impls or _impls()
    fails = []
    cases = nontriv = 0
    for pos in range(len(text) + 1):
        line, col, start, ltext = spec_pos(text, pos)
        if (line, col) != (0, pos) or pos == len(text):
            nontriv += 1
        for impl, mk, how in impls:
            try:
                fns = mk(text)
            except Exception as e:  # construction must not raise either
                fails.append(dict(witness={'impl': impl, 'text': text, 'call': how.format(t=text)},
                                  detail=f'constructor raised {type(e).__name__}: {e}',
                                  cls=f'{impl.lower()}-constructor-raises'))
                continue
            exp = {'lineinfo': (line, col, start, start + len(ltext), ltext), 'lineat': line, 'poscol': col}
            for fn in ('lineinfo', 'lineat', 'poscol'):
                cases += 1
                realfn = {'lineat': 'posline'}.get(fn, fn) if impl == 'Buffer' else fn
                call = f'{how.format(t=text)}.{realfn}({pos})'
                try:
                    got = fns[fn](pos)
                    if fn == 'lineinfo':
                        got = (got.line, got.col, got.start, got.end, got.text)
                except Exception as e:
                    fails.append(dict(witness={'impl': impl, 'text': text, 'pos': pos, 'call': call},
                                      detail=f'{call} raised {type(e).__name__}: {e}; expected {exp[fn]!r}',
                                      cls=_cls_a(impl, fn, text, pos, type(e).__name__)))
                    continue
                if got != exp[fn]:
                    what = '(line, col, start, end, text)' if fn == 'lineinfo' else fn
                    if fn == 'lineinfo' and pos == len(text) and text[-1:] in ('\n', '\r'):
                        # the known answer is exactly the line information of the final line-break character;
                        # anything else at this offset is a different failure
                        l1, c1, s1, t1 = spec_pos(text, pos - 1)
                        if got != (l1, c1, s1, s1 + len(t1), t1):
                            own = 'buffer-own-' if impl == 'Buffer' else ''
                            fails.append(dict(witness={'impl': impl, 'text': text, 'pos': pos, 'call': call},
                                              detail=f'{call}: {what} = {got!r} is neither the new empty line {exp[fn]!r} nor the last line',
                                              cls=f'{own}lineinfo-at-eof-after-line-break-inconsistent'))
                            continue
                    fails.append(dict(witness={'impl': impl, 'text': text, 'pos': pos, 'call': call},
                                      detail=f'{call}: {what} = {got!r}, spec (split at line breaks) = {exp[fn]!r}',
                                      cls=_cls_a(impl, fn, text, pos, None)))
    return cases, nontriv, fails


def _work_a(texts):
    impls = _impls()
    cases = nontriv = 0
    fails = {}
    for t in texts:
        c, n, fs = check_text(t, impls)
        cases += c
        nontriv += n
        for f in fs:
            cur = fails.setdefault(f['cls'], [0, f])
            cur[0] += 1
            if len(repr(f['witness'])) < len(repr(cur[1]['witness'])):
                cur[1] = f
    return cases, nontriv, fails


def all_texts(maxlen):
    for n in range(maxlen + 1):
        for t in itertools.product(ALPHABET, repeat=n):
            yield ''.join(t)


def run_lines(tier, seed):
    maxlen = 7 if tier == 'quick' else 9
    texts = list(all_texts(maxlen))
    ntexts = len(texts)
    extra = []
    if tier != 'quick':
        rnd = random.Random(seed)
        for _ in range(20000):
            n = rnd.randrange(10, 60)
            extra.append(''.join(rnd.choice('ab \n\r\n\r\t.') for _ in range(n)))
    res = pmap(_work_a, chunked(texts + extra, 64))
    cases = sum(r[0] for r in res)
    nontriv = sum(r[1] for r in res)
    merged = {}
    for r in res:
        for cls, (cnt, f) in r[2].items():
            cur = merged.setdefault(cls, [0, f])
            cur[0] += cnt
            if len(repr(f['witness'])) < len(repr(cur[1]['witness'])):
                cur[1] = f
    failures = []
    counts = {}
    for cls, (cnt, f) in merged.items():
        f = dict(f)
        f['detail'] += f' [{cnt} failing (text, offset, function) cases in this class]'
        counts[cls] = cnt
        failures.append(f)
    items = bitem(
        'C12', 'line-index', function='TextLinesCursor/BufferCursor/Buffer lineinfo, lineat(posline), poscol',
        domain=f"all strings over {{'a',' ',LF,CR}} of length <= {maxlen} ({ntexts} texts) x every offset 0..len x 3 "
               f"implementations x 3 functions" + (f' + {len(extra)} seeded random texts of length 10..59' if extra else ''),
        bound=f'length <= {maxlen}', cases=cases, distinct_nontrivial=nontriv,
        rule='(text, offset) pairs whose expected (line, col) differs from (0, offset) or with offset == len(text)',
        exhaustive=True, samples=[repr(t) for t in ('', 'a', 'a\n', 'a\r\na', '\r\r')], failures=failures,
        note='bounded: line index of both input implementations vs split-at-line-breaks spec (DESIGN 2.4)')
    for it in items:
        cls = it.id.rsplit('/', 1)[-1]
        if cls in counts:
            it.extra['failing_cases'] = counts[cls]
    return items


# --------------------------------------------------------------------------- (b) parse info
# own grammar representation --------------------------------------------------
class E:
    pass


class Tok(E):
    def __init__(self, s):
        self.s = s

    def src(self):
        return repr(self.s)


class Pat(E):
    def __init__(self, p):
        self.p = p

    def src(self):
        return f'/{self.p}/'


class Call(E):
    def __init__(self, r):
        self.r = r

    def src(self):
        return self.r


class Seq(E):
    def __init__(self, *es):
        self.es = es

    def src(self):
        return ' '.join(e.src() for e in self.es)


class Alt(E):
    def __init__(self, *es):
        self.es = es

    def src(self):
        return '(' + ' | '.join(e.src() for e in self.es) + ')'


class Opt(E):
    def __init__(self, e):
        self.e = e

    def src(self):
        return '[' + self.e.src() + ']'


class Star(E):
    def __init__(self, e, plus=False):
        self.e = e
        self.plus = plus

    def src(self):
        return '{' + self.e.src() + '}' + ('+' if self.plus else '*')


class Named(E):
    def __init__(self, name, e, lst=False):
        self.name = name
        self.e = e
        self.lst = lst

    def src(self):
        return f'{self.name}{"+:" if self.lst else ":"}{self.e.src()}'


class Over(E):  # @:e
    def __init__(self, e):
        self.e = e

    def src(self):
        return '@:' + self.e.src()


class Eof(E):
    def src(self):
        return '$'


class G:
    """a grammar of the battery: rules = [(name, type or None, expr)], directives"""

    def __init__(self, gid, rules, comments=None, eol_comments=None, whitespace=None):
        self.gid = gid
        self.rules = rules
        self.comments = comments
        self.eol_comments = eol_comments
        self.whitespace = whitespace  # None = default \s+

    def text(self):
        out = ['@@grammar :: ' + self.gid]
        if self.whitespace is not None:
            out.append(f'@@whitespace :: /{self.whitespace}/')
        if self.comments:
            out.append(f'@@comments :: /{self.comments}/')
        if self.eol_comments:
            out.append(f'@@eol_comments :: /{self.eol_comments}/')
        out.append('@@parseinfo :: True')
        for name, typ, e in self.rules:
            out.append(f'{name}{"::" + typ if typ else ""} = {e.src()} ;')
        return '\n'.join(out) + '\n'


def _has(e, kind):
    if isinstance(e, kind):
        return True
    for sub in getattr(e, 'es', ()) or ():
        if _has(sub, kind):
            return True
    if hasattr(e, 'e'):
        return _has(e.e, kind)
    return False


class NoParse(Exception):
    pass


class Inv:
    """one successful rule invocation of the reference parse"""
    __slots__ = ('rule', 'pos', 'end', 'isobj', 'stamps', 'kept', 'single')

    def __init__(self, rule, pos):
        self.rule, self.pos, self.end = rule, pos, None
        self.isobj = False  # the rule's value is a fresh dict AST / node
        self.stamps = []  # for objects: invocations that returned this very object (inner first)
        self.kept = []  # object invocations retained (at any depth below other values) in this rule's value
        self.single = None  # the object Inv when the rule's value IS exactly that object


BUILTIN_TYPES = ('int', 'str', 'float', 'bool', 'list', 'tuple')


class Ref:
    """reference PEG interpreter for the battery subset: ordered choice, greedy closures, whitespace and
    comments skipped before tokens, rule calls and `$` (not before patterns), failures restore."""

    def __init__(self, g: G, text, asmodel=False):
        self.g = g
        self.text = text
        self.asmodel = asmodel
        self.rules = {n: (t, e) for n, t, e in g.rules}
        self.skips = [re.compile(g.whitespace if g.whitespace is not None else r'\s+')]
        if g.eol_comments:
            self.skips.append(re.compile(g.eol_comments, re.M))
        if g.comments:
            self.skips.append(re.compile(g.comments, re.M))

    def skip(self, p):
        while True:
            for r in self.skips:
                m = r.match(self.text, p)
                if m and m.end() > p:
                    p = m.end()
                    break
            else:
                return p

    # ev -> (newpos, items, single)
    #   items : object Invs contributed to the value, wrapped ('N', items) under a name and
    #           ('O', items, single) under an override
    #   single: the object Inv when the value of the expression IS exactly that object
    def ev(self, e, p):
        text = self.text
        if isinstance(e, Tok):
            p = self.skip(p)
            if not text.startswith(e.s, p):
                raise NoParse
            q = p + len(e.s)
            isname = e.s[0].isalpha() and e.s.isalnum()
            if isname and q < len(text) and text[q].isalnum():  # nameguard
                raise NoParse
            return q, [], None
        if isinstance(e, Pat):
            m = re.compile(e.p).match(text, p)
            if not m:
                raise NoParse
            return m.end(), [], None
        if isinstance(e, Eof):
            q = self.skip(p)
            if q != len(text):
                raise NoParse
            return q, [], None
        if isinstance(e, Call):
            inv = self.call(e.r, p)
            if inv.isobj:
                return inv.end, [inv], inv
            return inv.end, list(inv.kept), inv.single
        if isinstance(e, Seq):
            items = []
            valued = [sub for sub in e.es if not isinstance(sub, Eof)]
            single = None
            for sub in e.es:
                p, k, s = self.ev(sub, p)
                items += k
                if len(valued) == 1 and sub is valued[0]:
                    single = s
            return p, items, single
        if isinstance(e, Alt):
            for sub in e.es:
                try:
                    return self.ev(sub, p)
                except NoParse:
                    continue
            raise NoParse
        if isinstance(e, Opt):
            try:
                return self.ev(e.e, p)
            except NoParse:
                return p, [], None
        if isinstance(e, Star):
            items = []
            n = 0
            while True:
                try:
                    q, k, _ = self.ev(e.e, p)
                except NoParse:
                    break
                if q == p:
                    break
                p = q
                items += k
                n += 1
            if e.plus and n == 0:
                raise NoParse
            return p, items, None
        if isinstance(e, Named):
            q, k, s = self.ev(e.e, p)
            return q, [('N', k)], None
        if isinstance(e, Over):
            q, k, s = self.ev(e.e, p)
            return q, [('O', k, s)], None
        raise TypeError(e)

    def call(self, rule, p):
        typ, e = self.rules[rule]
        p = self.skip(p)
        inv = Inv(rule, p)
        has_names = _has(e, Named)
        has_over = _has(e, Over)
        q, items, single = self.ev(e, p)
        inv.end = q
        flat = []
        overs = []

        def walk(its, mode):
            for it in its:
                if isinstance(it, tuple) and it[0] == 'N':
                    if mode in ('names', 'all'):
                        walk(it[1], 'all')
                elif isinstance(it, tuple) and it[0] == 'O':
                    if mode in ('over', 'all'):
                        walk(it[1], 'all')
                        if mode == 'over':
                            overs.append(it[2])
                elif mode == 'all':
                    flat.append(it)

        # an override anywhere makes the rule's value the overridden part(s); else names make a dict AST
        walk(items, 'over' if has_over else 'names' if has_names else 'all')
        inv.kept = flat
        makes_node = self.asmodel and typ and typ.split('::')[0] not in BUILTIN_TYPES
        if has_over:
            value_single = overs[0] if len(overs) == 1 else None
        elif has_names:
            value_single = None
        else:
            value_single = single
        if makes_node or (has_names and not has_over):
            inv.isobj = True
            inv.stamps = [inv]
        elif value_single is not None:
            value_single.stamps.append(inv)  # this rule returns that very object and re-stamps it
            inv.single = value_single
        return inv

    def parse(self):
        start = self.g.rules[0][0]
        inv = self.call(start, 0)
        objs = []

        def collect(i):
            objs.append(i)
            for k in i.kept:
                collect(k)

        if inv.isobj:
            collect(inv)
        else:
            for k in inv.kept:
                collect(k)
        return inv, objs


# battery ---------------------------------------------------------------------
def battery():
    W = Pat(r'[a-z]+')
    N = Pat(r'[0-9]+')
    gs = []
    # 1 flat named rule
    gs.append((G('P1', [('start', None, Seq(Named('a', W), Named('b', N), Eof()))]),
               ['x 1', '  x 1', '\n\n x\n 1 \n', 'x\r\n1', '\r x\r1\r']))
    # 2 nested named rules, list of dict ASTs
    gs.append((G('P2', [('start', None, Seq(Named('items', Star(Call('item'))), Eof())),
                        ('item', None, Seq(Named('k', W), Tok('='), Named('v', N), Tok(';')))]),
               ['a=1;', ' a = 1 ; b=2;', 'a=1;\n  b=22;\n\n   c=3;', '\r\na=1;\r\n b=2;', '']))
    # 3 comments and eol comments before rules and tokens
    gs.append((G('P3', [('start', None, Seq(Named('items', Star(Call('item'), plus=True)), Eof())),
                        ('item', None, Seq(Named('k', W), Tok(':'), Named('v', Call('val')))),
                        ('val', None, Alt(Seq(Named('n', N)), Seq(Tok('['), Named('inner', Star(Call('item'))), Tok(']'))))],
                 comments=r'\(\*(?:.|\n)*?\*\)', eol_comments=r'#[^\n]*'),
               ['a:1', '(* c *) a : 1 # tail\n b:[ c:2 (* x *) d:[ ] ]', '# first\n\n  a:[b:[c:3]]\n# end',
                ' (* multi\n line *)\n a:1\n (* z *) b:2 ', 'a:[ ]#x',
                # both comment kinds in one run, in both orders, before a rule and before a token
                '(* c *) # d\n a:1', '# d\n(* c *) a:1 (* e *)# f\n', 'a:[ (* x *) # y\n b:2 ]', 'a (* x *) # y\n : 1']))
    # 4 typed rules (object model), nested nodes in lists and optionals
    gs.append((G('P4', [('start', 'Prog', Seq(Named('stmts', Star(Call('stmt'))), Eof())),
                        ('stmt', 'Stmt', Seq(Named('name', W), Named('arg', Opt(Call('arg'))), Tok(';'))),
                        ('arg', 'Arg', Seq(Tok('('), Named('v', N), Tok(')')))]),
               ['f;', ' f (1) ;\n g;\n  h( 22 );', '\n\n\tf(1);', 'f;g;h;', '']))
    # 5 typed rule without names (node.ast), pass-through rule, override re-stamping
    gs.append((G('P5', [('start', None, Seq(Named('e', Call('expr')), Eof())),
                        ('expr', None, Alt(Call('paren'), Call('num'))),
                        ('paren', None, Seq(Tok('('), Over(Call('expr')), Tok(')'))),
                        ('num', 'Num', Seq(N))]),
               ['1', ' ( 1 )', '((  12\n))', '\n (\n(\n 7 ) )']))
    # 5b a typed rule around another typed node plus a further token, and a typed rule over a bare pattern: the node the rule RETURNS
    #    (what the model-building action made) carries the rule's span, the inner node keeps its own
    gs.append((G('P5b', [('start', None, Seq(Named('items', Star(Call('item'), plus=True)), Eof())),
                         ('item', 'Item', Seq(Over(Call('num')), Tok(';'))),
                         ('num', 'Num', Seq(N))]),
               ['1;', ' 12 ; 3;', '\n 7\n;\n']))
    # 6 pattern after token: patterns do not skip whitespace; whitespace inside the consumed text
    gs.append((G('P6', [('start', None, Seq(Named('ls', Star(Call('line'), plus=True)), Eof())),
                        ('line', None, Seq(Named('key', W), Tok('='), Named('rest', Pat(r'[^\n]*'))))]),
               ['a= x y z', 'a=1 2\n  b= 3 \n c=', '  a=\n', 'a=b\r\nc=d']))
    # 7 alias chain: rule returning exactly the dict of another rule
    gs.append((G('P7', [('start', None, Seq(Named('x', Call('outer')), Named('y', Call('outer')), Eof())),
                        ('outer', None, Seq(Call('inner'))),
                        ('inner', None, Seq(Named('w', W)))]),
               ['a b', '  a\n   b\n']))
    # 8 base::derived typed rules with choice, optional named list
    gs.append((G('P8', [('start', 'Doc', Seq(Named('parts', Star(Call('part'))), Eof())),
                        ('part', None, Alt(Call('word'), Call('numb'))),
                        ('word', 'Word::Part', Seq(Named('t', W))),
                        ('numb', 'Numb::Part', Seq(Named('t', N), Named('frac', Opt(Seq(Tok('.'), N)))))],
                 eol_comments=r'--[^\n]*'),
               ['a 1 b', ' a -- c\n 1.5 -- d\n\n zz', '1.5', '-- only\n']))
    # 9 custom whitespace (no newline skipping) with explicit newline tokens
    gs.append((G('P9', [('start', None, Seq(Named('rows', Star(Call('row'), plus=True)), Eof())),
                        ('row', None, Seq(Named('cells', Star(Call('cell'), plus=True)), Alt(Tok('\n'), Eof()))),
                        ('cell', None, Seq(Named('v', Pat(r'[a-z0-9]+'))))],
                 whitespace=r'[ \t]+'),
               ['a b\n c\n', 'a', ' a  b \n\tc d e\n  f']))
    return gs


# observed --------------------------------------------------------------------
def collect_objects(value):
    """every dict AST / object-model node reachable in a parse result (each object once)."""
    from tatsu.objectmodel import BaseNode
    out, seen = [], set()

    def go(v):
        if isinstance(v, dict):
            if id(v) in seen:
                return
            seen.add(id(v))
            out.append(v)
            for k, x in v.items():
                if k not in ('parseinfo', '__parseinfo__'):
                    go(x)
        elif isinstance(v, BaseNode):
            if id(v) in seen:
                return
            seen.add(id(v))
            out.append(v)
            for k, x in vars(v).items():
                if k.startswith('_') or k in ('parseinfo', 'ctx'):
                    continue
                go(x)
        elif isinstance(v, (list, tuple)):
            for x in v:
                go(x)

    go(value)
    return out


def check_parseinfo(g: G, text, mode, model=None, parser_cls=None):
    """mode: 'ast' (model.parse), 'asmodel' (model.parse(asmodel=True)), 'gen' (generated parser).
    -> (ncases, nontrivial, failures)"""
    from tatsu.exceptions import ParseException
    from tatsu.objectmodel import Node
    fails = []
    gtext = g.text()
    how = {'ast': 'tatsu.compile(grammar).parse(input, parseinfo=True)',
           'asmodel': 'tatsu.compile(grammar).parse(input, asmodel=True, parseinfo=True)',
           'gen': 'exec(tatsu.to_python_sourcecode(grammar)); <Name>Parser().parse(input, parseinfo=True)'}[mode]
    wit = {'grammar': gtext, 'input': text, 'mode': mode, 'how': how}

    def fail(cls, detail):
        fails.append(dict(witness=dict(wit), detail=detail, cls=cls))

    try:
        _inv, expected = Ref(g, text, asmodel=(mode == 'asmodel')).parse()
        ok = True
    except NoParse:
        ok = False
        expected = []
    try:
        if mode == 'gen':
            res = parser_cls().parse(text, parseinfo=True)
        else:
            res = model.parse(text, asmodel=(mode == 'asmodel'), parseinfo=True)
        got_ok = True
    except ParseException as e:
        got_ok = False
        res = e
    except Exception as e:
        fail('parse-with-parseinfo-raises-' + type(e).__name__.lower(), f'{type(e).__name__}: {e}')
        return 1, 0, fails
    if ok != got_ok:
        # acceptance itself belongs to C01/C09; it invalidates the comparison, so it is reported under its own class
        fail('reference-and-parser-disagree-on-acceptance',
             f'reference interpreter {"accepts" if ok else "rejects"}, parser '
             f'{"accepts" if got_ok else "rejects: " + str(res)[:120]}')
        return 1, 0, fails
    if not ok:
        return 1, 0, fails
    objs = collect_objects(res)
    rules = {n: e for n, t, e in g.rules}
    remaining = list(expected)
    nontriv = 0

    def line_of(p):
        return spec_pos(text, p)[0]

    def triples(invs):
        return sorted({(c.rule, c.pos, c.end) for i in invs for c in i.stamps})

    for o in objs:
        pi = o.get('parseinfo') if isinstance(o, dict) else getattr(o, 'parseinfo', None)
        fields = o.items() if isinstance(o, dict) else vars(o).items()
        desc = (type(o).__name__ + ' ' + repr({k: v for k, v in fields if k not in (
            'parseinfo', '__parseinfo__', 'ctx', '_parent_ref')}))[:160]
        if pi is None:
            fail('parseinfo-missing', f'{desc} has no parseinfo although parseinfo is on')
            continue
        got = (pi.rule, pi.pos, pi.endpos)
        exact = [i for i in remaining if got in triples([i])]
        if exact:
            remaining.remove(exact[0])
        else:
            samestart = [i for i in remaining if any((c.rule, c.pos) == got[:2] for c in i.stamps)]
            samerule = [i for i in remaining if any(c.rule == pi.rule for c in i.stamps)]
            if samestart:
                i = samestart[0]
                remaining.remove(i)
                c = next(c for c in i.stamps if (c.rule, c.pos) == got[:2])
                # a rule ending in `$`: the end may be taken before or after the trailing whitespace
                if not (_has(rules[c.rule], Eof) and pi.endpos == _strip_end(g, text, c.end)):
                    fail('parseinfo-endpos-wrong',
                         f'{desc}: parseinfo (rule, pos, endpos) = {got}, reference {triples([i])}; '
                         f'text[pos:endpos] = {text[pi.pos:pi.endpos]!r}')
                    continue
            elif samerule:
                before_ws = any(pi.pos < c.pos and text[pi.pos:c.pos].strip() == '' for i in samerule for c in i.stamps)
                fail('parseinfo-pos-before-leading-whitespace' if before_ws else 'parseinfo-pos-wrong',
                     f'{desc}: parseinfo (rule, pos, endpos) = {got}, reference invocations of that rule '
                     f'{triples(samerule)}; text[pos:endpos] = {text[pi.pos:pi.endpos]!r}')
                continue
            else:
                fail('parseinfo-rule-did-not-return-the-object',
                     f'{desc}: parseinfo (rule, pos, endpos) = {got}; reference (rule, pos, end) of the rules '
                     f'returning objects: {triples(remaining)}')
                continue
        if pi.pos > 0:
            nontriv += 1
        if pi.line != line_of(pi.pos):
            fail('parseinfo-line-at-eof-sentinel-line-count' if pi.pos == len(text) else 'parseinfo-line-does-not-match-pos',
                 f'{desc}: parseinfo.line = {pi.line} but pos {pi.pos} lies on line {line_of(pi.pos)} '
                 f'(text length {len(text)})')
        if pi.endline != line_of(pi.endpos):
            fail('parseinfo-line-at-eof-sentinel-line-count' if pi.endpos == len(text)
                 else 'parseinfo-endline-does-not-match-endpos',
                 f'{desc}: parseinfo.endline = {pi.endline} but endpos {pi.endpos} lies on line '
                 f'{line_of(pi.endpos)} (text length {len(text)})')
        if isinstance(o, Node):
            if o.line != pi.line:
                fail('node-line-differs-from-parseinfo', f'{desc}: Node.line = {o.line}, parseinfo.line = {pi.line}')
            want = text[pi.pos:pi.endpos]
            if o.text != want:
                fail('node-text-always-none' if o.text is None else 'node-text-wrong',
                     f'{desc}: Node.text = {o.text!r}, text[pos:endpos] = {want!r}')
    for i in remaining:
        fail('object-of-reference-parse-not-found-in-result',
             f'reference: rule {i.rule} at [{i.pos}:{i.end}) returns a dict AST/node retained in the result; the '
             f'result has no such object (objects found: {len(objs)}, expected {len(expected)})')
    return max(1, len(objs)), nontriv, fails


def _strip_end(g, text, end):
    return Ref(g, text).skip(end)


def _work_b(job):
    import tatsu
    gi, = job
    g, inputs = battery()[gi]
    out = []
    gtext = g.text()
    try:
        model = tatsu.compile(gtext)
        src = tatsu.to_python_sourcecode(gtext)
        ns = {'__name__': f'gen_{g.gid}'}
        exec(compile(src, f'<gen {g.gid}>', 'exec'), ns)  # noqa: S102
        pcls = ns[f'{g.gid}Parser']
    except Exception as e:
        return [(0, 0, [dict(witness={'grammar': gtext}, detail=f'battery grammar does not compile: {type(e).__name__}: {e}',
                             cls='battery-grammar-does-not-compile')])]
    for text in inputs:
        for mode in ('ast', 'asmodel', 'gen'):
            out.append(check_parseinfo(g, text, mode, model=model, parser_cls=pcls))
    return out


def extra_inputs(g, inputs, seed, n):
    """layout variants of accepted inputs: whitespace runs / line breaks inserted at token boundaries."""
    rnd = random.Random(seed)
    out = []
    pads = [' ', '  ', '\n', '\r\n', '\n\n ', '\t']
    if g.whitespace is not None:
        pads = [' ', '  ', '\t']
    for _ in range(n):
        t = rnd.choice(inputs)
        parts = re.split(r'( +)', t)
        t2 = ''.join(rnd.choice(pads) if p.strip(' ') == '' and p else p for p in parts)
        out.append(rnd.choice(['', ' ', '\n ', '  ']) * (g.whitespace is None) + t2)
    return out


def run_parseinfo(tier, seed):
    bat = battery()
    t0 = time.time()
    if tier == 'quick':
        res = pmap(_work_b, [(i,) for i in range(len(bat))])
    else:
        res = pmap(_work_b_thorough, [(i, seed) for i in range(len(bat))])
    cases = nontriv = 0
    failures = []
    for r in res:
        for c, n, fs in r:
            cases += c
            nontriv += n
            failures += fs
    ninputs = sum(len(i) for _, i in bat)
    return bitem(
        'C12', 'parseinfo', function='engine.make_parseinfo/set_parseinfo, AST.set_parseinfo, Node.text/line',
        domain=f'{len(bat)} grammars (named rules, typed rules, alias/override chains, comments, custom whitespace) x '
               f'{ninputs} curated inputs' + ('' if tier == 'quick' else ' + 40 seeded layout variants per grammar') +
               ' x {model AST, model asmodel=True, generated parser}; every dict AST / node vs reference interpreter',
        bound='battery (not exhaustive)', cases=cases, distinct_nontrivial=nontriv,
        rule='dict ASTs / nodes compared whose parseinfo.pos > 0 (cases = objects compared; rejected inputs count 1)',
        exhaustive=False, samples=[bat[1][0].text(), bat[1][1][2]], failures=failures,
        note='bounded: parseinfo of every dict AST / node vs an independent recomputation of rule spans')


def _work_b_thorough(job):
    import tatsu
    gi, seed = job
    g, inputs = battery()[gi]
    inputs = list(inputs) + extra_inputs(g, inputs, seed * 1000 + gi, 40)
    gtext = g.text()
    model = tatsu.compile(gtext)
    src = tatsu.to_python_sourcecode(gtext)
    ns = {'__name__': f'gen_{g.gid}'}
    exec(compile(src, f'<gen {g.gid}>', 'exec'), ns)  # noqa: S102
    pcls = ns[f'{g.gid}Parser']
    out = []
    for text in inputs:
        for mode in ('ast', 'asmodel', 'gen'):
            out.append(check_parseinfo(g, text, mode, model=model, parser_cls=pcls))
    return out


# --------------------------------------------------------------------------- entry points
def run(tier='quick', seed=0, info=None):
    items = []
    items += run_lines(tier, seed)
    items += run_parseinfo(tier, seed)
    if info is not None:
        for it in items:
            info.setdefault('bounded', []).append({k: it.extra.get(k) for k in ('function', 'domain', 'bound', 'cases')})
    return items


def main(argv=None):
    argv = list(sys.argv[1:] if argv is None else argv)
    tier = argv[0] if argv else 'quick'
    seed = int(argv[1]) if len(argv) > 1 else 0
    t0 = time.time()
    items = run(tier, seed, {})
    for it in items:
        print(f'{it.status:8} {it.id}  cases={it.extra.get("cases")} nontrivial={it.extra.get("distinct_nontrivial")}'
              + (f' failing={it.extra.get("failing_cases")}' if it.status == 'refuted' else ''))
        if it.status == 'refuted':
            print(f'    witness: {it.witness!r}'[:400])
            print(f'    {it.detail}'[:400])
    print(f'C12 bounded [{tier}]: {len(items)} items, {sum(i.status == "refuted" for i in items)} refuted, '
          f'{time.time() - t0:.1f}s')
    return 0


if __name__ == '__main__':
    sys.exit(main())
