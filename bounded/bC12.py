"""C12 bounded stand-in: source positions and parse information.

(a) line index: ALL strings over {a, ' ', LF, CR} up to a length bound x every offset 0..len, for the
    TextLines cursor, the Buffer cursor and the Buffer's own (legacy) lineinfo/posline/poscol, against
    an independent spec (DESIGN 2.4): split at LF / CR / CRLF, line = index of the line containing the
    offset, col = offset - line start, text = that line; offset == len: the last line when it is
    unterminated, else a new empty line after the last one at column 0.  No call may raise.
(b) parse info: a battery of grammars with named rules (dict ASTs) and typed rules (object-model
    nodes) x inputs with leading whitespace / comments / several lines, parseinfo on.  An independent
    small PEG interpreter (own grammar representation, own whitespace/comment skipping) recomputes,
    for the successful parse, every rule invocation (rule, start after leading whitespace, end) and
    which invocations return a dict AST / node that is retained in the result.  Every dict AST / node
    of the real result must carry parseinfo with one of the (rule, pos, endpos) triples of the rules
    that returned it, line == line_of(pos) per (a)'s spec, endline == line_of(endpos); the multiset of
    objects must be exactly the retained invocations; Node.text / Node.line agree when defined.
"""
from __future__ import annotations

import itertools
import random
import re
import sys
import time

from bounded.common import bitem, chunked, pmap

ALPHABET = ('a', ' ', '\n', '\r')


# --------------------------------------------------------------------------- spec (independent)
def spec_lines(text):
    """split at LF, CR, CRLF keeping the terminators (written out; not str.splitlines)."""
    lines, cur, i, n = [], [], 0, len(text)
    while i < n:
        c = text[i]
        cur.append(c)
        if c == '\r' and i + 1 < n and text[i + 1] == '\n':
            cur.append('\n')
            i += 1
            lines.append(''.join(cur))
            cur = []
        elif c in '\r\n':
            lines.append(''.join(cur))
            cur = []
        i += 1
    if cur:
        lines.append(''.join(cur))
    return lines


def spec_pos(text, pos):
    """-> (line, col, start, linetext) of DESIGN 2.4 for 0 <= pos <= len(text)."""
    lines = spec_lines(text)
    start = 0
    for k, ln in enumerate(lines):
        if start <= pos < start + len(ln):
            return k, pos - start, start, ln
        start += len(ln)
    # pos == len(text)
    if lines and lines[-1][-1] not in '\r\n':
        st = len(text) - len(lines[-1])
        return len(lines) - 1, pos - st, st, lines[-1]
    return len(lines), 0, len(text), ''


# --------------------------------------------------------------------------- (a) line index
def _impls():
    from tatsu.input.buffer import Buffer
    from tatsu.input.textlines import TextLines

    def tl(text):
        c = TextLines(text).newcursor()
        return {'lineinfo': c.lineinfo, 'lineat': c.lineat, 'poscol': c.poscol}

    def bc(text):
        c = Buffer(text).newcursor()
        return {'lineinfo': c.lineinfo, 'lineat': c.lineat, 'poscol': c.poscol}

    def bo(text):
        b = Buffer(text)
        return {'lineinfo': b.lineinfo, 'lineat': b.posline, 'poscol': b.poscol}

    return (('TextLinesCursor', tl, 'TextLines({t!r}).newcursor()'),
            ('BufferCursor', bc, 'Buffer({t!r}).newcursor()'),
            ('Buffer', bo, 'Buffer({t!r})'))


def _cls_a(impl, fn, text, pos, exc):
    own = 'buffer-own-' if impl == 'Buffer' else ''
    if exc:
        if text == '':
            return f'{own}empty-text-{exc.lower()}' if impl != 'BufferCursor' else 'buffer-empty-text-indexerror' \
                if exc == 'IndexError' else f'buffercursor-empty-text-{exc.lower()}'
        return f'{own}{fn}-raises-{exc.lower()}'
    if pos == len(text):
        return {'lineinfo': f'{own}lineinfo-at-eof-clamped', 'lineat': f'{own}lineat-at-eof-sentinel-line-count',
                'poscol': f'{own}poscol-at-eof-sentinel-start'}[fn]
    return f'{own}{fn}-wrong-inside-text'


def check_text(text, impls=None):
    """-> (cases, nontrivial, failures)"""
    impls = impls or _impls()
    fails = []
    cases = nontriv = 0
    for pos in range(len(text) + 1):
        line, col, start, ltext = spec_pos(text, pos)
        if (line, col) != (0, pos) or pos == len(text):
            nontriv += 1
        for impl, mk, how in impls:
            try:
                fns = mk(text)
            except Exception as e:  # construction must not raise either
                fails.append(dict(witness={'impl': impl, 'text': text, 'call': how.format(t=text)},
                                  detail=f'constructor raised {type(e).__name__}: {e}',
                                  cls=f'{impl.lower()}-constructor-raises'))
                continue
            exp = {'lineinfo': (line, col, start, start + len(ltext), ltext), 'lineat': line, 'poscol': col}
            for fn in ('lineinfo', 'lineat', 'poscol'):
                cases += 1
                realfn = {'lineat': 'posline'}.get(fn, fn) if impl == 'Buffer' else fn
                call = f'{how.format(t=text)}.{realfn}({pos})'
                try:
                    got = fns[fn](pos)
                    if fn == 'lineinfo':
                        got = (got.line, got.col, got.start, got.end, got.text)
                except Exception as e:
                    fails.append(dict(witness={'impl': impl, 'text': text, 'pos': pos, 'call': call},
                                      detail=f'{call} raised {type(e).__name__}: {e}; expected {exp[fn]!r}',
                                      cls=_cls_a(impl, fn, text, pos, type(e).__name__)))
                    continue
                if got != exp[fn]:
                    what = '(line, col, start, end, text)' if fn == 'lineinfo' else fn
                    fails.append(dict(witness={'impl': impl, 'text': text, 'pos': pos, 'call': call},
                                      detail=f'{call}: {what} = {got!r}, spec (split at line breaks) = {exp[fn]!r}',
                                      cls=_cls_a(impl, fn, text, pos, None)))
    return cases, nontriv, fails


def _work_a(texts):
    impls = _impls()
    cases = nontriv = 0
    fails = {}
    for t in texts:
        c, n, fs = check_text(t, impls)
        cases += c
        nontriv += n
        for f in fs:
            cur = fails.setdefault(f['cls'], [0, f])
            cur[0] += 1
            if len(repr(f['witness'])) < len(repr(cur[1]['witness'])):
                cur[1] = f
    return cases, nontriv, fails


def all_texts(maxlen):
    for n in range(maxlen + 1):
        for t in itertools.product(ALPHABET, repeat=n):
            yield ''.join(t)


def run_lines(tier, seed):
    maxlen = 7 if tier == 'quick' else 9
    texts = list(all_texts(maxlen))
    ntexts = len(texts)
    extra = []
    if tier != 'quick':
        rnd = random.Random(seed)
        for _ in range(20000):
            n = rnd.randrange(10, 60)
            extra.append(''.join(rnd.choice('ab \n\r\n\r\t.') for _ in range(n)))
    res = pmap(_work_a, chunked(texts + extra, 64))
    cases = sum(r[0] for r in res)
    nontriv = sum(r[1] for r in res)
    merged = {}
    for r in res:
        for cls, (cnt, f) in r[2].items():
            cur = merged.setdefault(cls, [0, f])
            cur[0] += cnt
            if len(repr(f['witness'])) < len(repr(cur[1]['witness'])):
                cur[1] = f
    failures = []
    for cls, (cnt, f) in merged.items():
        f = dict(f)
        f['detail'] += f' [{cnt} failing (text, offset, function) cases in this class]'
        failures.append(f)
    return bitem(
        'C12', 'line-index', function='TextLinesCursor/BufferCursor/Buffer lineinfo, lineat(posline), poscol',
        domain=f"all strings over {{'a',' ',LF,CR}} of length <= {maxlen} ({ntexts} texts) x every offset 0..len x 3 "
               f"implementations x 3 functions" + (f' + {len(extra)} seeded random texts of length 10..59' if extra else ''),
        bound=f'length <= {maxlen}', cases=cases, distinct_nontrivial=nontriv,
        rule='(text, offset) pairs whose expected (line, col) differs from (0, offset) or with offset == len(text)',
        exhaustive=True, samples=[repr(t) for t in ('', 'a', 'a\n', 'a\r\na', '\r\r')], failures=failures,
        note='bounded: line index of both input implementations vs split-at-line-breaks spec (DESIGN 2.4)')


# --------------------------------------------------------------------------- (b) parse info
# own grammar representation --------------------------------------------------
class E:
    pass


class Tok(E):
    def __init__(self, s):
        self.s = s

    def src(self):
        return repr(self.s)


class Pat(E):
    def __init__(self, p):
        self.p = p

    def src(self):
        return f'/{self.p}/'


class Call(E):
    def __init__(self, r):
        self.r = r

    def src(self):
        return self.r


class Seq(E):
    def __init__(self, *es):
        self.es = es

    def src(self):
        return ' '.join(e.src() for e in self.es)


class Alt(E):
    def __init__(self, *es):
        self.es = es

    def src(self):
        return '(' + ' | '.join(e.src() for e in self.es) + ')'


class Opt(E):
    def __init__(self, e):
        self.e = e

    def src(self):
        return '[' + self.e.src() + ']'


class Star(E):
    def __init__(self, e, plus=False):
        self.e = e
        self.plus = plus

    def src(self):
        return '{' + self.e.src() + '}' + ('+' if self.plus else '*')


class Named(E):
    def __init__(self, name, e, lst=False):
        self.name = name
        self.e = e
        self.lst = lst

    def src(self):
        return f'{self.name}{"+:" if self.lst else ":"}{self.e.src()}'


class Over(E):  # @:e
    def __init__(self, e):
        self.e = e

    def src(self):
        return '@:' + self.e.src()


class Eof(E):
    def src(self):
        return '$'


class G:
    """a grammar of the battery: rules = [(name, type or None, expr)], directives"""

    def __init__(self, gid, rules, comments=None, eol_comments=None, whitespace=None):
        self.gid = gid
        self.rules = rules
        self.comments = comments
        self.eol_comments = eol_comments
        self.whitespace = whitespace  # None = default \s+

    def text(self):
        out = ['@@grammar :: ' + self.gid]
        if self.whitespace is not None:
            out.append(f'@@whitespace :: /{self.whitespace}/')
        if self.comments:
            out.append(f'@@comments :: /{self.comments}/')
        if self.eol_comments:
            out.append(f'@@eol_comments :: /{self.eol_comments}/')
        out.append('@@parseinfo :: True')
        for name, typ, e in self.rules:
            out.append(f'{name}{"::" + typ if typ else ""} = {e.src()} ;')
        return '\n'.join(out) + '\n'


def _has(e, kind):
    if isinstance(e, kind):
        return True
    for sub in getattr(e, 'es', ()) or ():
        if _has(sub, kind):
            return True
    if hasattr(e, 'e'):
        return _has(e.e, kind)
    return False


class NoParse(Exception):
    pass


class Inv:
    """one successful rule invocation of the reference parse"""
    __slots__ = ('rule', 'pos', 'end', 'end2', 'isobj', 'chain', 'kept')

    def __init__(self, rule, pos):
        self.rule, self.pos, self.end, self.end2 = rule, pos, None, None
        self.isobj = False
        self.chain = []  # invocations returning this same object (inner first), for isobj
        self.kept = []  # object invocations retained in this invocation's value


class Ref:
    """reference PEG interpreter for the battery subset: ordered choice, greedy closures, whitespace and
    comments skipped before tokens, rule calls and `$` (not before patterns), failures restore."""

    def __init__(self, g: G, text):
        self.g = g
        self.text = text
        self.rules = {n: (t, e) for n, t, e in g.rules}
        self.skips = [re.compile(g.whitespace if g.whitespace is not None else r'\s+')]
        if g.eol_comments:
            self.skips.append(re.compile(g.eol_comments, re.M))
        if g.comments:
            self.skips.append(re.compile(g.comments, re.M | re.S) if False else re.compile(g.comments))

    def skip(self, p):
        while True:
            for r in self.skips:
                m = r.match(self.text, p)
                if m and m.end() > p:
                    p = m.end()
                    break
            else:
                return p

    # each eval returns (newpos, kept_objs, single) ; `single` = the Inv when the value IS exactly that
    # one object (so a returning rule re-stamps it), else None
    def ev(self, e, p, named_rule):
        if isinstance(e, Tok):
            p = self.skip(p)
            if not self.text.startswith(e.s, p):
                raise NoParse
            q = p + len(e.s)
            # nameguard (default on with whitespace): alnum token followed by alnum char fails
            if e.s.isalnum() and q < len(self.text) and self.text[q].isalnum():
                raise NoParse
            return q, [], None
        if isinstance(e, Pat):
            m = re.compile(e.p).match(self.text, p)
            if not m:
                raise NoParse
            return m.end(), [], None
        if isinstance(e, Eof):
            q = self.skip(p)
            if q != len(self.text):
                raise NoParse
            return q, [], None
        if isinstance(e, Call):
            inv = self.call(e.r, p)
            if inv.isobj:
                return inv.end, [inv], inv
            return inv.end, list(inv.kept), (inv.kept[0] if len(inv.kept) == 1 and inv.chain else None)
        if isinstance(e, Seq):
            kept = []
            single = None
            for i, sub in enumerate(e.es):
                p, k, s = self.ev(sub, p, named_rule)
                kept += k
                single = s if len(e.es) == 1 else None
            return p, kept, single
        if isinstance(e, Alt):
            for sub in e.es:
                try:
                    return self.ev(sub, p, named_rule)
                except NoParse:
                    continue
            raise NoParse
        if isinstance(e, Opt):
            try:
                return self.ev(e.e, p, named_rule)
            except NoParse:
                return p, [], None
        if isinstance(e, Star):
            kept = []
            n = 0
            while True:
                try:
                    q, k, _ = self.ev(e.e, p, named_rule)
                except NoParse:
                    break
                if q == p:
                    break
                p = q
                kept += k
                n += 1
            if e.plus and n == 0:
                raise NoParse
            return p, kept, None
        if isinstance(e, Named):
            q, k, s = self.ev(e.e, p, named_rule)
            return q, [('N', k)], None
        if isinstance(e, Over):
            q, k, s = self.ev(e.e, p, named_rule)
            return q, [('O', k, s)], None
        raise TypeError(e)

    def call(self, rule, p):
        typ, e = self.rules[rule]
        p = self.skip(p)
        inv = Inv(rule, p)
        has_names = _has(e, Named)
        has_over = _has(e, Over)
        q, kept, single = self.ev(e, p, has_names)
        inv.end = q
        # what the rule's value retains
        flat = []
        singles = []

        def walk(items, mode):
            for it in items:
                if isinstance(it, tuple) and it[0] == 'N':
                    if mode in ('names', 'all'):
                        walk(it[1], 'all')
                elif isinstance(it, tuple) and it[0] == 'O':
                    if mode in ('over', 'all'):
                        walk(it[1], 'all')
                        singles.append(it[2])
                elif mode == 'all':
                    flat.append(it)

        if has_over:
            walk(kept, 'over')
        elif has_names:
            walk(kept, 'names')
        else:
            walk(kept, 'all')
        inv.kept = flat
        if has_names and not has_over:
            inv.isobj = True  # dict AST (or node built from it)
            inv.chain = [inv]
        elif typ and typ not in ('int', 'str', 'float', 'bool', 'list', 'tuple'):
            inv.isobj = True  # a fresh node wrapping the value
            inv.chain = [inv]
        else:
            # value passes through: when it IS exactly one object, this rule re-stamps that object
            only = None
            if has_over:
                if len(singles) == 1 and singles[0] is not None and len(flat) == 1:
                    only = singles[0]
            elif single is not None and len(flat) == 1:
                only = single
            if only is not None and only is flat[0]:
                only.chain.append(inv)
                inv.chain = [True]  # marks: my value is exactly one object (for enclosing pass-through rules)
        return inv

    def parse(self):
        start = self.g.rules[0][0]
        inv = self.call(start, 0)
        objs = []

        def collect(i):
            objs.append(i)
            for k in i.kept:
                collect(k)

        if inv.isobj:
            collect(inv)
        else:
            for k in inv.kept:
                collect(k)
        return inv, objs


# battery ---------------------------------------------------------------------
def battery():
    W = Pat(r'[a-z]+')
    N = Pat(r'[0-9]+')
    gs = []
    # 1 flat named rule
    gs.append((G('P1', [('start', None, Seq(Named('a', W), Named('b', N), Eof()))]),
               ['x 1', '  x 1', '\n\n x\n 1 \n', 'x\r\n1', '\r x\r1\r']))
    # 2 nested named rules, list of dict ASTs
    gs.append((G('P2', [('start', None, Seq(Named('items', Star(Call('item'))), Eof())),
                        ('item', None, Seq(Named('k', W), Tok('='), Named('v', N), Tok(';')))]),
               ['a=1;', ' a = 1 ; b=2;', 'a=1;\n  b=22;\n\n   c=3;', '\r\na=1;\r\n b=2;', '']))
    # 3 comments and eol comments before rules and tokens
    gs.append((G('P3', [('start', None, Seq(Named('items', Star(Call('item'), plus=True)), Eof())),
                        ('item', None, Seq(Named('k', W), Tok(':'), Named('v', Call('val')))),
                        ('val', None, Alt(Seq(Named('n', N)), Seq(Tok('['), Named('inner', Star(Call('item'))), Tok(']'))))],
                 comments=r'\(\*(?:.|\n)*?\*\)', eol_comments=r'#[^\n]*'),
               ['a:1', '(* c *) a : 1 # tail\n b:[ c:2 (* x *) d:[ ] ]', '# first\n\n  a:[b:[c:3]]\n# end',
                ' (* multi\n line *)\n a:1\n (* z *) b:2 ', 'a:[ ]#x']))
    # 4 typed rules (object model), nested nodes in lists and optionals
    gs.append((G('P4', [('start', 'Prog', Seq(Named('stmts', Star(Call('stmt'))), Eof())),
                        ('stmt', 'Stmt', Seq(Named('name', W), Named('arg', Opt(Call('arg'))), Tok(';'))),
                        ('arg', 'Arg', Seq(Tok('('), Named('v', N), Tok(')')))]),
               ['f;', ' f (1) ;\n g;\n  h( 22 );', '\n\n\tf(1);', 'f;g;h;', '']))
    # 5 typed rule without names (node.ast), pass-through rule, override re-stamping
    gs.append((G('P5', [('start', None, Seq(Named('e', Call('expr')), Eof())),
                        ('expr', None, Alt(Call('paren'), Call('num'))),
                        ('paren', None, Seq(Tok('('), Over(Call('expr')), Tok(')'))),
                        ('num', 'Num', Seq(N))]),
               ['1', ' ( 1 )', '((  12\n))', '\n (\n(\n 7 ) )']))
    # 6 pattern after token: patterns do not skip whitespace; whitespace inside the consumed text
    gs.append((G('P6', [('start', None, Seq(Named('ls', Star(Call('line'), plus=True)), Eof())),
                        ('line', None, Seq(Named('key', W), Tok('='), Named('rest', Pat(r'[^\n]*'))))]),
               ['a= x y z', 'a=1 2\n  b= 3 \n c=', '  a=\n', 'a=b\r\nc=d']))
    # 7 alias chain: rule returning exactly the dict of another rule
    gs.append((G('P7', [('start', None, Seq(Named('x', Call('outer')), Named('y', Call('outer')), Eof())),
                        ('outer', None, Seq(Call('inner'))),
                        ('inner', None, Seq(Named('w', W)))]),
               ['a b', '  a\n   b\n']))
    # 8 base::derived typed rules with choice, optional named list
    gs.append((G('P8', [('start', 'Doc', Seq(Named('parts', Star(Call('part'))), Eof())),
                        ('part', None, Alt(Call('word'), Call('numb'))),
                        ('word', 'Word::Part', Seq(Named('t', W))),
                        ('numb', 'Numb::Part', Seq(Named('t', N), Named('frac', Opt(Seq(Tok('.'), Over(N))))))],
                 eol_comments=r'//[^\n]*'),
               ['a 1 b', ' a // c\n 1.5 // d\n\n zz', '1.5', '// only\n']))
    # 9 custom whitespace (no newline skipping) with explicit newline tokens
    gs.append((G('P9', [('start', None, Seq(Named('rows', Star(Call('row'), plus=True)), Eof())),
                        ('row', None, Seq(Named('cells', Star(Call('cell'), plus=True)), Alt(Tok('\n'), Eof()))),
                        ('cell', None, Seq(Named('v', Pat(r'[a-z0-9]+'))))],
                 whitespace=r'[ \t]+'),
               ['a b\n c\n', 'a', ' a  b \n\tc d e\n  f']))
    return gs


# observed --------------------------------------------------------------------
def collect_objects(value):
    """every dict AST / object-model node reachable in a parse result (each object once)."""
    from tatsu.objectmodel import BaseNode
    out, seen = [], set()

    def go(v):
        if isinstance(v, dict):
            if id(v) in seen:
                return
            seen.add(id(v))
            out.append(v)
            for k, x in v.items():
                if k not in ('parseinfo', '__parseinfo__'):
                    go(x)
        elif isinstance(v, BaseNode):
            if id(v) in seen:
                return
            seen.add(id(v))
            out.append(v)
            for k, x in vars(v).items():
                if k.startswith('_') or k in ('parseinfo', 'ctx'):
                    continue
                go(x)
        elif isinstance(v, (list, tuple)):
            for x in v:
                go(x)

    go(value)
    return out


def check_parseinfo(g: G, text, mode, model=None, parser_cls=None):
    """mode: 'ast' (model.parse), 'asmodel' (model.parse(asmodel=True)), 'gen' (generated parser).
    -> (ncases, nontrivial, failures)"""
    import tatsu
    from tatsu.exceptions import ParseException
    from tatsu.objectmodel import Node
    fails = []
    gtext = g.text()
    wit = {'grammar': gtext, 'input': text, 'mode': mode}

    def fail(cls, detail):
        fails.append(dict(witness=dict(wit), detail=detail, cls=cls))

    try:
        inv, robjs = Ref(g, text).parse()
        ok = True
    except NoParse:
        ok = False
    try:
        if mode == 'gen':
            res = parser_cls().parse(text, asmodel=False)
        else:
            res = model.parse(text, asmodel=(mode == 'asmodel'))
        got_ok = True
    except ParseException as e:
        got_ok = False
        res = e
    except Exception as e:
        fail('parse-raises-non-tatsu-exception-with-parseinfo', f'{type(e).__name__}: {e}')
        return 1, 0, fails
    if ok != got_ok:
        # acceptance itself belongs to C01/C09; report (it would invalidate the comparison) but under its own class
        fail('reference-and-parser-disagree-on-acceptance',
             f'reference interpreter {"accepts" if ok else "rejects"}, parser {"accepts" if got_ok else "rejects: " + str(res)[:120]}')
        return 1, 0, fails
    if not ok:
        return 1, 0, fails
    objs = collect_objects(res)
    typed = {n for n, t, e in g.rules if t}
    expected = [i for i in robjs]
    if mode != 'asmodel':
        # without model building typed rules without names give plain values
        expected = [i for i in expected if _has(dict((n, e) for n, t, e in g.rules)[i.rule], Named)]
    remaining = list(expected)
    nontriv = 0
    lines_of = lambda p: spec_pos(text, p)[0]  # noqa: E731
    for o in objs:
        pi = getattr(o, 'parseinfo', None) if not isinstance(o, dict) else o.get('parseinfo')
        desc = (type(o).__name__ + ' ' + repr({k: v for k, v in (o.items() if isinstance(o, dict) else vars(o).items())
                                                if k not in ('parseinfo', '__parseinfo__', 'ctx', '_parent_ref')}))[:160]
        if pi is None:
            fail('parseinfo-missing', f'{desc} has no parseinfo although parseinfo is on')
            continue
        # find the reference invocation
        cands = [i for i in remaining if any(c is not True and (c.rule, c.pos) == (pi.rule, pi.pos) for c in i.chain)]
        exact = [i for i in cands if any(c is not True and (c.rule, c.pos, c.end) == (pi.rule, pi.pos, pi.endpos)
                                         for c in i.chain)]
        if exact:
            remaining.remove(exact[0])
            hit = exact[0]
        else:
            # classify
            near = [i for i in remaining if any(c is not True and c.rule == pi.rule for c in i.chain)]
            exp = sorted({(c.rule, c.pos, c.end) for i in (cands or near or remaining) for c in i.chain if c is not True})
            got = (pi.rule, pi.pos, pi.endpos)
            if cands:
                # same rule and start, other end: trailing-whitespace tolerance only for `$`-terminated rules
                i = cands[0]
                c = next(c for c in i.chain if c is not True and (c.rule, c.pos) == (pi.rule, pi.pos))
                rule_e = dict((n, e) for n, t, e in g.rules)[c.rule]
                if _has(rule_e, Eof) and pi.endpos in (c.end, _strip_end(g, text, c.end)):
                    remaining.remove(i)
                    hit = i
                else:
                    fail('parseinfo-endpos-wrong', f'{desc}: parseinfo (rule, pos, endpos) = {got}, consumed text per '
                         f'reference = {exp}; text[pos:endpos] = {text[pi.pos:pi.endpos]!r}')
                    remaining.remove(i)
                    continue
            elif near:
                fail('parseinfo-pos-not-after-leading-whitespace' if any(
                    text[pi.pos:c.pos].strip() == '' and pi.pos < c.pos for i in near for c in i.chain if c is not True)
                     else 'parseinfo-pos-wrong',
                     f'{desc}: parseinfo (rule, pos, endpos) = {got}, reference invocations of that rule = {exp}')
                continue
            else:
                fail('parseinfo-rule-not-a-returning-rule',
                     f'{desc}: parseinfo (rule, pos, endpos) = {got}; rules that returned an object here: {exp}')
                continue
        nontriv += 1 if (pi.pos > 0 or lines_of(pi.pos) > 0) else 0
        # line fields
        if pi.line != lines_of(pi.pos):
            fail('parseinfo-line-does-not-match-pos',
                 f'{desc}: parseinfo.line = {pi.line} but pos {pi.pos} lies on line {lines_of(pi.pos)}')
        if pi.endline != lines_of(pi.endpos):
            eof = pi.endpos == len(text)
            fail('parseinfo-endline-at-eof-sentinel-line-count' if eof else 'parseinfo-endline-does-not-match-endpos',
                 f'{desc}: parseinfo.endline = {pi.endline} but endpos {pi.endpos} lies on line {lines_of(pi.endpos)}'
                 f' (text length {len(text)})')
        if isinstance(o, Node):
            if o.line != pi.line:
                fail('node-line-differs-from-parseinfo', f'{desc}: Node.line = {o.line}, parseinfo.line = {pi.line}')
            want = text[pi.pos:pi.endpos]
            if o.text != want:
                fail('node-text-always-none' if o.text is None else 'node-text-wrong',
                     f'{desc}: Node.text = {o.text!r}, text[pos:endpos] = {want!r}')
    for i in remaining:
        fail('object-of-reference-parse-not-found-in-result',
             f'reference: rule {i.rule} at [{i.pos}:{i.end}) returns a dict AST/node retained in the result; the '
             f'result has no such object (objects found: {len(objs)}, expected {len(expected)})')
    return 1, (1 if nontriv else 0), fails


def _strip_end(g, text, end):
    return Ref(g, text).skip(end)


def _work_b(job):
    import tatsu
    gi, = job
    g, inputs = battery()[gi]
    out = []
    gtext = g.text()
    try:
        model = tatsu.compile(gtext)
        src = tatsu.to_python_sourcecode(gtext)
        ns = {'__name__': f'gen_{g.gid}'}
        exec(compile(src, f'<gen {g.gid}>', 'exec'), ns)  # noqa: S102
        pcls = ns[f'{g.gid}Parser']
    except Exception as e:
        return [(0, 0, [dict(witness={'grammar': gtext}, detail=f'battery grammar does not compile: {type(e).__name__}: {e}',
                             cls='battery-grammar-does-not-compile')])]
    for text in inputs:
        for mode in ('ast', 'asmodel', 'gen'):
            out.append(check_parseinfo(g, text, mode, model=model, parser_cls=pcls))
    return out


def extra_inputs(g, inputs, seed, n):
    """layout variants of accepted inputs: whitespace runs / line breaks inserted at token boundaries."""
    rnd = random.Random(seed)
    out = []
    pads = [' ', '  ', '\n', '\r\n', '\n\n ', '\t']
    if g.whitespace is not None:
        pads = [' ', '  ', '\t']
    for _ in range(n):
        t = rnd.choice(inputs)
        parts = re.split(r'( +)', t)
        t2 = ''.join(rnd.choice(pads) if p.strip(' ') == '' and p else p for p in parts)
        out.append(rnd.choice(['', ' ', '\n ', '  ']) * (g.whitespace is None) + t2)
    return out


def run_parseinfo(tier, seed):
    bat = battery()
    t0 = time.time()
    if tier == 'quick':
        res = pmap(_work_b, [(i,) for i in range(len(bat))])
    else:
        res = pmap(_work_b_thorough, [(i, seed) for i in range(len(bat))])
    cases = nontriv = 0
    failures = []
    for r in res:
        for c, n, fs in r:
            cases += c
            nontriv += n
            failures += fs
    ninputs = sum(len(i) for _, i in bat)
    return bitem(
        'C12', 'parseinfo', function='engine.make_parseinfo/set_parseinfo, AST.set_parseinfo, Node.text/line',
        domain=f'{len(bat)} grammars (named rules, typed rules, alias/override chains, comments, custom whitespace) x '
               f'{ninputs} curated inputs' + ('' if tier == 'quick' else ' + 40 seeded layout variants per grammar') +
               ' x {model AST, model asmodel=True, generated parser}; every dict AST / node vs reference interpreter',
        bound='battery (not exhaustive)', cases=cases, distinct_nontrivial=nontriv,
        rule='(grammar, input, mode) parses accepted by both sides with at least one object whose pos > 0',
        exhaustive=False, samples=[bat[1][0].text(), bat[1][1][2]], failures=failures,
        note='bounded: parseinfo of every dict AST / node vs an independent recomputation of rule spans')


def _work_b_thorough(job):
    import tatsu
    gi, seed = job
    g, inputs = battery()[gi]
    inputs = list(inputs) + extra_inputs(g, inputs, seed * 1000 + gi, 40)
    gtext = g.text()
    model = tatsu.compile(gtext)
    src = tatsu.to_python_sourcecode(gtext)
    ns = {'__name__': f'gen_{g.gid}'}
    exec(compile(src, f'<gen {g.gid}>', 'exec'), ns)  # noqa: S102
    pcls = ns[f'{g.gid}Parser']
    out = []
    for text in inputs:
        for mode in ('ast', 'asmodel', 'gen'):
            out.append(check_parseinfo(g, text, mode, model=model, parser_cls=pcls))
    return out


# --------------------------------------------------------------------------- entry points
def run(tier='quick', seed=0, info=None):
    items = []
    items += run_lines(tier, seed)
    items += run_parseinfo(tier, seed)
    if info is not None:
        for it in items:
            info.setdefault('bounded', []).append({k: it.extra.get(k) for k in ('function', 'domain', 'bound', 'cases')})
    return items


def main(argv=None):
    argv = list(sys.argv[1:] if argv is None else argv)
    tier = argv[0] if argv else 'quick'
    seed = int(argv[1]) if len(argv) > 1 else 0
    t0 = time.time()
    items = run(tier, seed, {})
    for it in items:
        print(f'{it.status:8} {it.id}  cases={it.extra.get("cases")} nontrivial={it.extra.get("distinct_nontrivial")}'
              + (f' failing={it.extra.get("failing_cases")}' if it.status == 'refuted' else ''))
        if it.status == 'refuted':
            print(f'    witness: {it.witness!r}'[:400])
            print(f'    {it.detail}'[:400])
    print(f'C12 bounded [{tier}]: {len(items)} items, {sum(i.status == "refuted" for i in items)} refuted, '
          f'{time.time() - t0:.1f}s')
    return 0


if __name__ == '__main__':
    sys.exit(main())
