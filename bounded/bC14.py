"""Bounded stand-in for C14: serialized grammar models reload to equivalent parsers; asjson terminates.

Part A (reload).  Every case compiles a grammar text with the real `tatsu.compile` and sends the model m
through each serialization of the real code:

  json     tatsu.peg.Grammar.load(json.loads(json.dumps(m.asjson())))        (strict json.dumps, no fallback encoder)
  jsons    tatsu.peg.jsonimport.loads_grammar(m.asjsons())
  pickle   pickle.loads(pickle.dumps(m))
  source   exec(tatsu.ngcodegen.grammar_gen.parsermodel_gen(m, name=..))  -> GRAMMAR_MODEL and <Name>Parser().parse
           (and tatsu.api.to_parsermodel_sourcecode(text) for a sample: same generator behind the public API)

and requires of the reloaded model r:  same grammar name, directives, keywords, effective configuration;
rule by rule the same name, params, kwparams, base, decorators and flags; the same token / pattern /
constant texts with the same Python type (a token must come back as `str`); the same pretty text; and the
same accept / reject decision and equal ASTs on the input battery.  (`source` emits `m.optimized()`, so
it is compared with `m.optimized()` for texts and pretty text.)

Part B (asjson).  `tatsu.util.asjson.asjson` on (1) every object graph with <= 3 (thorough 4) container
nodes of 2 slots each over list / dict / tuple / AST / Node / namedtuple, every slot holding a scalar or
any node (so: every shape of sharing and every cycle), (2) parse results (AST with parseinfo, object
models built by ModelBuilderSemantics, with parents, shared children and hand-made cycles) must return
within the time limit, be accepted by strict `json.dumps`, and equal the independent reference conversion
below in which a node met again *on the current path* is the reference string `<Type>@0x<ID>`; a node
merely shared between two branches may be rendered either in full or as such a reference.
"""
from __future__ import annotations

import os as _os
import itertools
import json
import os
import pickle
import random
import re
import sys
import time

from bounded.bC13 import (ALPHA, AUX, CaseTimeout, KINDS, RULE_CASES, RULE_EXTRA_INPUTS, base_battery, deadline, esc,
                          model_facts, outcome, show, strings, token_words, try_compile)
from bounded.common import JOBS, bitem, chunked, pmap

_REPO = _os.environ.get('VERIF_REPO', '/repo')  # the tree under check (a scratch copy when evaluations run in parallel)
PROP = 'C14'

# --------------------------------------------------------------------------- part A: cases
ADV = ['f{', 'f{a', 'f{a}', 'f{a:>5}', 'f{a:', 'f{:}', 'f{}', 'f{世:^3}', "f{'", 'f{"', 'f{{', 'ff{a}',
       '\\e[', '\\e[31m', '\\e[31mx\\e[0m', '\\e[1;38;2;1;2;3mx\\e[0m', '\\e', '\\e[m', '\\e[0m', 'x\\e[31m',
       '{', '}', '{}', '{0}', '{a}', '{a:>5}', '{{', '}}', '{a!r}', ':>5', '>5', '%s', '%(a)s', '${x}', '$x',
       "'", '"', "'\"", '\\', '\\\\', '\\n', '\n', '\t', '\\x41', '\\u0041', 'é', 'é', '世', '​', '\x7f',
       '@', '__class__', 'None', 'True', '0', '1.5', 'Token', '<', '>', '&', '[', ']', '[a]', '[/a]', '[[', 'r"x"']
SNIFF_ALPHA = ('f', '{', '}', '\\', 'e', '[', 'a', ':')

# (kind, template) -- the text is put in with the escapes the string syntax of grammars understands
ATOM_FORMS = [
    ('token', "start = '{s}' $ ;"),
    ('token-in-choice', "start = x:'{s}' | y:'a' $ ;"),
    ('constant', "start = 'a' `\"{s}\"` $ ;"),
    ('alert', "start = 'a' ^`\"{s}\"` $ ;"),
    ('keyword', "@@keyword :: '{s}'\nstart = n $ ;\n@name\nn = /[^\\s]+/ ;"),
    ('namechars', "@@namechars :: '{s}'\nstart = 'a' /.*/ $ ;"),
    ('whitespace', "@@whitespace :: '{s}'\nstart = 'a' 'a' $ ;"),
    ('param', "start('{s}') = 'a' $ ;"),
    ('kwparam', "start(k='{s}') = 'a' $ ;"),
    ('named-key', "start = k:'{s}' 'a' $ ;"),
    ('pattern', 'start = ?"{s}" $ ;'),
]


def atom_inputs(t):
    b = ['', t, t + t, t + ' ' + t, ' ' + t, t + 'a', 'a' + t, 'a', 'a a', 'aa', 'a' + t + 'a', t + ' a', t[:-1], t[1:], 'a ' + t]
    return list(dict.fromkeys(b))


def model_cases(tier, seed):
    cases = []
    L = 4 if tier == 'thorough' else 3
    sniff = list(strings(SNIFF_ALPHA, L))
    alpha_texts = list(strings(ALPHA, 2))
    for kind, fmt in ATOM_FORMS:
        texts = list(ADV)
        if kind == 'token':
            texts += sniff + alpha_texts
        elif kind in ('constant', 'param', 'keyword'):
            texts += list(strings(SNIFF_ALPHA, L - 1))
        else:
            texts += list(strings(SNIFF_ALPHA, 2))
        for t in dict.fromkeys(texts):
            sp = t if kind == 'pattern' else esc(t)
            cases.append(dict(group='atoms', kind=kind, text=fmt.replace('{s}', sp) + "\nzz = 'z' ;", s=t))
    for label, text in RULE_CASES:
        cases.append(dict(group='rules', kind=label, text=text, s=None))
        if text.count(' = ') + text.count(' ::= ') + text.count(' := ') + text.count('start: ') == 1 and '(*' not in text:
            cases.append(dict(group='rules', kind=label + '+aux', text=text.rstrip() + "\nzz = 'z' ;", s=None))
    ctxs = ['{x}', "{x} 'b'", "m:{x}", "[{x}]", "{{{x}}}", "({x} | 'b')", "','.{{{x}}}+"]
    for kname, kfrag in KINDS:
        for i, c in enumerate(ctxs):
            if tier != 'thorough' and i not in (0, (sum(map(ord, kname)) % (len(ctxs) - 1)) + 1):  # deterministic choice
                continue
            cases.append(dict(group='structure', kind=f'{kname}@{i}', text=f"{AUX}start = {c.format(x=kfrag)} $ ;\n", s=None))
    for label, path in (('calc', _REPO + '/grammar/calc.ebnf'), ('tatsu', _REPO + '/tatsu/_tatsu.ebnf'), ('antlr', _REPO + '/tatsu/g2e/antlr.tatsu')):
        cases.append(dict(group='files', kind=label, text=open(path, encoding='utf-8').read(), s=None, path=path))
    return cases


# --------------------------------------------------------------------------- part A: comparison
def typed(x):
    if isinstance(x, str):
        return [type(x).__name__, str.__str__(x)]
    return [type(x).__name__, repr(x)]


def typed_leaves(m):
    from tatsu import peg as g
    out = []

    def walk(n, depth=0):
        if depth > 300:
            return
        if isinstance(n, g.Alert):
            out.append(['alert', n.level, typed(n.literal)])
        elif isinstance(n, g.Constant):
            out.append(['constant', typed(n.literal)])
        elif isinstance(n, g.Token):
            out.append(['token', typed(n.token)])
        elif isinstance(n, g.Pattern):
            out.append(['pattern', typed(n.pattern)])
        elif isinstance(n, (g.Named,)):
            out.append(['name', typed(n.name)])
        elif isinstance(n, g.Call):
            out.append(['call', typed(n.name)])
        for c in n.children():
            walk(c, depth + 1)

    for r in m.rules:
        out.append(['rule', type(r).__name__, typed(r.name)])
        walk(r)
    return out


def typed_facts(m):
    f = model_facts(m)
    f['name'] = typed(m.name)
    f['keyword_types'] = sorted(type(k).__name__ for k in m.keywords or ())
    f['directive_types'] = {k: type(v).__name__ for k, v in (m.directives or {}).items()}
    f['param_types'] = [[type(p).__name__ for p in (r.params or ())] + [type(v).__name__ for v in (r.kwparams or {}).values()]
                        for r in m.rules]
    f['rule_classes'] = [type(r).__name__ for r in m.rules]
    return f


def diff_facts(a, b):
    out = []
    for k in a:
        if k == 'rules':
            if [r['name'] for r in a[k]] != [r['name'] for r in b[k]]:
                out.append(('rule-names', f'{[r["name"] for r in a[k]]} -> {[r["name"] for r in b[k]]}'))
                continue
            for x, y in zip(a[k], b[k]):
                for kk in x:
                    if x[kk] != y[kk]:
                        out.append((f'rule-{kk}', f'rule {x["name"]}: {kk} {x[kk]!r} -> {y[kk]!r}'))
        elif k == 'config':
            ks = [c for c in a[k] if a[k][c] != b[k].get(c)]
            if ks:
                out.append(('config-' + '-'.join(ks), f'config {ks}: {[a[k][c] for c in ks]} -> {[b[k].get(c) for c in ks]}'))
        elif a[k] != b[k]:
            out.append((k.replace('_', '-'), f'{k}: {a[k]!r} -> {b[k]!r}'))
    return out


def outcome2(model, text, **kw):
    """outcome(), once more with a long limit when it timed out (a loaded machine is not a disagreement)"""
    o = outcome(model, text, **kw)
    if o[0] == 'timeout':
        o = outcome(model, text, timeout=30.0, **kw)
    return o


def reload_json(m):
    from tatsu.peg import Grammar
    return Grammar.load(json.loads(json.dumps(m.asjson())))


def reload_jsons(m):
    from tatsu.peg import jsonimport
    return jsonimport.loads_grammar(m.asjsons())


def reload_pickle(m):
    return pickle.loads(pickle.dumps(m))


def reload_source(m, name='Gen'):
    from tatsu.ngcodegen.grammar_gen import parsermodel_gen
    src = parsermodel_gen(m, name=name)
    ns = {'__name__': f'c14_gen_{name}'}
    exec(compile(src, f'<parsermodel {name}>', 'exec'), ns)  # noqa: S102
    return ns['GRAMMAR_MODEL'], ns[f'{name}Parser']


ROUTES = ('json', 'jsons', 'pickle', 'source')
REPLAY = {
    'json': 'tatsu.peg.Grammar.load(json.loads(json.dumps(m.asjson())))',
    'jsons': 'tatsu.peg.jsonimport.loads_grammar(m.asjsons())',
    'pickle': 'pickle.loads(pickle.dumps(m))',
    'source': "ns = {}; exec(tatsu.ngcodegen.grammar_gen.parsermodel_gen(m, name='Gen'), ns); ns['GRAMMAR_MODEL'] / ns['GenParser']().parse(text, asmodel=False)",
}


def what_of(case):
    if case['group'] == 'atoms':
        t = case['s']
        tags = []
        if t.startswith('f{'):
            tags.append('f-brace-prefix')
        if t.startswith('\\e['):
            tags.append('backslash-e-prefix')
        return f'{case["kind"]}-text' + ('-' + '+'.join(tags) if tags else '')
    if case['group'] == 'structure':
        return case['kind'].split('@')[0]
    return f'{case["group"]}-{case["kind"]}'


def check_reload(case):
    res = dict(status='ok', fails=[], key=None, group=case['group'], n_inputs=0, routes=0)
    m, why = try_compile(case['text'])
    if m is None:
        res['status'] = 'skip'
        res['why'] = why
        return res
    if case['group'] == 'atoms' and case['kind'] == 'whitespace':
        ws = m.directives.get('whitespace')
        try:
            if not ws or re.compile(ws).match('') is not None:
                res['status'] = 'skip'
                res['why'] = 'whitespace pattern matches the empty string (D29)'
                return res
        except re.error:
            res['status'] = 'skip'
            return res
    if case['group'] == 'atoms':
        inputs = atom_inputs(case['s'])
    elif case['group'] == 'files':
        inputs = {'calc': ['1', '1+2*3', '(1+2)*3', '1+', 'x', ''],
                  'tatsu': ["start = 'a' $ ;", "a = b | c ; b = /x/ ; c = {'y'}+ ;", 'x', ''],
                  'antlr': ["grammar T; start: 'a';", 'x', '']}[case['kind']]
    else:
        inputs = list(dict.fromkeys(base_battery() + RULE_EXTRA_INPUTS[:24] + token_words(case['text'])))
    try:
        with deadline(30):
            mo = m.optimized()
            base = {'facts': typed_facts(m), 'leaves': typed_leaves(m), 'pretty': m.pretty(),
                    'oleaves': typed_leaves(mo), 'opretty': mo.pretty()}
            expected = [outcome(m, t) for t in inputs]
    except BaseException as e:  # noqa: BLE001
        # the text compiled, but the model cannot be copied / optimized / printed: not a serialization route, still a finding
        res['status'] = 'fail'
        res['fails'].append((f'model/unusable-after-compile-{type(e).__name__}', f'm.optimized() / m.pretty() / reading its rules raised {type(e).__name__}: {str(e)[:200]}',
                             {'grammar': case['text'][:400], 'm': 'tatsu.compile(grammar)', 'then': 'm.optimized(); m.pretty()'}))
        return res
    if any(o[0] == 'timeout' for o in expected):
        res['status'] = 'skip'
        res['why'] = 'original hangs'
        return res
    res['key'] = base['pretty']
    res['n_inputs'] = len(inputs)
    what = what_of(case)
    wit0 = {'grammar': case['text'] if case['group'] != 'files' else f'open({case["path"]!r}).read()', 'm': 'tatsu.compile(grammar)'}

    sniffed = case['group'] == 'atoms' and case['s'].startswith(('f{', '\\e['))
    one_tuple = len(m.rules) == 1 or len(m.keywords or ()) == 1
    has_decorators = any(r.decorators for r in m.rules)

    def fail(route, check, detail, inp=None, via_class=False):
        w = dict(wit0)
        w['reload'] = REPLAY[route]
        if inp is not None:
            w['input'] = inp
        # name the finding by its cause where the case shows it (used only for the slug, never for the verdict)
        if route in ('json', 'jsons') and sniffed:
            slug = 'json/string-sniffed-as-style'
        elif route == 'source' and one_tuple and (check.startswith('reload-raises-AssertionError') or check.startswith('keyword')):
            slug = 'source/one-element-tuple-printed-without-comma'
        elif route == 'source' and has_decorators and (check == 'rule-decorators' or check.startswith('reload-raises-SyntaxError')):
            slug = 'source/decorator-list-printed-without-brackets'
        elif route == 'source' and via_class == 'start':
            slug = 'source/generated-parser-class-ignores-start'
        elif route == 'source' and via_class:
            slug = 'source/generated-parser-class-drops-directive-settings'
        else:
            slug = f'{route}/{what}/{check}'
        res['fails'].append((slug, detail, w))

    for route in ROUTES:
        res['routes'] += 1
        parser_cls = None
        try:
            with deadline(30):
                if route == 'json':
                    r = reload_json(m)
                elif route == 'jsons':
                    r = reload_jsons(m)
                elif route == 'pickle':
                    r = reload_pickle(m)
                else:
                    r, parser_cls = reload_source(m)
        except CaseTimeout:
            fail(route, 'reload-timeout', 'reload did not complete in 30 s')
            continue
        except BaseException as e:  # noqa: BLE001
            fail(route, f'reload-raises-{type(e).__name__}', f'{type(e).__name__}: {str(e)[:200]}')
            continue
        try:
            with deadline(30):
                fd = diff_facts(base['facts'], typed_facts(r))
                lv = typed_leaves(r)
                pr = r.pretty()
        except BaseException as e:  # noqa: BLE001
            fail(route, f'reloaded-model-unusable-{type(e).__name__}', f'{type(e).__name__}: {str(e)[:200]}')
            continue
        if fd:
            fail(route, fd[0][0], '; '.join(d for _, d in fd)[:500])
            continue
        want_leaves, want_pretty = (base['oleaves'], base['opretty']) if route == 'source' else (base['leaves'], base['pretty'])
        if lv != want_leaves:
            diff = next(((a, b) for a, b in zip(want_leaves, lv) if a != b), (want_leaves[len(lv):][:1], lv[len(want_leaves):][:1]))
            fail(route, 'texts', f'token/pattern/constant/name texts differ: {diff[0]!r} -> {diff[1]!r}')
            continue
        if pr != want_pretty:
            fail(route, 'pretty', f'pretty text differs: {want_pretty!r} -> {pr!r}'[:500])
            continue
        bad = None
        for t, o1 in zip(inputs, expected):
            o2 = outcome2(r, t)
            if o1 != o2:
                bad = (t, o1, o2, 'model.parse')
                break
            if parser_cls is not None:
                try:
                    p = parser_cls()
                    o3 = outcome2(p, t, asmodel=False)
                except BaseException as e:  # noqa: BLE001
                    o3 = ('exc', type(e).__name__)
                if o1 != o3:
                    bad = (t, o1, o3, 'GenParser().parse(asmodel=False)')
                    break
        if not bad and parser_cls is not None and len(m.rules) > 1:
            other = m.rules[-1].name  # the generated class must honour start= like the model does
            for t in inputs[:12]:
                o1 = outcome(m, t, start=other)
                try:
                    o3 = outcome2(parser_cls(), t, asmodel=False, start=other)
                except BaseException as e:  # noqa: BLE001
                    o3 = ('exc', type(e).__name__)
                if o1 != o3:
                    bad = (t, o1, o3, f'GenParser().parse(asmodel=False, start={other!r})')
                    break
        if bad:
            fail(route, 'parse', f'input {bad[0]!r}: original {show(bad[1])} / reloaded ({bad[3]}) {show(bad[2])}', bad[0],
                 via_class='start' if 'start=' in bad[3] else bad[3].startswith('GenParser'))
    if res['fails']:
        res['status'] = 'fail'
    return res


def check_public_api(case):
    """tatsu.api.to_parsermodel_sourcecode(text): the public entry point of the source route."""
    import tatsu.api
    res = dict(status='ok', fails=[], key=case['text'], group='api', n_inputs=0, routes=1)
    m, why = try_compile(case['text'])
    if m is None:
        res['status'] = 'skip'
        return res
    w = {'python': f'ns = {{}}; exec(tatsu.api.to_parsermodel_sourcecode({case["text"]!r}, name="Gen"), ns); ns["GenParser"]().parse(text, asmodel=False)'}
    try:
        with deadline(30):
            from tatsu.api import api as _api
            getattr(_api, '__compiled_grammar_cache').clear()
            src = tatsu.api.to_parsermodel_sourcecode(case['text'], name='Gen')
            ns = {'__name__': 'c14_api'}
            exec(compile(src, '<api>', 'exec'), ns)  # noqa: S102
            p = ns['GenParser']()
    except BaseException as e:  # noqa: BLE001
        slug = f'source-api/{what_of(case)}/reload-raises-{type(e).__name__}'
        if isinstance(e, AssertionError) and len(m.rules) == 1:
            slug = 'source/one-element-tuple-printed-without-comma'
        elif isinstance(e, SyntaxError) and any(r.decorators for r in m.rules):
            slug = 'source/decorator-list-printed-without-brackets'
        res['fails'].append((slug, f'{type(e).__name__}: {str(e)[:200]}', w))
        res['status'] = 'fail'
        return res
    inputs = atom_inputs(case['s']) if case['group'] == 'atoms' else base_battery()[:40]
    for t in inputs:
        o1, o2 = outcome2(m, t), outcome2(p, t, asmodel=False)
        res['n_inputs'] += 1
        if o1 != o2:
            w2 = dict(w)
            w2['input'] = t
            slug = f'source-api/{what_of(case)}/parse'
            if len(m.keywords or ()) == 1:
                slug = 'source/one-element-tuple-printed-without-comma'
            elif any(v not in (None, False, '') for k, v in (m.directives or {}).items() if k != 'grammar'):
                slug = 'source/generated-parser-class-drops-directive-settings'
            res['fails'].append((slug, f'input {t!r}: tatsu.compile(text).parse {show(o1)} / generated {show(o2)}', w2))
            res['status'] = 'fail'
            break
    return res


def _work_a(chunk):
    sys.setrecursionlimit(max(sys.getrecursionlimit(), 3000))
    out = []
    for case in chunk:
        fn = check_public_api if case.get('api') else check_reload
        try:
            out.append(fn(case))
        except CaseTimeout:
            out.append(dict(status='skip', why='timeout', fails=[], key=None, group=case['group'], n_inputs=0, routes=0))
        except Exception as e:  # noqa: BLE001
            out.append(dict(status='fail', key=None, group=case['group'], n_inputs=0, routes=0,
                            fails=[(f'harness-error/{type(e).__name__}', f'{type(e).__name__}: {e}', {'grammar': case['text'][:300]})]))
    return out


def run_reload(tier, seed):
    cases = model_cases(tier, seed)
    only = os.environ.get('VERIF_C14_GROUPS')
    if only:  # development aid: restrict to some case groups
        cases = [c for c in cases if c['group'] in only.split(',')]
    rng = random.Random(seed)
    api_sample = [dict(c, api=True) for c in rng.sample(cases, min(len(cases), 150 if tier == 'quick' else 600)) if c['group'] != 'files']
    allc = cases + api_sample
    order = list(range(len(allc)))
    random.Random(99).shuffle(order)
    flat = [r for part in pmap(_work_a, chunked([allc[i] for i in order], JOBS * 8)) for r in part]
    results = [None] * len(allc)
    for i, r in zip(order, flat):
        results[i] = r
    items = []
    groups = {}
    for c, r in zip(allc, results):
        groups.setdefault('api' if c.get('api') else c['group'], []).append((c, r))
    docs = {
        'atoms': ('adversarial texts in every string-carrying position',
                  f'{len(ADV)} hand-picked texts (f{{..}} markers, \\e[ escapes, format specs, braces, quotes, backslashes, unicode) + all '
                  f'strings over {{f,{{,}},\\,e,[,a,:}} (the alphabet of the sniffing rule in fromjson) + all strings <= 2 over the C13 alphabet, as token '
                  '(full length), constant / keyword / param (one shorter), alert / namechars / whitespace / kwparam / name / pattern (<= 2)'),
        'rules': ('rule headers, decorators, based rules, includes, directives, keywords', f'the {len(RULE_CASES)} grammars of bC13.RULE_CASES'),
        'structure': ('every node type', f'the {len(KINDS)} term kinds of bC13.KINDS, each plain and in one (thorough: 6) contexts'),
        'files': ('grammars shipped with the project', 'grammar/calc.ebnf, tatsu/_tatsu.ebnf, tatsu/g2e/antlr.tatsu'),
        'api': ('public API tatsu.api.to_parsermodel_sourcecode', 'seeded sample of the cases above, source emitted through the public function'),
    }
    for group, rows in groups.items():
        ev = [(c, r) for c, r in rows if r['status'] != 'skip']
        failures = [{'witness': w, 'detail': d, 'cls': cls} for c, r in ev for cls, d, w in r['fails']]
        title, domain = docs[group]
        L = 4 if tier == 'thorough' else 3
        items += bitem(PROP, f'reload-{group}', function='asjson/Grammar.load, pickle, parsermodel_gen+exec',
                       domain=domain, bound=f'texts <= {L}' if group == 'atoms' else f'{len(rows)} grammars',
                       cases=sum(r['routes'] for c, r in ev), distinct_nontrivial=len({r['key'] for c, r in ev if r['key']}),
                       rule='cases = (grammar, serialization route) pairs whose original compiled; distinct = distinct pretty texts of the originals',
                       exhaustive=group != 'api', samples=[{'grammar': c['text'][:200]} for c, r in ev[:3]], failures=failures,
                       note=f'bounded: {title}; {len(rows) - len(ev)} of {len(rows)} generated grammars skipped (original does not compile / out of domain); '
                            f'{sum(r["n_inputs"] * max(1, r["routes"]) for c, r in ev)} parses compared')
    return items


# --------------------------------------------------------------------------- part B: asjson
REF_RX = re.compile(r'^(\w+)@0x([0-9A-F]+)$')


_GC = None


def _graph_classes():
    global _GC
    if _GC is None:
        from collections import namedtuple

        from tatsu.objectmodel import Node

        class N2(Node):
            left = None
            right = None

        _GC = (N2, namedtuple('NT', ['left', 'right']))
    return _GC


def make_graph(types, slots):
    """types[i] in list/dict/tuple/ast/node/nt ; slots[i] = (s0, s1) each an int node index or a scalar token."""
    from tatsu.contexts.ast import AST
    N2, NT = _graph_classes()
    nodes = []
    for t in types:
        if t == 'list':
            nodes.append([None, None])
        elif t == 'dict':
            nodes.append({})
        elif t == 'ast':
            nodes.append(AST())
        elif t == 'node':
            nodes.append(N2())
        elif t in ('tuple', 'nt'):
            nodes.append(None)  # immutable: built bottom-up below
    scal = {'i': 1, 's': 'x', 'n': None}

    def val(s):
        return nodes[s] if isinstance(s, int) else scal[s]

    # immutable nodes may only point at lower-numbered... no: build them last, pointing at whatever exists;
    # a tuple can take part in a cycle only through a mutable node, which is filled in afterwards
    for i, t in enumerate(types):
        if t in ('tuple', 'nt'):
            a, b = slots[i]
            if any(isinstance(s, int) and nodes[s] is None for s in (a, b)):
                return None  # refers to an immutable node not built yet: shape not constructible
            nodes[i] = (val(a), val(b)) if t == 'tuple' else NT(val(a), val(b))
    for i, t in enumerate(types):
        a, b = slots[i]
        if t == 'list':
            nodes[i][0], nodes[i][1] = val(a), val(b)
        elif t == 'dict':
            nodes[i]['left'], nodes[i]['right'] = val(a), val(b)
        elif t == 'ast':
            dict.__setitem__(nodes[i], 'left', val(a))
            dict.__setitem__(nodes[i], 'right', val(b))
        elif t == 'node':
            nodes[i].left, nodes[i].right = val(a), val(b)
    return nodes


def ref_convert(obj, path=()):
    """the reference conversion: ('ref', typename, id) for a node already on the current path."""
    from tatsu.contexts.ast import AST
    from tatsu.objectmodel import Node
    if obj is None or isinstance(obj, (bool, int, float, str)):
        return obj
    if id(obj) in path:
        return ('ref', type(obj).__name__, id(obj))
    path = path + (id(obj),)
    if isinstance(obj, Node):
        d = {'__class__': type(obj).__name__}
        for k in ('left', 'right'):
            d[k] = ref_convert(getattr(obj, k), path)
        return d
    if isinstance(obj, tuple) and hasattr(obj, '_asdict'):
        return {k: ref_convert(v, path) for k, v in obj._asdict().items()}
    if isinstance(obj, (dict, AST)):
        return {str(k): ref_convert(v, path) for k, v in obj.items()}
    if isinstance(obj, (list, tuple)):
        return [ref_convert(v, path) for v in obj]
    raise TypeError(type(obj))


def matches(expected, got, shared_ok):
    """got == expected where ('ref', T, id) must be the string 'T@0x<ID>'; any container that `shared_ok(id)` allows
    may instead be a reference string."""
    if isinstance(expected, tuple) and expected and expected[0] == 'ref':
        return isinstance(got, str) and got == f'{expected[1]}@0x{hex(expected[2]).upper()[2:]}'
    if isinstance(expected, dict):
        if not isinstance(got, dict) or set(got) != set(expected):
            return False
        return all(matches(expected[k], got[k], shared_ok) for k in expected)
    if isinstance(expected, list):
        return isinstance(got, list) and len(got) == len(expected) and all(matches(a, b, shared_ok) for a, b in zip(expected, got))
    return type(expected) is type(got) and expected == got


def graph_expr(types, slots, root):
    return f'bounded.bC14.make_graph({list(types)!r}, {list(slots)!r})[{root}]'


def check_graphs(job):
    from tatsu.util.asjson import asjson
    types_list, slot_sets = job
    out = dict(cases=0, built=0, fails=[], cyclic=0, shared=0)
    for types in types_list:
        n = len(types)
        for slots in slot_sets[n]:
            try:
                nodes = make_graph(types, slots)
            except Exception:  # noqa: BLE001
                nodes = None
            if nodes is None:
                continue
            out['built'] += 1
            root = nodes[0]
            out['cases'] += 1
            wit = {'python': f'tatsu.util.asjson.asjson({graph_expr(types, slots, 0)})'}
            try:
                with deadline(5):
                    got = asjson(root)
            except CaseTimeout:
                out['fails'].append(('asjson-graphs/does-not-terminate', 'asjson did not return in 5 s', wit))
                continue
            except RecursionError:
                out['fails'].append(('asjson-graphs/RecursionError', 'RecursionError', wit))
                continue
            except Exception as e:  # noqa: BLE001
                out['fails'].append((f'asjson-graphs/raises-{type(e).__name__}', f'{type(e).__name__}: {str(e)[:200]}', wit))
                continue
            try:
                json.dumps(got)
            except Exception as e:  # noqa: BLE001
                out['fails'].append(('asjson-graphs/not-json-dumpable', f'json.dumps: {type(e).__name__}: {str(e)[:160]}; result {got!r}'[:400], wit))
                continue
            try:
                exp = ref_convert(root)
            except TypeError:
                continue
            flat = json.dumps(exp, default=str)
            if '"ref"' in flat:
                out['cyclic'] += 1
            if not matches(exp, got, None):
                out['fails'].append(('asjson-graphs/wrong-structure', f'expected {exp!r} got {got!r}'[:500], wit))
    return out


def slot_sets_for(n):
    choices = list(range(n)) + ['i']
    return [tuple(zip(c[0::2], c[1::2])) for c in itertools.product(choices, repeat=2 * n)]


def run_graphs(tier, seed):
    N = 4 if tier == 'thorough' else 3
    kinds = ('list', 'dict', 'ast', 'node', 'tuple', 'nt')
    rng = random.Random(seed)
    types_list = []
    for n in range(1, N + 1):
        allt = list(itertools.product(kinds, repeat=n))
        if n <= 2:
            types_list += allt
        else:
            uniform = [tuple([k] * n) for k in kinds]
            rest = [t for t in allt if t not in uniform]
            rng.shuffle(rest)
            types_list += uniform + rest[:(40 if n == 3 else 30)]
    slot_sets = {n: slot_sets_for(n) for n in range(1, N + 1)}
    if N == 4:
        s4 = slot_sets[4]
        rng.shuffle(s4)
        slot_sets[4] = s4[:20000]
    jobs = [([t], slot_sets) for t in types_list]
    parts = pmap(check_graphs, jobs)
    cases = sum(p['cases'] for p in parts)
    fails = [{'witness': w, 'detail': d, 'cls': c} for p in parts for c, d, w in p['fails']]
    # leaves that are not JSON-native by themselves: an Enum member stands for its VALUE, converted like any other value
    import enum
    import json as _json
    from tatsu.util.asjson import asjson

    class Leaf(enum.Enum):
        INT = 1
        STR = 'x'
        PAIR = (1, 'x')
        SET = frozenset({7})
        MAP = (('k', (1, 2)),)
        NESTED = ((1, (2, (3,))), 'y')
    for member, want in ((Leaf.INT, 1), (Leaf.STR, 'x'), (Leaf.PAIR, [1, 'x']), (Leaf.SET, [7]), (Leaf.MAP, [['k', [1, 2]]]),
                         (Leaf.NESTED, [[1, [2, [3]]], 'y'])):
        for holder, expect in (([member], [want]), ({'v': member}, {'v': want}), ((member, 0), [want, 0])):
            cases += 1
            wit = {'python': f'tatsu.util.asjson.asjson({holder!r}) with enum value {member.value!r}'}
            try:
                got = asjson(holder)
                _json.dumps(got)
                if got != expect:
                    fails.append({'witness': wit, 'cls': 'asjson-graphs/enum-value-not-converted', 'detail': f'expected {expect!r} got {got!r}'})
            except Exception as e:  # noqa: BLE001
                fails.append({'witness': wit, 'cls': 'asjson-graphs/not-json-dumpable', 'detail': f'{type(e).__name__}: {e}'[:200]})
    return bitem(PROP, 'asjson-graphs', function='tatsu.util.asjson.asjson',
                 domain='object graphs: n container nodes (list, dict, tuple, namedtuple, AST, Node subclass; all type assignments for n <= 2, '
                        'the 6 uniform + a seeded sample of mixed ones above), two slots per node, each slot a scalar or ANY node (all sharing and cycle shapes)',
                 bound=f'n <= {N}' + (' (n = 4: 20000 sampled slot assignments per type assignment)' if N == 4 else ''),
                 cases=cases, distinct_nontrivial=sum(p['cyclic'] for p in parts),
                 rule='cases = constructible (types, slots) graphs converted from node 0; distinct_nontrivial = those containing a cycle reachable from the root',
                 exhaustive=(N == 3), samples=[{'python': 'asjson(' + graph_expr(('list', 'dict'), ((1, 0), (0, 'i')), 0) + ')'}], failures=fails)


PARSE_GRAMMARS = [
    ("@@parseinfo :: True\nstart::Start = left:expr op:'+' right:expr $ ;\nexpr::Expr = value:/\\d+/ ;", ['1 + 2', '10+20']),
    ("start::S = items+:item {',' items+:item} $ ;\nitem::I = name:/\\w+/ ['=' value:item] ;", ['a', 'a,b', 'a=b=c,d']),
    ("@@parseinfo :: True\nstart = {x+:/\\w/}+ ^`careful` $ ;", ['a b c']),
    ("start = a:(b:'x' c:{'y'}) d:`{a}` $ ;", ['x y y']),
    ("start::A = l:'(' inner:[start] r:')' ;", ['()', '(())', '((()))']),
]


def check_parse_results(_):
    from tatsu.objectmodel import Node
    from tatsu.util.asjson import asjson
    out = dict(cases=0, fails=[], nontrivial=0)

    def one(value, wit, cyclic_expected=None):
        out['cases'] += 1
        try:
            with deadline(10):
                got = asjson(value)
        except CaseTimeout:
            out['fails'].append(('asjson-results/does-not-terminate', 'asjson did not return in 10 s', wit))
            return None
        except RecursionError:
            out['fails'].append(('asjson-results/RecursionError', 'RecursionError', wit))
            return None
        except Exception as e:  # noqa: BLE001
            out['fails'].append((f'asjson-results/raises-{type(e).__name__}', f'{type(e).__name__}: {str(e)[:200]}', wit))
            return None
        try:
            s = json.dumps(got)
        except Exception as e:  # noqa: BLE001
            out['fails'].append(('asjson-results/not-json-dumpable', f'json.dumps: {type(e).__name__}: {str(e)[:200]}', wit))
            return None
        if cyclic_expected and not re.search(cyclic_expected, s):
            out['fails'].append(('asjson-results/cycle-not-a-reference', f'expected a reference matching {cyclic_expected!r} in {s[:300]}', wit))
        return got

    for gtext, inputs in PARSE_GRAMMARS:
        m, err = try_compile(gtext)
        if m is None:
            continue
        for text in inputs:
            for asmodel in (False, True):
                for pinfo in (False, True):
                    wit = {'python': f'tatsu.util.asjson.asjson(tatsu.compile({gtext!r}).parse({text!r}, asmodel={asmodel}, parseinfo={pinfo}))'}
                    try:
                        with deadline(10):
                            value = m.parse(text, asmodel=asmodel, parseinfo=pinfo)
                    except BaseException:  # noqa: BLE001
                        continue
                    got = one(value, wit)
                    if got is None:
                        continue
                    out['nontrivial'] += 1
                    if asmodel and isinstance(value, Node):
                        # object model: touch children()/parent (weak references), then make sharing and a cycle by hand
                        kids = value.children()
                        one(value, dict(wit, then='value.children() first'))
                        if kids:
                            k = kids[0]
                            w2 = dict(wit, then='v.shared = v.children()[0]')
                            try:
                                value.shared = k  # a second reference to the same child
                                one(value, w2)
                                w3 = dict(wit, then='k = v.children()[0]; k.back = v')
                                k.back = value  # a cycle through an attribute
                                one(value, w3, cyclic_expected=r'"\w+@0x[0-9A-F]+"')
                                one(k, dict(w3, convert='k'), cyclic_expected=r'"\w+@0x[0-9A-F]+"')
                                one([value, value, {'again': k}], dict(w3, convert='[v, v, {"again": k}]'), cyclic_expected=r'"\w+@0x[0-9A-F]+"')
                            except AttributeError:
                                pass
        # the grammar model itself (rules refer to each other through Call._rule / RuleInclude._exp / BasedRule.baserule)
        one(m, {'python': f'tatsu.util.asjson.asjson(tatsu.compile({gtext!r}))'})
        one(m.optimized(), {'python': f'tatsu.util.asjson.asjson(tatsu.compile({gtext!r}).optimized())'})
    return out


def run_results(tier, seed):
    parts = pmap(check_parse_results, [0])
    p = parts[0]
    fails = [{'witness': w, 'detail': d, 'cls': c} for c, d, w in p['fails']]
    return bitem(PROP, 'asjson-results', function='tatsu.util.asjson.asjson',
                 domain=f'parse results of {len(PARSE_GRAMMARS)} grammars (AST / object model, parseinfo on / off), the object models again after '
                        'children() has set the parent links, with a shared child, with a cycle through an attribute; the grammar models themselves',
                 bound=f'{sum(len(i) for _, i in PARSE_GRAMMARS)} inputs x 4 modes x 6 conversions', cases=p['cases'], distinct_nontrivial=p['nontrivial'],
                 rule='distinct_nontrivial = (grammar, input, mode) triples that parsed', exhaustive=True,
                 samples=[{'python': "asjson(tatsu.compile(g).parse('1 + 2', asmodel=True, parseinfo=True))"}], failures=fails)


# --------------------------------------------------------------------------- entry points
def run(tier='quick', seed=0, info=None):
    items = []
    items += run_reload(tier, seed)
    items += run_graphs(tier, seed)
    items += run_results(tier, seed)
    if info is not None:
        for it in items:
            info.setdefault('bounded', []).append({k: it.extra.get(k) for k in ('function', 'domain', 'bound', 'cases')})
    return items


def main(argv=None):
    argv = list(sys.argv[1:] if argv is None else argv)
    tier = argv[0] if argv else 'quick'
    seed = int(argv[1]) if len(argv) > 1 else 0
    t0 = time.time()
    items = run(tier, seed, {})
    for it in items:
        print(f'{it.status:8} {it.id}  cases={it.extra.get("cases")} nontrivial={it.extra.get("distinct_nontrivial")}'
              + (f' failing={it.extra.get("failing_cases")}' if it.status == 'refuted' else ''))
        if it.status == 'refuted':
            print(f'    witness: {it.witness!r}'[:500])
            print(f'    {it.detail}'[:500])
    print(f'{PROP} bounded [{tier}]: {len(items)} items, {sum(i.status == "refuted" for i in items)} refuted, '
          f'{time.time() - t0:.1f}s')
    return 0


if __name__ == '__main__':
    sys.exit(main())
