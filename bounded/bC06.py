"""C06 (bounded, API level): semantic actions receive each rule's AST and their result replaces it.

    PYTHONPATH=/verif /verif/.venv/bin/python -m bounded.bC06 quick|thorough [seed]

Domain: ACTION_GRAMMARS (rule references inside choices, closures, optionals -- also an optional whose whole body is a reference
to a closure-only rule --, the same rule tried twice at one position by two alternatives, a zero-width predicate rule, a @nomemo
twin of every grammar) x ALL inputs over the grammar's alphabet up to the bound x the semantics kinds of the property's quantifier:

    none        no semantics object
    identity    every action returns its argument                    -> indistinguishable from `none`
    tagging     every action wraps its argument with the rule name   -> the oracle with the same actions
    default     only `_default`, tagging                             -> as tagging
    veto        actions raise FailedSemantics on a predicate         -> the oracle with SemanticFail: the invocation fails like a
                                                                       syntax mismatch, other alternatives are tried
    raising     actions raise KeyError / ValueError / a custom class -> that exception reaches the caller unchanged (same class,
                on a predicate                                         same object identity), unless the oracle never invokes the action

for the model and the generated parser (fresh object per parse).  The oracle is `bounded/specpeg.py` (the documented semantics) with
`actions`; cases it leaves unspecified are skipped.  @nomemo twins: the counting action of a @nomemo rule runs exactly as often as
with memoization switched off.
"""
from __future__ import annotations

import sys
import time

import tatsu  # noqa: F401
import tatsu.exceptions

from bounded import grammars as G
from bounded import specpeg as S
from bounded.bC02 import load_generated
from bounded.common import bitem, chunked, pmap

PROP = 'C06'
FUNCTION = ('ParserEngine.semantics_call / rule_call (FailedSemantics -> FailedParse, memo replay), find_cached_semantic_action, '
            'Call._parse / expcall (exception propagation), Optional.optimized, generated rule methods')


def T(x):
    return ('tok', x)


def C(x):
    return ('call', x)


def seq(*xs):
    return ('seq', tuple(xs))


def ch(*xs):
    return ('choice', tuple(xs))


A1 = ('pat', 'a')
AS = ('pat', 'a+')
W = ('pat', '[ab]')

# (name, description, rules with actions, alphabet, max input length)
ACTION_GRAMMARS = (
    ('choice-of-rules', (('start', seq(('closure', C('item')), ('eof',))), ('item', ch(C('aa'), C('ab'))), ('aa', AS), ('ab', ('pat', '[ab]+'))),
     ('item', 'aa', 'ab'), 'ab ', 4),
    ('optional-around-closure-rule', (('start', seq(('opt', C('nums')), C('words'), ('eof',))), ('nums', ('closure', C('num'))), ('num', A1),
                                      ('words', ('closure', W))), ('nums', 'num', 'words'), 'ab', 4),
    ('optional-around-rule', (('start', seq(('opt', C('r')), ('closure', W), ('eof',))), ('r', AS)), ('r',), 'ab', 4),
    ('rule-tried-twice', (('start', ch(seq(C('r'), T('b'), ('eof',)), seq(C('r'), T('c'), ('eof',)), seq(C('r'), ('eof',)))), ('r', AS)),
     ('r', 'start'), 'abc', 4),
    # the vetoed rule is invoked twice at one position (the second time its failure is replayed from the memo table), then an alternative
    # without it matches
    ('vetoed-rule-then-fallback', (('start', ch(seq(C('r'), T('b'), ('eof',)), seq(C('r'), T('c'), ('eof',)), seq(('pat', 'a+'), ('opt', T('c')), ('eof',)))), ('r', AS)),
     ('r',), 'abc', 4),
    ('predicate-rule', (('start', seq(C('stmt'), ('eof',))), ('stmt', ch(seq(T('a'), C('strict'), T('b')), seq(T('a'), C('strict'), T('c')), seq(T('a'), ('closure', W)))),
                        ('strict', ('void',))), ('strict', 'stmt'), 'abc', 3),
    ('named-elements', (('start', seq(('named', 'l', C('r')), ('named', 'o', ('opt', T('b'))), ('named', 'k', ('closure', C('r'))), ('eof',))), ('r', A1)),
     ('r', 'start'), 'ab', 4),
    ('nested-rules', (('start', seq(C('outer'), ('eof',))), ('outer', ch(seq(C('inner'), T('b')), C('inner'))), ('inner', ch(seq(T('a'), C('inner')), T('a')))),
     ('outer', 'inner'), 'ab', 4),
)

KINDS = ('identity', 'tagging', 'default', 'veto', 'raising')


class Boom(Exception):
    pass


def _pred(ast):
    """the predicate on which `veto` / `raising` actions strike: values that spell 'aa' (however they are structured)"""
    return _flat(ast) == 'aa'


def _flat(v):
    if v is None:
        return ''
    if isinstance(v, str):
        return v
    if isinstance(v, dict):
        return ''.join(_flat(x) for x in v.values())
    if isinstance(v, (list, tuple)):
        return ''.join(_flat(x) for x in v)
    return str(v)


def make_semantics(kind, rules, exc=KeyError):
    """-> (semantics object for tatsu, {rule: action} for the oracle)"""
    from tatsu.exceptions import FailedSemantics
    from tatsu.util import safe_name
    calls = []

    def mk(rule):
        if kind == 'identity':
            return lambda ast: ast
        if kind in ('tagging', 'default'):
            return lambda ast: {'rule': rule, 'value': ast}
        if kind == 'veto':
            def veto(ast):
                if _flat(ast) == 'aa':
                    raise FailedSemantics(f'{rule}: aa is not allowed')
                return ast
            return veto

        def boom(ast):
            if _flat(ast) == 'aa':
                raise exc(f'{rule} struck')
            return ast
        return boom

    ns = {}
    oracle = {}
    for r in rules:
        f = mk(r)

        def bind(f, r):
            def method(self, ast, *a, **kw):
                calls.append(r)
                return f(ast)

            def oact(v):
                try:
                    return f(v)
                except FailedSemantics:
                    raise S.SemanticFail() from None
            return method, oact
        method, oact = bind(f, r)
        if kind == 'default':
            continue
        ns[safe_name(r)] = method
        oracle[r] = oact
    if kind == 'default':
        def _default(self, ast, *a, **kw):
            calls.append('_default')
            return {'rule': '?', 'value': ast}
        ns['_default'] = _default
    sem = type(f'Sem_{kind}', (), ns)()
    sem.calls = calls
    return sem, oracle


def real(fn):
    from tatsu.exceptions import FailedParse
    try:
        return ('ok', S.normalize(fn()))
    except FailedParse as e:
        return ('fail', type(e).__name__)
    except RecursionError:
        return ('exc', 'RecursionError')
    except Exception as e:  # noqa: BLE001
        return ('exc', type(e).__name__)


def _grammar_text(desc, nomemo=()):
    text = S.to_text(desc)
    for r in nomemo:
        text = text.replace(f'\n{r} = ', f'\n@nomemo\n{r} = ').replace(f'{r} = ', f'@nomemo\n{r} = ', 1) if text.startswith(f'{r} = ') else \
            text.replace(f'\n{r} = ', f'\n@nomemo\n{r} = ')
    return text


def _work(job):
    gname, nomemo = job
    _n, desc, arules, alpha, n = next(g for g in ACTION_GRAMMARS if g[0] == gname)
    stats = {'cases': 0, 'nontrivial': 0}
    failures, samples = [], []
    text = _grammar_text(desc, arules if nomemo else ())
    try:
        model = tatsu.compile(text)
        _src, cls = load_generated(text)
    except Exception as e:  # noqa: BLE001
        return stats, [{'witness': {'grammar': text}, 'cls': f'compile-raises-{type(e).__name__}', 'detail': str(e)[:200]}], []
    parsers = (('model', lambda i, **kw: model.parse(i, **kw)), ('generated parser', lambda i, **kw: cls().parse(i, **kw)))
    for inp in G.inputs(alpha, n):
        plain = {who: real(lambda: p(inp)) for who, p in parsers}
        for kind in KINDS:
            for exc in ((KeyError, ValueError, Boom) if kind == 'raising' else (None,)):
                for who, p in parsers:
                    stats['cases'] += 1
                    sem, oracle = make_semantics(kind, arules, exc or KeyError)
                    got = real(lambda: p(inp, semantics=sem))
                    w = {'grammar': text, 'input': inp, 'parser': who, 'semantics': kind + (f' ({exc.__name__})' if exc else '')}
                    if sem.calls:
                        stats['nontrivial'] += 1
                    if kind == 'identity':
                        if got != plain[who]:
                            failures.append({'witness': w, 'cls': 'identity-actions-change-the-result', 'detail': f'without semantics: {plain[who]!r}; with identity actions: {got!r}'})
                        continue
                    if kind == 'default':
                        # _default receives every rule: compare with the oracle tagging every rule the same way
                        oracle = {r[0]: (lambda v: {'rule': '?', 'value': v}) for r in desc}
                    try:
                        if kind == 'raising':
                            def strike(v):
                                if _flat(v) == 'aa':
                                    raise Boom()
                                return v
                            o = S.evaluate(desc, inp, actions={r: strike for r in arules})
                        else:
                            o = S.evaluate(desc, inp, actions=oracle)
                    except Boom:
                        # the documented evaluation reaches the striking action: the exception reaches the caller unchanged
                        if got != ('exc', exc.__name__):
                            failures.append({'witness': w, 'cls': 'exception-of-an-action-does-not-reach-the-caller',
                                             'detail': f'the action raises {exc.__name__} during the parse; observed {got!r}'})
                        continue
                    except S.Unsupported:
                        continue
                    if isinstance(o, S.Unspecified):
                        continue
                    if kind == 'raising' and got[0] == 'exc' and got[1] == exc.__name__:
                        # the real parser invoked the action on a path the oracle backtracked over before reaching it: admissible only if
                        # the oracle's own evaluation would have struck, which it did not
                        failures.append({'witness': w, 'cls': 'action-invoked-where-the-documented-semantics-does-not',
                                         'detail': f'oracle outcome {o!r} without invoking a striking action; observed {got!r}'})
                        continue
                    same = (got[0] == 'ok' and S.same_value(o.value, got[1])) if o.ok else got[0] == 'fail'
                    if not same:
                        failures.append({'witness': w, 'cls': {'veto': 'failed-semantics-is-not-an-ordinary-failure', 'tagging': 'action-result-does-not-replace-the-rule-value',
                                                              'default': 'default-action-not-applied-as-documented', 'raising': 'raising-action-changes-an-unrelated-parse'}[kind],
                                         'detail': f'documented: {o!r}; observed: {got!r}'})
                    elif len(samples) < 2 and kind == 'veto' and sem.calls:
                        samples.append({**w, 'observed': repr(got)[:160]})
        if nomemo:
            # a @nomemo rule evaluates body and action on every invocation: as often as without memoization
            for who, p in parsers:
                s1, _ = make_semantics('identity', arules)
                s2, _ = make_semantics('identity', arules)
                r1 = real(lambda: p(inp, semantics=s1))
                r2 = real(lambda: p(inp, semantics=s2, memoization=False))
                stats['cases'] += 1
                if r1 == r2 and sorted(s1.calls) != sorted(s2.calls):
                    failures.append({'witness': {'grammar': text, 'input': inp, 'parser': who}, 'cls': 'nomemo-rule-action-not-called-on-every-invocation',
                                     'detail': f'action calls with memoization: {sorted(s1.calls)}; without: {sorted(s2.calls)}'})
    return stats, failures[:40], samples


def run(tier='quick', seed=0, info=None):
    jobs = [(g[0], nm) for g in ACTION_GRAMMARS for nm in (False, True)]
    st = {'cases': 0, 'nontrivial': 0}
    failures, samples = [], []
    for s, f, sm in pmap(_work, jobs):
        st['cases'] += s['cases']
        st['nontrivial'] += s['nontrivial']
        failures += f
        samples += sm
    return bitem(PROP, 'semantics-matrix', function=FUNCTION,
                 domain=f'{len(ACTION_GRAMMARS)} grammars (+ their @nomemo twins) x all inputs over 2-3 letter alphabets up to length 3-4 x '
                        f'semantics kinds {", ".join(KINDS)} (raising: KeyError, ValueError, a custom class) x model / generated parser',
                 bound='input length <= 4', cases=st['cases'], distinct_nontrivial=st['nontrivial'],
                 rule='a case is (grammar, input, semantics kind, parser); non-trivial = at least one action ran', exhaustive=True,
                 samples=samples[:3], failures=failures,
                 note='actions against the documented semantics (specpeg with actions): result replaces the rule value, FailedSemantics fails like a '
                      'syntax mismatch, other exceptions reach the caller, identity actions change nothing, @nomemo rules call their action every time')


def main(argv=None):
    argv = argv or sys.argv[1:]
    t0 = time.time()
    items = run(argv[0] if argv else 'quick')
    for it in items:
        print(it.status, it.id, it.extra.get('cases'), (it.detail or '')[:200], str(it.witness)[:300] if it.status != 'clean' else '')
    print(f'{time.time() - t0:.1f}s')


if __name__ == '__main__':
    main()
