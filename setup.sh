#!/bin/bash
# Build the offline python 3.12 overlay venv used by every check (repo deps come from /venv via a .pth).
set -e
cd "$(dirname "$0")"
if [ -x .venv/bin/python ] && .venv/bin/python -c "import z3, jsonschema, tatsu" 2>/dev/null; then
  exit 0
fi
rm -rf .venv
/venv/bin/python -m venv .venv
PIP_NO_INDEX=1 .venv/bin/pip install -q --no-index --find-links /opt/veriftools/wheels \
    z3-solver cvc5 crosshair-tool deal icontract jsonschema hypothesis >/dev/null
echo "import site; site.addsitedir('/venv/lib/python3.12/site-packages')" \
    > .venv/lib/python3.12/site-packages/_repo_deps.pth
.venv/bin/python -c "import z3, jsonschema, tatsu; print('verif venv ready: z3', z3.get_version_string())"
