from . import contract

F = 'tatsu/contexts/cst.py'
P = ['C01', 'C02', 'C03', 'C05']


def register(reg):
    contract(reg, f'{F}:islist', P, {'o': 'Val'}, ret='bool',
             ensures=[('property', 'result == spec_islist(o)')])
    contract(reg, f'{F}:cstfinal', P, {'cst': 'Val'}, ret='Val',
             ensures=[('property', 'result == spec_cstfinal(cst)'),
                      ('property', 'not spec_islist(result)')])
    contract(reg, f'{F}:cstadd', P, {'cst': 'Val', 'node': 'Val'}, ret='Val',
             ensures=[('property', 'result == spec_cstadd(cst, node)')])
    contract(reg, f'{F}:cstaddlist', P, {'cst': 'Val', 'node': 'Val'}, ret='Val',
             ensures=[('property', 'result == spec_cstaddlist(cst, node)'),
                      ('property', 'spec_islist(result)')])
    contract(reg, f'{F}:cstmerge', P, {'cst': 'Val', 'other': 'Val'}, ret='Val',
             ensures=[('property', 'result == spec_cstmerge(cst, other)')])
