"""tatsu/ztyle/style.py -- C20: the escape assembly; with colour disabled the output is the text itself."""
from . import contract

F = 'tatsu/ztyle/style.py'


def register(reg):
    contract(reg, f'{F}:Style.apply_style', ['C20'], {'self': 'StyleP', 'text': 'str', 'force': 'bool'}, ret='str', modifies=[],
             defaults={'force': False},
             ensures=[('property', 'implies(text != "" and not (self.enabled or force), result == text)'),
                      ('property', 'result == spec_styled(self, text, force)')])
    contract(reg, f'{F}:Style.apply', ['C20'], {'self': 'StyleP', 'text': 'str', 'fmt': 'Val'}, ret='str', modifies=[],
             defaults={'fmt': None}, requires=['fmt is None or isinstance(fmt, str)', 'self._fmt is None or isinstance(self._fmt, str)'],
             ensures=[('property', 'implies(text == "", result == "")'),
                      ('property', 'implies(text != "" and fmt, result == spec_styled(self, format(text, fmt), False))'),
                      ('property', 'implies(text != "" and not fmt and self._fmt, result == spec_styled(self, format(text, self._fmt), False))'),
                      ('property', 'implies(text != "" and not fmt and not self._fmt, result == spec_styled(self, text, False))')])
    # the property's first clause: the format spec is applied to the TEXT, the result is styled once
    contract(reg, f'{F}:Style.__format__', ['C20'], {'self': 'StyleP', 'format_spec': 'str'}, ret='str', modifies=[],
             requires=['self._fmt is None or isinstance(self._fmt, str)'],
             ensures=[('property', 'implies(self.value != "" and format_spec != "", result == spec_styled(self, format(self.value, format_spec), False))')])
    contract(reg, f'{F}:Style.__str__', ['C20'], {'self': 'StyleP'}, ret='str', modifies=[],
             requires=['self._fmt is None or isinstance(self._fmt, str)'],
             ensures=[('property', 'implies(self.value != "" and not self._fmt, result == spec_styled(self, self.value, False))')])
