"""tatsu/contexts/state.py -- parse frames and the frame stack (C01 C02 C05)."""
from . import contract

F = 'tatsu/contexts/state.py'
T = 'tatsu/input/textlines.py'
P = ['C01', 'C02', 'C05']

SAME_CURSOR_BUT_POS = ['self.cursor.len == old_self.cursor.len', 'self.cursor.textstr == old_self.cursor.textstr',
                       'self.cursor.input == old_self.cursor.input']


def register(reg):
    contract(reg, f'{T}:TextLinesCursor.goto', P + ['C09', 'C08'], {'self': 'Cursor', 'pos': 'int'}, ret='None', modifies=['self'], wf=False,
             ensures=[('property', 'self.pos == max(0, min(self.len, pos))'),
                      'self.len == old_self.len', 'self.textstr == old_self.textstr', 'self.input == old_self.input', 'self._namechars == old_self._namechars'])
    contract(reg, f'{T}:TextLinesCursor.clone', P, {'self': 'Cursor'}, ret='Cursor', verify=False, wf=False,
             ensures=['result == self'], note='`type(self)(self.input, pos=self.pos)`: a cursor on the same text at the same position')

    # --- ParseState (a frame)
    contract(reg, f'{F}:ParseState.append', P, {'self': 'Frame', 'node': 'Val'}, ret='Val', modifies=['self'],
             ensures=[('property', 'self.cst == spec_cstadd(old_self.cst, node)'), 'self.last_node == node', 'result == node',
                      'self.cursor == old_self.cursor', 'self.ast == old_self.ast', ('property', 'self.cutseen == old_self.cutseen'),
                      'self.alerts == old_self.alerts'])
    contract(reg, f'{F}:ParseState.extend', P, {'self': 'Frame', 'node': 'Val'}, ret='Val', modifies=['self'],
             ensures=[('property', 'self.cst == spec_cstmerge(old_self.cst, node)'), 'self.last_node == node', 'result == node',
                      'self.cursor == old_self.cursor', 'self.ast == old_self.ast', ('property', 'self.cutseen == old_self.cutseen'),
                      'self.alerts == old_self.alerts'])
    contract(reg, f'{F}:ParseState.merge', P, {'self': 'Frame', 'prev': 'Frame'}, ret='any', modifies=['self'],
             ensures=[('property', 'self == spec_merged(old_self, prev)'),
                      ('property', 'self.cutseen == old_self.cutseen')])
    contract(reg, f'{F}:ParseState.fold', P, {'self': 'Frame'}, ret='Val',
             ensures=[('property', "result == (spec_cstfinal(self.cst) if not self.ast else "
                                   "(dict_get(self.ast, '__vallue__') if dict_has(self.ast, '__vallue__') else self.ast))")])
    contract(reg, f'{F}:ParseState.nameset', P, {'self': 'Frame', 'name': 'str'}, ret='None', modifies=['self'],
             ensures=[('property', 'self.ast == dict_with(old_self.ast, uf_safekey(name), spec_cstadd(dict_get(old_self.ast, uf_safekey(name)), self.last_node))'),
                      'self.cst == old_self.cst', 'self.cursor == old_self.cursor', 'self.cutseen == old_self.cutseen',
                      'self.last_node == old_self.last_node', 'self.alerts == old_self.alerts'])
    contract(reg, f'{F}:ParseState.nameadd', P, {'self': 'Frame', 'name': 'str'}, ret='None', modifies=['self'],
             ensures=[('property', 'self.ast == dict_with(old_self.ast, uf_safekey(name), spec_cstaddlist(dict_get(old_self.ast, uf_safekey(name)), self.last_node))'),
                      'self.cst == old_self.cst', 'self.cursor == old_self.cursor', 'self.cutseen == old_self.cutseen',
                      'self.last_node == old_self.last_node', 'self.alerts == old_self.alerts'])

    # define(): the names a rule may bind are pre-bound -- list names to [], the others to None -- unless they are bound already;
    # bindings that exist are kept (C01, docs/ast.rst)
    LK = 'any(uf_safekey(strval(list_keys[j])) == s for j in range(0, len(list_keys)))'
    SK = 'any(uf_safekey(strval(keys[j])) == s for j in range(0, len(keys)))'
    STR = ['all(isinstance(keys[j], str) for j in range(0, len(keys)))', 'all(isinstance(list_keys[j], str) for j in range(0, len(list_keys)))']
    REST = ['self.cst == old_self.cst', 'self.cursor == old_self.cursor', 'self.cutseen == old_self.cutseen',
            'self.last_node == old_self.last_node', 'self.alerts == old_self.alerts']
    contract(reg, f'{F}:ParseState.define#lists', ['C01', 'C02'], {'self': 'Frame', 'keys': 'seq', 'list_keys': 'seq'}, ret='any', modifies=['self'],
             requires=STR,
             ensures=[('property', f'forall_keys(self.ast, lambda s: self.ast.dkeys[s] == (old_self.ast.dkeys[s] or {LK} or {SK}))'),
                      ('property', f'forall_keys(self.ast, lambda s: implies(old_self.ast.dkeys[s], self.ast.dvals[s] == old_self.ast.dvals[s]))'),
                      ('property', f'forall_keys(self.ast, lambda s: implies(not old_self.ast.dkeys[s] and {LK}, self.ast.dvals[s] == []))'),
                      ('property', f'forall_keys(self.ast, lambda s: implies(not old_self.ast.dkeys[s] and not {LK} and {SK}, self.ast.dvals[s] is None))'),
                      *REST])
    contract(reg, f'{F}:ParseState.define#nolist', ['C01', 'C02'], {'self': 'Frame', 'keys': 'seq', 'list_keys': 'None'}, ret='any', modifies=['self'],
             requires=STR[:1], defaults={'list_keys': None},
             ensures=[('property', f'forall_keys(self.ast, lambda s: self.ast.dkeys[s] == (old_self.ast.dkeys[s] or {SK}))'),
                      ('property', f'forall_keys(self.ast, lambda s: implies(old_self.ast.dkeys[s], self.ast.dvals[s] == old_self.ast.dvals[s]))'),
                      ('property', f'forall_keys(self.ast, lambda s: implies(not old_self.ast.dkeys[s] and {SK}, self.ast.dvals[s] is None))'),
                      *REST])

    # --- ParseStateStack
    contract(reg, f'{F}:ParseStateStack.undo', P, {'self': 'States'}, ret='Frame', modifies=['self.state_stack'],
             ensures=[('property', 'result == old_self.state_stack[-1]'),
                      ('property', 'self.state_stack == old_self.state_stack[:-1]')])
    contract(reg, f'{F}:ParseStateStack.pop', P, {'self': 'States{state_stack=stack[Frame,2]}'}, ret='Frame', modifies=['self.state_stack'],
             requires=['len(self.state_stack) >= 2'],
             ensures=[('property', 'result == old_self.state_stack[-1]'),
                      ('property', 'self.state_stack == old_self.state_stack[:-2] + [spec_goto(old_self.state_stack[-2], old_self.state_stack[-1].cursor.pos)]')])
    fresh = ['len(self.state_stack) == len(old_self.state_stack) + 1',
             ('property', 'self.state_stack[:-1] == old_self.state_stack'),
             ('property', 'self.state_stack[-1].cursor == old_self.state_stack[-1].cursor'),
             ('property', 'self.state_stack[-1].cst is None'),
             ('property', 'not self.state_stack[-1].cutseen'),
             'self.state_stack[-1].last_node is None', 'len(self.state_stack[-1].alerts) == 0']
    contract(reg, f'{F}:ParseStateStack.push', P, {'self': 'States'}, ret='any', modifies=['self.state_stack'],
             ensures=[('property', 'self.state_stack == old_self.state_stack + [spec_fresh(old_self.state_stack[-1])]')])
    contract(reg, f'{F}:ParseStateStack.new', P, {'self': 'States'}, ret='any', modifies=['self.state_stack'],
             ensures=[('property', 'self.state_stack == old_self.state_stack + [spec_with_ast(spec_fresh(old_self.state_stack[-1]), AST())]')])
    contract(reg, f'{F}:ParseStateStack.merge', P, {'self': 'States{state_stack=stack[Frame,2]}'}, ret='any', modifies=['self.state_stack'],
             requires=['len(self.state_stack) >= 2'],
             ensures=[('property', 'self.state_stack == old_self.state_stack[:-2] + [spec_merged(old_self.state_stack[-2], old_self.state_stack[-1])]')])
