"""Lexical level (docs/syntax.rst: tokens, nameguard, @@namechars, @@ignorecase).  Symbolic-only."""


def spec_is_name_char(cur, c):
    return c.isalnum() or c in cur.input._namechar_set


def spec_token_matches(cur, p, token):
    """the text at p starts with token (case-folded iff ignorecase) and, under nameguard, an
    alphanumeric token is not directly followed by a name character"""
    return (len(token) > 0
            and (cur.textstr[p:p + len(token)].lower() == token.lower() if cur.input.ignorecase
                 else cur.textstr[p:p + len(token)] == token)
            and not (cur.input.nameguard and p + len(token) < cur.len
                     and spec_is_name_char(cur, cur.textstr[p + len(token)]) and uf_is_name(cur.input._namechar_set, token)))


def uf_is_name(namechars, s) -> 'bool':
    """s is a name: starts with a letter or name character and continues with alphanumerics / name characters"""
    raise NotImplementedError


def uf_re_end(text, pos, regex) -> 'int':
    """end of the match of `regex` at `pos` (re.match semantics), -1 when there is no match"""
    raise NotImplementedError


def spec_stable(cur, p, regex):
    """no non-empty match of regex at p (a falsy regex -- None or '' -- means: no pattern configured)"""
    return (not regex) or uf_re_end(cur.textstr, p, regex) < 0 or uf_re_end(cur.textstr, p, regex) == p


def spec_is_name_char_b(cur, c):
    return c.isalnum() or c in cur.buffer._namechar_set


def spec_token_matches_b(cur, p, token):
    """the same token rule for the Buffer cursor"""
    return (len(token) > 0
            and (cur.textstr[p:p + len(token)].lower() == token.lower() if cur.buffer.ignorecase
                 else cur.textstr[p:p + len(token)] == token)
            and not (cur.buffer.nameguard and p + len(token) < cur.len
                     and spec_is_name_char_b(cur, cur.textstr[p + len(token)]) and uf_is_name(cur.buffer._namechar_set, token)))
