"""tatsu/contexts/engine.py + core.py: the rule layer -- memoization (C04), semantic actions (C06),
reserved words (C11), left recursion (C03)."""
from . import contract

E = 'tatsu/contexts/engine.py'
K = 'tatsu/contexts/core.py'
S = 'self.states.state_stack'
OS = 'old_self.states.state_stack'
OTOP = f'{OS}[-1]'
TOP = f'{S}[-1]'
SAME = f'{S} == {OS}'
GROW = f'grown({S}, {OS})'
REQ = [f'len({S}) >= 1']
FRESH = f'spec_fresh({OTOP})'


def register(reg):
    register2(reg)
    register3(reg)
    # ---------------------------------------------------------------- memo table access (C04)
    contract(reg, f'{K}:ParserCore.memo', ['C04', 'C03'], {'self': 'Ctx', 'key': 'MemoKeyR'}, ret='Outcome', modifies=[], wf=False,
             ensures=[('property', 'result == (self._memos.mvals[key] if self._memos.mkeys[key] else o_none())')])
    contract(reg, f'{K}:ParserCore.memoize', ['C04', 'C03', 'C06'], {'self': 'Ctx', 'key': 'MemoKeyR', 'memo': 'Outcome'}, ret='Outcome',
             modifies=['self._memos'], wf=False, requires=['memo_ok(self._memos)', 'implies(is_err(memo), is_failure(memo, "ParseException"))'],
             ensures=[('property', 'result == memo'), 'memo_ok(self._memos)',
                      ('property', 'implies(key.ruleinfo.is_memo and not key.ruleinfo.no_memo and self._active_config.memoization, '
                                   'self._memos.mkeys == store(old_self._memos.mkeys, key, True) and self._memos.mvals == store(old_self._memos.mvals, key, memo))'),
                      ('property', 'implies(not (key.ruleinfo.is_memo and not key.ruleinfo.no_memo and self._active_config.memoization), '
                                   'self._memos.mkeys == old_self._memos.mkeys and self._memos.mvals == old_self._memos.mvals)')])
    # ---------------------------------------------------------------- reserved words (C11)
    KW = ('(uf_keyword_text(name).upper() if self._active_config.ignorecase else uf_keyword_text(name)) in self.keywords')
    contract(reg, f'{E}:ParserEngine.validate_is_not_keyword', ['C11', 'C06'], {'self': 'Ctx', 'name': 'Val'}, ret='None', modifies=[],
             requires=REQ,
             ensures=[('property', f'not ({KW})')],
             raises={'KeywordError': [('property', KW)]})


def register2(reg):
    ACT = 'uf_action(self.semantics, ri.name)'
    contract(reg, 'ACTION', ['C06', 'C11'], {'f': 'func:ACTION', 'node': 'Val', 'params': 'Val', 'kwparams': 'Val'}, ret='Val', generic=True,
             modifies=[],
             ensures=['result == uf_act_ret(f, node, params, kwparams)', 'not uf_act_fails(f, node, params, kwparams)'],
             raises={'FailedSemantics': ['uf_act_fails(f, node, params, kwparams)']},
             propagates=['True'],
             note='a semantic action: returns a value, raises FailedSemantics, or raises anything else (which must reach the caller unchanged)')
    contract(reg, f'{K}:find_cached_semantic_action', ['C06', 'C11'], {'semantics': 'opaque:Semantics', 'name': 'str'}, ret='optfunc:ACTION',
             verify=False, modifies=[],
             ensures=['(result is not None) == uf_has_action(semantics, name)',
                      'implies(result is not None, same_func(result, uf_action(semantics, name)))'],
             note='getattr-based lookup of the action named after the rule / _default (reflection); bounded check B:C06/action-lookup')
    contract(reg, f'{E}:ParserEngine.make_parseinfo', ['C06', 'C12'], {'self': 'Ctx', 'name': 'Val', 'pos': 'int'}, ret='Val', verify=False,
             modifies=[], ensures=[], note='builds a ParseInfo tuple (C12 checks its content in a bounded run)')
    contract(reg, f'{E}:ParserEngine.set_parseinfo', ['C06', 'C04', 'C12'], {'self': 'Ctx', 'node': 'Val', 'name': 'str', 'pos': 'int'}, ret='None',
             verify=False, modifies=[], ensures=[],
             note='only adds the parseinfo entries to the node (hasattr-based); C04/C12 check that in bounded runs')
    # C06: the action receives the rule AST and its result replaces it; C11: keyword check first, iff @name
    KWN = '(uf_keyword_text(node).upper() if self._active_config.ignorecase else uf_keyword_text(node)) in self.keywords'
    contract(reg, f'{E}:ParserEngine.semantics_call', ['C06', 'C11'],
             {'self': 'Ctx', 'ri': 'RuleInfoR', 'node': 'Val', 'pos': 'int'}, ret='Val', modifies=[], requires=REQ,
             ensures=[('property', f'not (ri.is_name and ({KWN}))'),
                      ('property', f'implies(uf_has_action(self.semantics, ri.name), result == uf_act_ret({ACT}, node, ri.params, ri.kwparams))'),
                      ('property', 'implies(not uf_has_action(self.semantics, ri.name), result == node)')],
             raises={'KeywordError': [('property', f'ri.is_name and ({KWN})')],
                     'FailedSemantics': [f'not (ri.is_name and ({KWN}))', 'uf_has_action(self.semantics, ri.name)',
                                         f'uf_act_fails({ACT}, node, ri.params, ri.kwparams)']},
             propagates=['True'])
    # the rule body runs in its own scope; its value is the fold of that scope (docs/ast.rst)
    B = FRESH
    contract(reg, f'{E}:ParserEngine.func_call', ['C01', 'C06'], {'self': 'Ctx', 'ri': 'RuleInfoR'}, ret='Val', requires=REQ,
             ensures=[('property', f'out_ok(ri.func, {B})'),
                      ('property', f'{S} == {OS}[:-1] + [spec_merged({OTOP}, out_frame(ri.func, {B}))]'),
                      ('property', f'result == spec_fold(out_frame(ri.func, {B}))')],
             raises={'FailedParse': [f'not out_ok(ri.func, {B})', SAME]},
             propagates=[GROW])


def register3(reg):
    MEMO_OLD = '(old_self._memos.mvals[key] if old_self._memos.mkeys[key] else o_none())'
    contract(reg, f'{E}:ParserEngine.set_left_recursion_guard', ['C03', 'C04'], {'self': 'Ctx', 'key': 'MemoKeyR'}, ret='None',
             modifies=['self._memos'], requires=REQ + ['memo_ok(self._memos)'],
             ensures=['memo_ok(self._memos)', ('property', 'implies(not self._active_config.left_recursion, self._memos.mkeys == old_self._memos.mkeys and self._memos.mvals == old_self._memos.mvals)'),
                      ('property', 'implies(self._active_config.left_recursion and key.ruleinfo.is_memo and not key.ruleinfo.no_memo and self._active_config.memoization, '
                                   'self._memos.mkeys[key] and is_failure(self._memos.mvals[key], "FailedLeftRecursion"))')])
    # rule_call: the caller's frames are untouched on every TatSu exit; a remembered outcome is replayed
    # without running the body; FailedSemantics becomes a parse failure (C06); the key identifies the callee (C04)
    contract(reg, f'{E}:ParserEngine.rule_call', ['C01', 'C03', 'C04', 'C06', 'C11'],
             {'self': 'Ctx', 'ri': 'RuleInfoR', 'key': 'MemoKeyR'}, ret='RuleResultR',
             modifies=['self.states.state_stack', 'self._memos'],
             requires=REQ + ['key.ruleinfo == ri', 'memo_ok(self._memos)'],
             ensures=[('property', SAME), 'memo_ok(self._memos)',
                      ('property', f'implies(is_ok({MEMO_OLD}), result == ok_res({MEMO_OLD}) and self._memos.mkeys == old_self._memos.mkeys and self._memos.mvals == old_self._memos.mvals)'),
                      ('property', f'not is_err({MEMO_OLD})')],
             raises={'ParseException': [('property', SAME), 'memo_ok(self._memos)']},
             propagates=[GROW])
