"""tatsu/contexts/engine.py + core.py: the rule layer -- memoization (C04), semantic actions (C06),
reserved words (C11), left recursion (C03)."""
from . import contract

E = 'tatsu/contexts/engine.py'
K = 'tatsu/contexts/core.py'
S = 'self.states.state_stack'
OS = 'old_self.states.state_stack'
OTOP = f'{OS}[-1]'
TOP = f'{S}[-1]'
SAME = f'{S} == {OS}'
GROW = f'grown({S}, {OS})'
REQ = [f'len({S}) >= 1']
FRESH = f'spec_fresh({OTOP})'


def register(reg):
    register2(reg)
    register3(reg)
    register4(reg)
    register5(reg)
    # ---------------------------------------------------------------- memo table access (C04)
    contract(reg, f'{K}:ParserCore.memo', ['C04', 'C03'], {'self': 'Ctx', 'key': 'MemoKeyR'}, ret='Outcome', modifies=[], wf=False,
             ensures=[('property', 'result == (self._memos.mvals[key] if self._memos.mkeys[key] else o_none())')])
    contract(reg, f'{K}:ParserCore.memoize', ['C04', 'C03', 'C06'], {'self': 'Ctx', 'key': 'MemoKeyR', 'memo': 'Outcome'}, ret='Outcome',
             modifies=['self._memos'], wf=False, requires=['memo_ok(self._memos, self.textlen)', 'outcome_ok(memo, self.textlen)'],
             ensures=[('property', 'result == memo'), 'memo_ok(self._memos, self.textlen)',
                      ('property', 'implies(key.ruleinfo.is_memo and not key.ruleinfo.no_memo and self._active_config.memoization, '
                                   'self._memos.mkeys == store(old_self._memos.mkeys, key, True) and self._memos.mvals == store(old_self._memos.mvals, key, memo))'),
                      ('property', 'implies(not (key.ruleinfo.is_memo and not key.ruleinfo.no_memo and self._active_config.memoization), '
                                   'self._memos.mkeys == old_self._memos.mkeys and self._memos.mvals == old_self._memos.mvals)')])
    # ---------------------------------------------------------------- reserved words (C11)
    KW = ('(uf_keyword_text(name).upper() if self._active_config.ignorecase else uf_keyword_text(name)) in self.keywords')
    contract(reg, f'{E}:ParserEngine.validate_is_not_keyword', ['C11', 'C06'], {'self': 'Ctx', 'name': 'Val'}, ret='None', modifies=[],
             requires=REQ,
             ensures=[('property', f'not ({KW})')],
             raises={'KeywordError': [('property', KW)]})


def register2(reg):
    ACT = 'uf_action(self.semantics, ri.name)'
    contract(reg, 'ACTION', ['C06', 'C11'], {'f': 'func:ACTION', 'node': 'Val', 'params': 'Val', 'kwparams': 'Val'}, ret='Val', generic=True,
             modifies=[],
             ensures=['result == uf_act_ret(f, node, params, kwparams)', 'not uf_act_fails(f, node, params, kwparams)'],
             raises={'FailedSemantics': ['uf_act_fails(f, node, params, kwparams)']},
             propagates=['True'],
             note='a semantic action: returns a value, raises FailedSemantics, or raises anything else (which must reach the caller unchanged)')
    contract(reg, f'{K}:find_cached_semantic_action', ['C06', 'C11'], {'semantics': 'opaque:Semantics', 'name': 'str'}, ret='optfunc:ACTION',
             verify=False, modifies=[],
             ensures=['(result is not None) == uf_has_action(semantics, name)',
                      'implies(result is not None, same_func(result, uf_action(semantics, name)))'],
             note='getattr-based lookup of the action named after the rule / _default (reflection); bounded check B:C06/action-lookup')
    # C12: the parse information of a rule exit: its name, the start offset it was given, the end offset = the position now,
    # the line numbers of exactly those offsets (lineat is proved separately on the line-cache view of the cursor)
    contract(reg, 'tatsu/input/textlines.py:TextLinesCursor.lineat#rec', ['C12'], {'self': 'Cursor', 'pos': 'int'}, ret='int', verify=False, pure=True,
             modifies=[], wf=False, note='record view of the cursor: the line number is a function of (text object, offset); the function itself is '
                                        'proved on the line-cache view (lineat#pos / lineat#none)')
    TOPF = 'self.states.state_stack[-1]'
    contract(reg, f'{E}:ParserEngine.make_parseinfo#off', ['C06', 'C12'], {'self': 'Ctx', 'name': 'Val', 'pos': 'int'}, ret='None',
             guard='not self._active_config.parseinfo', modifies=[], requires=REQ, ensures=[])
    contract(reg, f'{E}:ParserEngine.make_parseinfo#on', ['C06', 'C12'], {'self': 'Ctx', 'name': 'Val', 'pos': 'int'}, ret='ParseInfoR',
             guard='self._active_config.parseinfo', modifies=[], requires=REQ,
             ensures=[('property', f'result.rule == name and result.pos == pos and result.endpos == {TOPF}.cursor.pos'),
                      ('property', f'result.line == {TOPF}.cursor.lineat(pos) and result.endline == {TOPF}.cursor.lineat({TOPF}.cursor.pos)'),
                      ('property', f'result.cursor == {TOPF}.cursor and result.alerts == {TOPF}.alerts')])
    contract(reg, f'{E}:ParserEngine.set_parseinfo', ['C06', 'C04', 'C12'], {'self': 'Ctx', 'node': 'Val', 'name': 'str', 'pos': 'int'}, ret='None',
             verify=False, modifies=['self.ghost_stamped'], ensures=['self.ghost_stamped == node'],
             note='only adds the parseinfo entries to the node (hasattr-based); C04/C12 check that in bounded runs')
    # C06: the action receives the rule AST and its result replaces it; C11: keyword check first, iff @name
    KWN = '(uf_keyword_text(node).upper() if self._active_config.ignorecase else uf_keyword_text(node)) in self.keywords'
    contract(reg, f'{E}:ParserEngine.semantics_call', ['C06', 'C11'],
             {'self': 'Ctx', 'ri': 'RuleInfoR', 'node': 'Val', 'pos': 'int'}, ret='Val', modifies=[], requires=REQ,
             ensures=[('property', f'not (ri.is_name and ({KWN}))'),
                      ('property', f'implies(uf_has_action(self.semantics, ri.name), result == uf_act_ret({ACT}, node, ri.params, ri.kwparams))'),
                      ('property', 'implies(not uf_has_action(self.semantics, ri.name), result == node)')],
             raises={'KeywordError': [('property', f'ri.is_name and ({KWN})')],
                     'FailedSemantics': [f'not (ri.is_name and ({KWN}))', 'uf_has_action(self.semantics, ri.name)',
                                         f'uf_act_fails({ACT}, node, ri.params, ri.kwparams)']},
             propagates=['True'])
    # the rule body runs in its own scope; its value is the fold of that scope (docs/ast.rst)
    B = FRESH
    contract(reg, f'{E}:ParserEngine.func_call', ['C01', 'C06'], {'self': 'Ctx', 'ri': 'RuleInfoR'}, ret='Val', requires=REQ,
             ensures=[('property', f'out_ok(ri.func, {B})'),
                      ('property', f'{S} == {OS}[:-1] + [spec_merged({OTOP}, out_frame(ri.func, {B}))]'),
                      ('property', f'result == spec_fold(out_frame(ri.func, {B}))')],
             raises={'FailedParse': [f'not out_ok(ri.func, {B})', SAME]},
             propagates=[GROW])


def register3(reg):
    MEMO_OLD = '(old_self._memos.mvals[key] if old_self._memos.mkeys[key] else o_none())'
    contract(reg, f'{E}:ParserEngine.set_left_recursion_guard', ['C03', 'C04', 'C06'], {'self': 'Ctx', 'key': 'MemoKeyR'}, ret='None',
             modifies=['self._memos'], requires=REQ + ['memo_ok(self._memos, self.textlen)'],
             ensures=['memo_ok(self._memos, self.textlen)', ('property', 'implies(not self._active_config.left_recursion, self._memos.mkeys == old_self._memos.mkeys and self._memos.mvals == old_self._memos.mvals)'),
                      ('property', 'implies(self._active_config.left_recursion and key.ruleinfo.is_memo and not key.ruleinfo.no_memo and self._active_config.memoization, '
                                   'self._memos.mkeys[key] and is_failure(self._memos.mvals[key], "FailedLeftRecursion"))'),
                      # the guard goes through memoize(): a rule that keeps no results (@nomemo, memoization off) gets none -- it would
                      # never be replaced by the rule's outcome and be replayed as the rule's result (C04, C06)
                      ('property', 'implies(not (key.ruleinfo.is_memo and not key.ruleinfo.no_memo and self._active_config.memoization), '
                                   'self._memos.mkeys == old_self._memos.mkeys and self._memos.mvals == old_self._memos.mvals)')])
    # rule_call: the caller's frames are untouched on every TatSu exit; a remembered outcome is replayed
    # without running the body; FailedSemantics becomes a parse failure (C06); the key identifies the callee (C04)
    contract(reg, f'{E}:ParserEngine.rule_call', ['C01', 'C03', 'C04', 'C06', 'C11', 'C12'],
             {'self': 'Ctx', 'ri': 'RuleInfoR', 'key': 'MemoKeyR'}, ret='RuleResultR',
             modifies=['self.states.state_stack', 'self._memos', 'self.ghost_stamped'],
             requires=REQ + ['key.ruleinfo == ri', 'memo_ok(self._memos, self.textlen)'],
             ensures=[('property', SAME), 'memo_ok(self._memos, self.textlen)', '0 <= result.newpos', 'result.newpos <= self.textlen',
                      # C12: when the rule body ran, the parse information went to the node that is returned (the action's result)
                      ('property', f'implies(not is_ok({MEMO_OLD}) and not is_err({MEMO_OLD}), self.ghost_stamped == result.node)'),
                      ('property', f'implies(is_ok({MEMO_OLD}), result == ok_res({MEMO_OLD}) and self._memos.mkeys == old_self._memos.mkeys and self._memos.mvals == old_self._memos.mvals)'),
                      ('property', f'not is_err({MEMO_OLD})')],
             raises={'ParseException': [('property', SAME), 'memo_ok(self._memos, self.textlen)',
                                        # C04: the failure that is raised is the failure that is remembered (in particular the left-recursion
                                        # guard planted before the body ran never stays behind as the rule's outcome)
                                        ('property', f'implies(not is_ok({MEMO_OLD}) and not is_err({MEMO_OLD}) and key.ruleinfo.is_memo and '
                                                     'not key.ruleinfo.no_memo and self._active_config.memoization, '
                                                     'self._memos.mkeys[key] and is_err(self._memos.mvals[key]) and '
                                                     'err_id(self._memos.mvals[key]) == exc_id(exc))')]},
             propagates=[GROW])


def register4(reg):
    LEN = 'self.textlen'
    MOK = f'memo_ok(self._memos, {LEN})'
    ROK = f'memo_ok(self._results, {LEN})'
    contract(reg, f'{K}:ParserCore.heartbeat', ['C01', 'C03', 'C04'], {'self': 'Ctx'}, ret='bool', verify=False, modifies=[], wf=False,
             note='progress callback; assumed not to touch the parse state (may raise HeartDied, a TatSu error)')
    contract(reg, f'{K}:ParserCore.set_furthest_exception', ['C01', 'C08', 'C04'], {'self': 'Ctx', 'e': 'any'}, ret='None', verify=False, wf=False,
             modifies=['self.ghost_recorded'], ensures=['self.ghost_recorded == exc_id(e)'],
             note='keeps the failure with the largest position for error reporting; not part of the parse state')
    contract(reg, f'{E}:ParserEngine.clear_recursion_errors', ['C03', 'C04'], {'self': 'Ctx'}, ret='None', modifies=['self._memos'], wf=False,
             ensures=['submap(self._memos, old_self._memos)'])
    contract(reg, f'{E}:ParserEngine.save_result', ['C03'], {'self': 'Ctx', 'key': 'MemoKeyR', 'result': 'RuleResultR'}, ret='None',
             modifies=['self._results'], wf=False,
             ensures=[('property', 'self._results.mkeys == store(old_self._results.mkeys, key, True)'),
                      ('property', 'self._results.mvals == store(old_self._results.mvals, key, o_ok(RuleResultR(node=spec_cstfinal(result.node), newpos=result.newpos)))')])
    # C03: the seed-growing loop terminates for every input (measure), returns the last seed that advanced,
    # restores the position each round and leaves the caller's frames untouched
    SEED = ('implies({c}, self._results.mkeys[key] and is_ok(self._results.mvals[key]) and '
            'ok_res(self._results.mvals[key]).newpos == {r}.newpos and spec_cstfinal(ok_res(self._results.mvals[key]).node) == spec_cstfinal({r}.node))')
    contract(reg, f'{E}:ParserEngine.recursive_call', ['C03', 'C04'], {'self': 'Ctx', 'ri': 'RuleInfoR', 'key': 'MemoKeyR'}, ret='RuleResultR',
             modifies=['self.states.state_stack', 'self._memos', 'self._results', 'self.ghost_stamped'],
             requires=REQ + ['key.ruleinfo == ri', MOK, ROK],
             invariants={0: [SAME, MOK, ROK, 'lastpos >= -1', f'lastpos <= {LEN}', f'initial == {OTOP}.cursor.pos',
                             'implies(lastpos < 0, is_failure(result, "FailedLeftRecursion"))',
                             'implies(lastpos >= 0, is_ok(result) and ok_res(result).newpos == lastpos)',
                             SEED.format(r='ok_res(result)', c='lastpos >= 0')]},
             decreases={0: f'{LEN} - lastpos'},
             ensures=[('property', SAME), MOK, ROK, f'0 <= result.newpos', f'result.newpos <= {LEN}',
                      # what a later invocation of the rule at this position gets is the grown result that was returned, not the
                      # shorter result of the round that no longer advanced
                      ('property', SEED.format(r='result', c='ri.is_lrec'))],
             raises={'ParseException': [('property', SAME), MOK, ROK]},
             propagates=[GROW])
    # C01/C04/C05/C09: one rule invocation as its caller sees it
    WS = f'uf_ws_end({OTOP}.cursor)'
    START = f'({OTOP}.cursor.pos if ri.is_tokn else {WS})'
    contract(reg, f'{E}:ParserEngine.call', ['C01', 'C03', 'C04', 'C05', 'C06', 'C09'], {'self': 'Ctx', 'ri': 'RuleInfoR'}, ret='Val',
             modifies=['self.states.state_stack', 'self.states.callstack', 'self._memos', 'self._results', 'self.ghost_stamped', 'self.ghost_recorded'],
             requires=REQ + [MOK, ROK],
             ensures=[f'top_only({S}, {OS})', f'spec_same_text({OTOP}, {TOP})',
                      ('property', f'{TOP}.cst == spec_cstadd({OTOP}.cst, result)'),
                      ('property', f'{TOP}.ast == {OTOP}.ast'),
                      ('property', f'{TOP}.cutseen == {OTOP}.cutseen'),
                      ('property', 'self.states.callstack == old_self.states.callstack'), MOK, ROK],
             raises={'FailedParse': [('property', f'{S} == {OS}[:-1] + [spec_at({OTOP}, {START})]'),
                                     'self.states.callstack == old_self.states.callstack', MOK, ROK,
                                     # C04: the failure is recorded for error reporting at every failing invocation
                                     ('property', 'self.ghost_recorded == exc_id(exc)')],
                     'ParseException': ['self.states.callstack == old_self.states.callstack']},
             propagates=[GROW, 'self.states.callstack == old_self.states.callstack'])


def register5(reg):
    # C11: the keyword table of a parse is the one of the configuration ACTIVE for that parse (so that the
    # normalisation under ignorecase, done per configuration, and the lookup agree)
    contract(reg, f'{K}:ParserCore._initialize_caches', ['C11', 'C10', 'C04'], {'self': 'Ctx'}, ret='None', verify=False, wf=False,
             modifies=['self._memos', 'self._results', 'self.states.state_stack', 'self.states.callstack', 'self.textlen'],
             ensures=['len(self.states.state_stack) == 1', 'len(self.states.callstack) == 0',
                      'spec_frame_wf(self.states.state_stack[-1])', 'self.states.state_stack[-1].cursor.len == self.textlen'],
             note='allocates the memo tables (BoundedDict) and a fresh state stack of one frame; C10 checks the idle state in a bounded run')
    contract(reg, f'{K}:ParserCore._reset', ['C11', 'C10'], {'self': 'Ctx'}, ret='None', wf=False,
             modifies=['self._memos', 'self._results', 'self.states.state_stack', 'self.states.callstack', 'self.keywords', 'self.semantics', 'self.textlen'],
             ensures=[('property', 'implies(not self._active_config.ignorecase, self.keywords == self._active_config.keywords)'),
                      # under ignorecase the table holds exactly the upper-cased keywords (C11: compared case-insensitively)
                      ('local', 'implies(self._active_config.ignorecase, forall_keys(self.keywords, lambda k: '
                                   'implies(k in self._active_config.keywords, k.upper() in self.keywords)))'),
                      ('local', 'implies(self._active_config.ignorecase, forall_keys(self.keywords, lambda s: implies(s in self.keywords, '
                                   'exists_key(self.keywords, lambda k: k in self._active_config.keywords and k.upper() == s))))'),
                      'len(self.states.state_stack) == 1', 'len(self.states.callstack) == 0',
                      'spec_frame_wf(self.states.state_stack[-1])', 'self.states.state_stack[-1].cursor.len == self.textlen'])
