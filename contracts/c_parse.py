"""The generic contract PARSE of every parse function (`Model._parse`, generated closures,
`exp: Func` parameters) -- DESIGN 2.2 -- and the grammar-model nodes of tatsu/peg/."""
from . import contract

ALL = ['C01', 'C02', 'C03', 'C05', 'C06']
TOP = 'ctx.states.state_stack[-1]'
OTOP = 'old_ctx.states.state_stack[-1]'

DEPTH = 'len(ctx.states.state_stack) == len(old_ctx.states.state_stack)'
BELOW = 'ctx.states.state_stack[:-1] == old_ctx.states.state_stack[:-1]'
SAME = 'ctx.states.state_stack == old_ctx.states.state_stack'
GROW = 'grown(ctx.states.state_stack, old_ctx.states.state_stack)'


def register(reg):
    contract(
        reg, 'PARSE', ALL, {'f': 'func:PARSE', 'ctx': 'Ctx'}, ret='Val', generic=True,
        requires=['len(ctx.states.state_stack) >= 1'],
        modifies=['ctx.states.state_stack'],
        ensures=[f'ctx.states.state_stack == old_ctx.states.state_stack[:-1] + [out_frame(f, {OTOP})]',
                 f'out_ok(f, {OTOP})', f'result == out_ret(f, {OTOP})',
                 f'spec_same_text({OTOP}, {TOP})',
                 # a parse function that succeeds never moves backwards in the text (what the termination measures rest on)
                 f'{TOP}.cursor.pos >= {OTOP}.cursor.pos',
                 f'{TOP}.cutseen == ({OTOP}.cutseen or out_cut(f, {OTOP}))'],
        raises={'FailedParse': [f'ctx.states.state_stack == old_ctx.states.state_stack[:-1] + [out_fail_frame(f, {OTOP})]',
                                f'not out_ok(f, {OTOP})', f'spec_same_text({OTOP}, {TOP})',
                                f'{TOP}.cutseen == ({OTOP}.cutseen or out_cut(f, {OTOP}))']},
        propagates=[GROW, 'implies(not exc_inside(exc), ctx.states.state_stack == old_ctx.states.state_stack)',
                    f'implies(exc_is(exc, "ParseException"), not out_ok(f, {OTOP}))'],
        note='generic contract of a parse function: depth kept, frames below the top untouched, outcome a function '
             'of (function, top frame, world); on failure only the cut flag of the top frame is meaningful')

    M = 'tatsu/peg/base.py'
    contract(reg, f'{M}:Model._add_defined', ALL, {'self': 'opaque:Model', 'ctx': 'Ctx'}, ret='None', verify=False,
             requires=['len(ctx.states.state_stack) >= 1'], modifies=['ctx.states.state_stack'],
             ensures=[f'ctx.states.state_stack == old_ctx.states.state_stack[:-1] + [spec_with_ast({OTOP}, uf_defined_by({OTOP}.ast, self))]'],
             note='pre-binds the names the node defines (list comprehension over cached properties); bounded check B:C01/defined-names')

    Sx = 'tatsu/peg/syntax.py'
    BODY = f'spec_with_ast(spec_fresh({OTOP}), uf_defined_by({OTOP}.ast, self))'
    contract(
        reg, f'{Sx}:Optional._parse', ALL, {'self': 'opaque:Model', 'ctx': 'Ctx'}, ret='Val',
        requires=['len(ctx.states.state_stack) >= 1'],
        ensures=[
            ('property', f'implies(out_ok(self.exp, {BODY}), '
                         f'ctx.states.state_stack == old_ctx.states.state_stack[:-1] + [spec_merged({OTOP}, out_frame(self.exp, {BODY}))] '
                         f'and result == out_ret(self.exp, {BODY}))'),
            ('property', f'implies(not out_ok(self.exp, {BODY}), '
                         f'not out_cut(self.exp, {BODY}) and {SAME} and result is None)'),
        ],
        raises={'FailedParse': [('not out_ok(self.exp, %s)' % BODY),
                                ('out_cut(self.exp, %s)' % BODY), SAME]},
        propagates=[GROW])


    # ------------------------------------------------------------------ transparent / lookahead nodes
    OSTK = 'old_ctx.states.state_stack'
    STK = 'ctx.states.state_stack'
    REQ = ['len(ctx.states.state_stack) >= 1']
    FRESH = f'spec_fresh({OTOP})'

    def same_as(e, frame=OTOP):
        """the node behaves exactly as parse function `e` applied to the caller's frame"""
        return dict(
            ensures=[('property', f'out_ok({e}, {frame})'),
                     ('property', f'{STK} == {OSTK}[:-1] + [out_frame({e}, {frame})]'),
                     ('property', f'result == out_ret({e}, {frame})')],
            raises={'FailedParse': [f'not out_ok({e}, {frame})', f'{STK} == {OSTK}[:-1] + [out_fail_frame({e}, {frame})]']},
            propagates=[GROW])

    contract(reg, f'{Sx}:Group._parse', ALL, {'self': 'opaque:Model', 'ctx': 'Ctx'}, ret='Val', requires=REQ,
             **same_as('self.exp'))
    contract(reg, f'{M}:Box._parse', ALL, {'self': 'opaque:Model', 'ctx': 'Ctx'}, ret='Val', requires=REQ,
             **same_as('self.exp'))
    # `>rule`: the included rule's expression when the include was linked, else a parse failure on the unchanged state
    RL = 'tatsu/peg/rulelike.py'
    inc = same_as('self._exp')
    contract(reg, f'{RL}:RuleInclude._parse', ['C01', 'C08'], {'self': 'opaque:Model', 'ctx': 'Ctx'}, ret='Val', requires=REQ,
             ensures=[('property', 'self._exp is not None'), *inc['ensures']],
             raises={'FailedParse': [f'(self._exp is None and {SAME}) or (self._exp is not None and not out_ok(self._exp, {OTOP}) and '
                                     f'{STK} == {OSTK}[:-1] + [out_fail_frame(self._exp, {OTOP})])']},
             propagates=[GROW])
    contract(
        reg, f'{Sx}:Lookahead._parse', ALL, {'self': 'opaque:Model', 'ctx': 'Ctx'}, ret='Val', requires=REQ,
        ensures=[('property', f'out_ok(self.exp, {FRESH})'), ('property', SAME),
                 ('property', f'result == out_ret(self.exp, {FRESH})')],
        raises={'FailedParse': [f'not out_ok(self.exp, {FRESH})', SAME]}, propagates=[GROW])
    contract(
        reg, f'{Sx}:NegativeLookahead._parse', ALL, {'self': 'opaque:Model', 'ctx': 'Ctx'}, ret='Val', requires=REQ,
        ensures=[('property', f'not out_ok(self.exp, {FRESH})'), ('property', SAME), ('property', 'result is None')],
        raises={'FailedParse': [f'out_ok(self.exp, {FRESH})', SAME]}, propagates=[GROW])
    contract(
        reg, f'{Sx}:SkipGroup._parse', ALL, {'self': 'opaque:Model', 'ctx': 'Ctx'}, ret='Val', requires=REQ,
        ensures=[('property', f'out_ok(self.exp, {FRESH})'),
                 ('property', f'{STK} == {OSTK}[:-1] + [spec_goto({OTOP}, out_frame(self.exp, {FRESH}).cursor.pos)]'),
                 ('property', 'result is None')],
        raises={'FailedParse': [f'not out_ok(self.exp, {FRESH})', SAME]}, propagates=[GROW])

    # `->e`: e parsed on the first frame of the skipping trajectory that is at the end of the text or where &e holds
    TGT = f'spec_skip_frame(self.exp, {OTOP})'
    contract(
        reg, f'{Sx}:SkipTo._parse', ['C01', 'C02'], {'self': 'opaque:Model', 'ctx': 'Ctx'}, ret='Val', requires=REQ,
        ensures=[('property', f'out_ok(self.exp, {TGT})'), ('property', f'{STK} == {OSTK}[:-1] + [out_frame(self.exp, {TGT})]'),
                 ('property', f'result == out_ret(self.exp, {TGT})')],
        raises={'FailedParse': [f'not out_ok(self.exp, {TGT})', f'{STK} == {OSTK}[:-1] + [out_fail_frame(self.exp, {TGT})]']}, propagates=[GROW])

    # ------------------------------------------------------------------ naming nodes (docs/ast.rst)
    Nm = 'tatsu/peg/named.py'
    OUTF = f'out_frame(self.exp, {OTOP})'

    def bound(key, combine):
        return (f'{STK} == {OSTK}[:-1] + [spec_with_ast({OUTF}, dict_with({OUTF}.ast, uf_safekey({key}), '
                f'{combine}(dict_get({OUTF}.ast, uf_safekey({key})), out_ret(self.exp, {OTOP}))))]')

    fails = {'FailedParse': [f'not out_ok(self.exp, {OTOP})', f'{STK} == {OSTK}[:-1] + [out_fail_frame(self.exp, {OTOP})]']}
    contract(reg, f'{Nm}:Named._parse', ALL, {'self': 'opaque:Model', 'ctx': 'Ctx'}, ret='Val', requires=REQ,
             ensures=[('property', f'out_ok(self.exp, {OTOP})'), ('property', bound('self.name', 'spec_cstadd')),
                      ('property', f'result == out_ret(self.exp, {OTOP})')],
             raises=fails, propagates=[GROW])
    contract(reg, f'{Nm}:NamedList._parse', ALL, {'self': 'opaque:Model', 'ctx': 'Ctx'}, ret='Val', requires=REQ,
             ensures=[('property', f'out_ok(self.exp, {OTOP})'), ('property', bound('self.name', 'spec_cstaddlist')),
                      ('property', f'result == out_ret(self.exp, {OTOP})')],
             raises=fails, propagates=[GROW])
    contract(reg, f'{Nm}:Override._parse', ALL, {'self': 'opaque:Model', 'ctx': 'Ctx'}, ret='Val', requires=REQ,
             ensures=[('property', f'out_ok(self.exp, {OTOP})'), ('property', bound("'__vallue__'", 'spec_cstadd')),
                      ('property', f"result == {{'__vallue__': out_ret(self.exp, {OTOP})}}")],
             raises=fails, propagates=[GROW])

    # `@+:e`: the first one starts a list, later ones add an element (AST.__setitem__ adds to what is there)
    OVL = (f"spec_cstadd(dict_get({OUTF}.ast, uf_safekey('__vallue__')), "
           f"(out_ret(self.exp, {OTOP}) if dict_has({OUTF}.ast, '__vallue__') else [out_ret(self.exp, {OTOP})]))")
    contract(reg, f'{Nm}:OverrideList._parse', ALL, {'self': 'opaque:Model', 'ctx': 'Ctx'}, ret='Val', requires=REQ,
             ensures=[('property', f'out_ok(self.exp, {OTOP})'),
                      ('property', f"{STK} == {OSTK}[:-1] + [spec_with_ast({OUTF}, dict_with({OUTF}.ast, uf_safekey('__vallue__'), {OVL}))]")],
             raises=fails, propagates=[GROW])

    # ------------------------------------------------------------------ ordered choice with cut (docs/syntax.rst)
    Ch = 'tatsu/peg/choice.py'
    OPTF = f'spec_with_ast(spec_fresh({OTOP}), uf_defined_by({OTOP}.ast, self.options[{{j}}]))'
    BODYJ = 'spec_option_body(self.options[{j}])'
    tried = f'all(not out_ok({BODYJ}, {OPTF}) and not out_cut({BODYJ}, {OPTF}) for j in range(0, {{n}}))'.replace('{j}', 'j')
    contract(
        reg, f'{Ch}:Choice._parse', ALL, {'self': 'opaque:Model', 'ctx': 'Ctx'}, ret='Val', requires=REQ,
        ghost={'k': 'int'},
        invariants={0: [f'{STK} == {OSTK}', tried.replace('{n}', '__i0')]},
        ensures=[('property',
                  f'any(({tried.replace("{n}", "k")}) and out_ok({BODYJ.replace("{j}", "k")}, {OPTF.replace("{j}", "k")}) and '
                  f'{STK} == {OSTK}[:-1] + [spec_merged({OTOP}, out_frame({BODYJ.replace("{j}", "k")}, {OPTF.replace("{j}", "k")}))] and '
                  f'result == out_ret({BODYJ.replace("{j}", "k")}, {OPTF.replace("{j}", "k")}) for k in range(0, len(self.options)))')],
        raises={'FailedParse': [
            SAME,
            f'({tried.replace("{n}", "len(self.options)")}) or any(({tried.replace("{n}", "k")}) and '
            f'not out_ok({BODYJ.replace("{j}", "k")}, {OPTF.replace("{j}", "k")}) and out_cut({BODYJ.replace("{j}", "k")}, {OPTF.replace("{j}", "k")}) '
            f'for k in range(0, len(self.options)))']},
        propagates=[GROW])

    # ------------------------------------------------------------------ sequence
    N = 'len(self.sequence)'
    ITEM = 'spec_ungroup(self.sequence[{k}])'
    FR = 'spec_seq_frame(self, %s, {k})' % OTOP
    contract(
        reg, f'{Sx}:Sequence._parse', ALL, {'self': 'opaque:Model', 'ctx': 'Ctx'}, ret='Val', requires=REQ,
        invariants={0: [f'spec_seq_ok(self, {OTOP}, __i0)', f'{STK} == {OSTK}[:-1] + [spec_seq_frame(self, {OTOP}, __i0)]',
                        f'out == spec_seq_out(self, {OTOP}, __i0)'],
                    1: ['spec_ungroup(exp) == spec_ungroup(s)']},
        ensures=[('property', f'spec_seq_ok(self, {OTOP}, {N})'),
                 ('property', f'{STK} == {OSTK}[:-1] + [spec_seq_frame(self, {OTOP}, {N})]'),
                 ('property', f'result == spec_seq_out(self, {OTOP}, {N})')],
        raises={'FailedParse': [
            f'any(spec_seq_ok(self, {OTOP}, k) and not out_ok({ITEM.format(k="k")}, {FR.format(k="k")}) and '
            f'{STK} == {OSTK}[:-1] + [out_fail_frame({ITEM.format(k="k")}, {FR.format(k="k")})] for k in range(0, {N}))']},
        propagates=[GROW])

    # ------------------------------------------------------------------ rule reference (C06: only a missing rule becomes FailedRef)
    TGT = 'spec_call_target(self)'
    contract(reg, 'tatsu/peg/base.py:ModelContext.find_rule', ALL, {'self': 'Ctx', 'name': 'str'}, ret='func:PARSE', verify=False, modifies=[],
             ensures=['uf_rule_defined(name)', 'same_func(result, uf_find_rule(name))'],
             raises={'KeyError': ['not uf_rule_defined(name)']},
             note='dictionary lookup of the rule by name (rulemap[name]._parse)')
    contract(reg, f'{Sx}:Call._parse', ALL, {'self': 'opaque:Model', 'ctx': 'Ctx'}, ret='Val', requires=REQ,
             ensures=[('property', f'out_ok({TGT}, {OTOP})'),
                      ('property', f'{STK} == {OSTK}[:-1] + [out_frame({TGT}, {OTOP})]'),
                      ('property', f'result == out_ret({TGT}, {OTOP})')],
             raises={'FailedParse': [f'(not self._rule and not uf_rule_defined(self.name) and {SAME}) or '
                                     f'(not out_ok({TGT}, {OTOP}) and {STK} == {OSTK}[:-1] + [out_fail_frame({TGT}, {OTOP})])']},
             propagates=[GROW])
