"""The generic contract PARSE of every parse function (`Model._parse`, generated closures,
`exp: Func` parameters) -- DESIGN 2.2 -- and the grammar-model nodes of tatsu/peg/."""
from . import contract

ALL = ['C01', 'C02', 'C03', 'C05', 'C06']
TOP = 'ctx.states.state_stack[-1]'
OTOP = 'old_ctx.states.state_stack[-1]'
OW = 'old_ctx.world'

DEPTH = 'len(ctx.states.state_stack) == len(old_ctx.states.state_stack)'
BELOW = 'ctx.states.state_stack[:-1] == old_ctx.states.state_stack[:-1]'
SAME = 'ctx.states.state_stack == old_ctx.states.state_stack'


def register(reg):
    contract(
        reg, 'PARSE', ALL, {'f': 'func:PARSE', 'ctx': 'Ctx'}, ret='Val', generic=True,
        requires=['len(ctx.states.state_stack) >= 1'],
        modifies=['ctx.states.state_stack', 'ctx.world'],
        ensures=[f'ctx.states.state_stack == old_ctx.states.state_stack[:-1] + [out_frame(f, {OTOP}, {OW})]',
                 f'out_ok(f, {OTOP}, {OW})', f'result == out_ret(f, {OTOP}, {OW})',
                 f'spec_same_text({OTOP}, {TOP})',
                 f'{TOP}.cutseen == ({OTOP}.cutseen or out_cut(f, {OTOP}, {OW}))'],
        raises={'FailedParse': [f'ctx.states.state_stack == old_ctx.states.state_stack[:-1] + [out_fail_frame(f, {OTOP}, {OW})]',
                                f'not out_ok(f, {OTOP}, {OW})', f'spec_same_text({OTOP}, {TOP})',
                                f'{TOP}.cutseen == ({OTOP}.cutseen or out_cut(f, {OTOP}, {OW}))']},
        propagates=['other'],
        note='generic contract of a parse function: depth kept, frames below the top untouched, outcome a function '
             'of (function, top frame, world); on failure only the cut flag of the top frame is meaningful')

    M = 'tatsu/peg/base.py'
    contract(reg, f'{M}:Model._add_defined', ALL, {'self': 'opaque:Model', 'ctx': 'Ctx'}, ret='None', verify=False,
             requires=['len(ctx.states.state_stack) >= 1'], modifies=['ctx.states.state_stack'],
             ensures=[f'ctx.states.state_stack == old_ctx.states.state_stack[:-1] + [spec_with_ast({OTOP}, uf_defined_by({OTOP}.ast, self))]'],
             note='pre-binds the names the node defines (list comprehension over cached properties); bounded check B:C01/defined-names')

    Sx = 'tatsu/peg/syntax.py'
    BODY = f'spec_with_ast(spec_fresh({OTOP}), uf_defined_by({OTOP}.ast, self))'
    contract(
        reg, f'{Sx}:Optional._parse', ALL, {'self': 'opaque:Model', 'ctx': 'Ctx'}, ret='Val',
        requires=['len(ctx.states.state_stack) >= 1', f'spec_same_text({TOP}, {TOP})'],
        ensures=[
            ('property', f'implies(out_ok(self.exp, {BODY}, {OW}), '
                         f'ctx.states.state_stack == old_ctx.states.state_stack[:-1] + [spec_merged({OTOP}, out_frame(self.exp, {BODY}, {OW}))] '
                         f'and result == out_ret(self.exp, {BODY}, {OW}))'),
            ('property', f'implies(not out_ok(self.exp, {BODY}, {OW}), '
                         f'not out_cut(self.exp, {BODY}, {OW}) and {SAME} and result is None)'),
        ],
        raises={'FailedParse': [('not out_ok(self.exp, %s, %s)' % (BODY, OW)),
                                ('out_cut(self.exp, %s, %s)' % (BODY, OW)), SAME]},
        propagates=['other'])
