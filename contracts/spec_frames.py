"""Frames (symbolic-only spec functions; `Frame`, `Cursor` are the record sorts of contracts/records.py)."""


def spec_fresh(f):
    """the frame `push()` puts on top of f: same position and names, empty cst, no cut seen"""
    return Frame(cursor=f.cursor, ast=f.ast, cst=None, cutseen=False, last_node=None, alerts=[])


def spec_with_ast(f, ast):
    return Frame(cursor=f.cursor, ast=ast, cst=f.cst, cutseen=f.cutseen, last_node=f.last_node, alerts=f.alerts)


def spec_at(f, pos):
    return Frame(cursor=Cursor(pos=pos, len=f.cursor.len, textstr=f.cursor.textstr, input=f.cursor.input, _namechars=f.cursor._namechars),
                 ast=f.ast, cst=f.cst, cutseen=f.cutseen, last_node=f.last_node, alerts=f.alerts)


def spec_goto(f, pos):
    """cursor.goto clamps the position into the text"""
    return spec_at(f, max(0, min(f.cursor.len, pos)))


def spec_frame_wf(f):
    return f.cursor.len == len(f.cursor.textstr) and 0 <= f.cursor.pos and f.cursor.pos <= f.cursor.len and f.cursor._namechars == f.cursor.input._namechar_set


def spec_merged(f0, sub):
    """`merge()`: the sub-frame's position and names are kept, its cst is spliced into f0's,
    f0's cut flag is NOT changed (a cut is contained by the frame it happened in)"""
    return Frame(cursor=Cursor(pos=max(0, min(f0.cursor.len, sub.cursor.pos)), len=f0.cursor.len, textstr=f0.cursor.textstr, input=f0.cursor.input, _namechars=f0.cursor._namechars),
                 ast=sub.ast, cst=spec_cstmerge(f0.cst, sub.cst), cutseen=f0.cutseen, last_node=sub.cst,
                 alerts=f0.alerts + sub.alerts)


def spec_same_text(a, b):
    return (a.cursor.len == b.cursor.len and a.cursor.textstr == b.cursor.textstr and a.cursor.input == b.cursor.input and a.cursor._namechars == b.cursor._namechars
            and 0 <= b.cursor.pos and b.cursor.pos <= b.cursor.len)


def uf_defined_by(ast, node) -> 'ASTD':
    """`ast` with the names node defines pre-bound to None / [] (docs/ast.rst)"""
    raise NotImplementedError


def spec_option_body(o):
    """Choice._parse unwraps Option nodes"""
    return o.exp if isinstance(o, Option) else o


def spec_cut_or(f, b):
    """f with the cut flag raised when b holds (a cut seen in a frame that is not a cut scope reaches f)"""
    return Frame(cursor=f.cursor, ast=f.ast, cst=f.cst, cutseen=f.cutseen or b, last_node=f.last_node, alerts=f.alerts)


def spec_with_last(f, node):
    return Frame(cursor=f.cursor, ast=f.ast, cst=f.cst, cutseen=f.cutseen, last_node=node, alerts=f.alerts)


def spec_with_cut(f):
    return Frame(cursor=f.cursor, ast=f.ast, cst=f.cst, cutseen=True, last_node=f.last_node, alerts=f.alerts)


def spec_appended(f, node):
    """`append`: node becomes ONE more element of the frame's cst"""
    return Frame(cursor=f.cursor, ast=f.ast, cst=spec_cstadd(f.cst, node), cutseen=f.cutseen, last_node=node, alerts=f.alerts)


def uf_ws_end(cur) -> 'int':
    """position reached by skipping whitespace and comments from the cursor (a function of text,
    position and the configured patterns)"""
    raise NotImplementedError


def uf_re_end_s(text, pos, pattern) -> 'int':
    raise NotImplementedError


def uf_re_token(text, pos, pattern) -> 'Val':
    """what a pattern match returns: group 1 / tuple of groups / whole match"""
    raise NotImplementedError


def spec_ungroup(e: 'opaque:Model') -> 'opaque:Model':
    """Sequence._parse looks through nested groups"""
    return spec_ungroup(e.exp) if isinstance(e, Group) else e


def spec_seq_frame(node: 'opaque:Model', f0: 'Frame', k: 'int') -> 'Frame':
    """the frame after the first k items of a sequence, each item run on the frame its predecessor left"""
    return (spec_with_ast(f0, uf_defined_by(f0.ast, node)) if k <= 0
            else out_frame(spec_ungroup(node.sequence[k - 1]), spec_seq_frame(node, f0, k - 1)))


def spec_seq_ok(node: 'opaque:Model', f0: 'Frame', k: 'int') -> 'bool':
    return k <= 0 or (spec_seq_ok(node, f0, k - 1)
                      and out_ok(spec_ungroup(node.sequence[k - 1]), spec_seq_frame(node, f0, k - 1)))


def spec_seq_out(node: 'opaque:Model', f0: 'Frame', k: 'int') -> 'Val':
    """values of the items merged left to right; an item that returns None contributes nothing"""
    return (None if k <= 0
            else (spec_seq_out(node, f0, k - 1)
                  if out_ret(spec_ungroup(node.sequence[k - 1]), spec_seq_frame(node, f0, k - 1)) is None
                  else spec_cstmerge(spec_seq_out(node, f0, k - 1),
                                     out_ret(spec_ungroup(node.sequence[k - 1]), spec_seq_frame(node, f0, k - 1)))))


def uf_find_rule(name) -> 'func:PARSE':
    """the parse function of the rule called `name` in the running context"""
    raise NotImplementedError


def uf_rule_defined(name) -> 'bool':
    raise NotImplementedError


def spec_call_target(node):
    """a rule reference runs the linked rule, else the rule the context finds under that name"""
    return node._rule._parse if node._rule else uf_find_rule(node.name)


def spec_skip_step(f: 'Frame') -> 'Frame':
    """one step of `->e` over input that e does not match: whitespace and comments if there are any here, else one character"""
    return spec_at(f, uf_ws_end(f.cursor) if uf_ws_end(f.cursor) != f.cursor.pos else f.cursor.pos + 1)


def spec_skip_frame(exp: 'func:PARSE', f: 'Frame') -> 'Frame':
    """the frame `->e` finally parses e on: the first one on the skipping trajectory that is at the end of the text or where the
    lookahead &e succeeds.  (Tail recursion `F(x) = x if stop(x) else F(step(x))`: an equation that has a solution whatever
    step does, so the definition is consistent; that the code's loop reaches the frame is the termination measure of the loop.)"""
    return (f if f.cursor.pos >= f.cursor.len or out_ok(exp, spec_fresh(f))
            else spec_skip_frame(exp, spec_skip_step(f)))
