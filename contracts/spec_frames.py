"""Frames (symbolic-only spec functions; `Frame`, `Cursor` are the record sorts of contracts/records.py)."""


def spec_fresh(f):
    """the frame `push()` puts on top of f: same position and names, empty cst, no cut seen"""
    return Frame(cursor=f.cursor, ast=f.ast, cst=None, cutseen=False, last_node=None, alerts=[])


def spec_with_ast(f, ast):
    return Frame(cursor=f.cursor, ast=ast, cst=f.cst, cutseen=f.cutseen, last_node=f.last_node, alerts=f.alerts)


def spec_at(f, pos):
    return Frame(cursor=Cursor(pos=pos, len=f.cursor.len, textstr=f.cursor.textstr, input=f.cursor.input, _namechars=f.cursor._namechars),
                 ast=f.ast, cst=f.cst, cutseen=f.cutseen, last_node=f.last_node, alerts=f.alerts)


def spec_goto(f, pos):
    """cursor.goto clamps the position into the text"""
    return spec_at(f, max(0, min(f.cursor.len, pos)))


def spec_frame_wf(f):
    return f.cursor.len == len(f.cursor.textstr) and 0 <= f.cursor.pos and f.cursor.pos <= f.cursor.len and f.cursor._namechars == f.cursor.input._namechar_set


def spec_merged(f0, sub):
    """`merge()`: the sub-frame's position and names are kept, its cst is spliced into f0's,
    f0's cut flag is NOT changed (a cut is contained by the frame it happened in)"""
    return Frame(cursor=Cursor(pos=max(0, min(f0.cursor.len, sub.cursor.pos)), len=f0.cursor.len, textstr=f0.cursor.textstr, input=f0.cursor.input, _namechars=f0.cursor._namechars),
                 ast=sub.ast, cst=spec_cstmerge(f0.cst, sub.cst), cutseen=f0.cutseen, last_node=sub.cst,
                 alerts=f0.alerts + sub.alerts)


def spec_same_text(a, b):
    return (a.cursor.len == b.cursor.len and a.cursor.textstr == b.cursor.textstr and a.cursor.input == b.cursor.input and a.cursor._namechars == b.cursor._namechars
            and 0 <= b.cursor.pos and b.cursor.pos <= b.cursor.len)


def uf_defined_by(ast, node) -> 'ASTD':
    """`ast` with the names node defines pre-bound to None / [] (docs/ast.rst)"""
    raise NotImplementedError


def spec_option_body(o):
    """Choice._parse unwraps Option nodes"""
    return o.exp if isinstance(o, Option) else o


def spec_cut_or(f, b):
    """f with the cut flag raised when b holds (a cut seen in a frame that is not a cut scope reaches f)"""
    return Frame(cursor=f.cursor, ast=f.ast, cst=f.cst, cutseen=f.cutseen or b, last_node=f.last_node, alerts=f.alerts)


def spec_with_last(f, node):
    return Frame(cursor=f.cursor, ast=f.ast, cst=f.cst, cutseen=f.cutseen, last_node=node, alerts=f.alerts)


def spec_with_cut(f):
    return Frame(cursor=f.cursor, ast=f.ast, cst=f.cst, cutseen=True, last_node=f.last_node, alerts=f.alerts)


def spec_appended(f, node):
    """`append`: node becomes ONE more element of the frame's cst"""
    return Frame(cursor=f.cursor, ast=f.ast, cst=spec_cstadd(f.cst, node), cutseen=f.cutseen, last_node=node, alerts=f.alerts)


def uf_ws_end(cur) -> 'int':
    """position reached by skipping whitespace and comments from the cursor (a function of text,
    position and the configured patterns)"""
    raise NotImplementedError


def uf_re_end_s(text, pos, pattern) -> 'int':
    raise NotImplementedError


def uf_re_token(text, pos, pattern) -> 'Val':
    """what a pattern match returns: group 1 / tuple of groups / whole match"""
    raise NotImplementedError


def spec_ungroup(e: 'opaque:Model') -> 'opaque:Model':
    """Sequence._parse looks through nested groups"""
    return spec_ungroup(e.exp) if isinstance(e, Group) else e


def spec_seq_frame(node: 'opaque:Model', f0: 'Frame', k: 'int') -> 'Frame':
    """the frame after the first k items of a sequence, each item run on the frame its predecessor left"""
    return (spec_with_ast(f0, uf_defined_by(f0.ast, node)) if k <= 0
            else out_frame(spec_ungroup(node.sequence[k - 1]), spec_seq_frame(node, f0, k - 1)))


def spec_seq_ok(node: 'opaque:Model', f0: 'Frame', k: 'int') -> 'bool':
    return k <= 0 or (spec_seq_ok(node, f0, k - 1)
                      and out_ok(spec_ungroup(node.sequence[k - 1]), spec_seq_frame(node, f0, k - 1)))


def spec_seq_out(node: 'opaque:Model', f0: 'Frame', k: 'int') -> 'Val':
    """values of the items merged left to right; an item that returns None contributes nothing"""
    return (None if k <= 0
            else (spec_seq_out(node, f0, k - 1)
                  if out_ret(spec_ungroup(node.sequence[k - 1]), spec_seq_frame(node, f0, k - 1)) is None
                  else spec_cstmerge(spec_seq_out(node, f0, k - 1),
                                     out_ret(spec_ungroup(node.sequence[k - 1]), spec_seq_frame(node, f0, k - 1)))))


def uf_find_rule(name) -> 'func:PARSE':
    """the parse function of the rule called `name` in the running context"""
    raise NotImplementedError


def uf_rule_defined(name) -> 'bool':
    raise NotImplementedError


def spec_call_target(node):
    """a rule reference runs the linked rule, else the rule the context finds under that name"""
    return node._rule._parse if node._rule else uf_find_rule(node.name)


def spec_skip_step(f: 'Frame') -> 'Frame':
    """one step of `->e` over input that e does not match: whitespace and comments if there are any here, else one character"""
    return spec_at(f, uf_ws_end(f.cursor) if uf_ws_end(f.cursor) != f.cursor.pos else f.cursor.pos + 1)


def spec_skip_frame(exp: 'func:PARSE', f: 'Frame') -> 'Frame':
    """the frame `->e` finally parses e on: the first one on the skipping trajectory that is at the end of the text or where the
    lookahead &e succeeds.  (Tail recursion `F(x) = x if stop(x) else F(step(x))`: an equation that has a solution whatever
    step does, so the definition is consistent; that the code's loop reaches the frame is the termination measure of the loop.)"""
    return (f if f.cursor.pos >= f.cursor.len or out_ok(exp, spec_fresh(f))
            else spec_skip_frame(exp, spec_skip_step(f)))


def uf_body_options(body) -> 'seq[func:PARSE]':
    """the option functions the block under `with ctx.choice() as ch:` registers with `@ch.option`, in order"""
    raise NotImplementedError


# ---- repetition (`repeat`): one iteration runs in the frame option() pushes; sub-expressions run isolated in their own frames
def spec_iso(f, sub):
    """the frame isolate() leaves when its body ended successfully in `sub` (position and names of sub, the rest of f)"""
    return spec_with_ast(spec_goto(f, sub.cursor.pos), sub.ast)


def spec_iter_nosep(exp, f):
    """`{e}` one more time from frame f: the option frame after e matched (its value appended as one element)"""
    return spec_appended(spec_iso(spec_fresh(f), out_frame(exp, spec_fresh(spec_fresh(f)))),
                         spec_cstfinal(out_frame(exp, spec_fresh(spec_fresh(f))).cst))


def spec_iter_nosep_ok(exp, f):
    """the iteration matched AND consumed input (an iteration that matches no input ends the repetition)"""
    return out_ok(exp, spec_fresh(spec_fresh(f))) and spec_iter_nosep(exp, f).cursor.pos != f.cursor.pos


def spec_rep_nosep(exp: 'func:PARSE', f: 'Frame') -> 'Frame':
    """the frame after `{e}` repeated from f as often as it matches with progress (tail recursion: consistent whatever e does)"""
    return (spec_rep_nosep(exp, spec_merged(f, spec_iter_nosep(exp, f))) if spec_iter_nosep_ok(exp, f) else f)


def spec_rep_nosep_fails(exp, f):
    """the repetition is committed to fail: at the frame where it ends, e failed after a cut of its own"""
    return (not out_ok(exp, spec_fresh(spec_fresh(spec_rep_nosep(exp, f))))
            and out_cut(exp, spec_fresh(spec_fresh(spec_rep_nosep(exp, f)))))


def spec_iter_sep(exp, prefix, omitsep, f):
    """`sep%{e}` one more time from frame f: the option frame after `sep e` matched -- the separator's value is one element
    (unless it is omitted: gather), then the cut (a join commits after each separator), then e's value as one element"""
    g0 = spec_fresh(f)
    fp = out_frame(prefix, spec_fresh(g0))
    g1 = spec_iso(g0, fp)
    g1c = spec_with_cut(g1 if omitsep else spec_appended(g1, spec_cstfinal(fp.cst)))
    fe = out_frame(exp, spec_fresh(g1c))
    return spec_appended(spec_iso(g1c, fe), spec_cstfinal(fe.cst))


def spec_iter_sep_ok(exp, prefix, omitsep, f):
    g0 = spec_fresh(f)
    fp = out_frame(prefix, spec_fresh(g0))
    g1 = spec_iso(g0, fp)
    g1c = spec_with_cut(g1 if omitsep else spec_appended(g1, spec_cstfinal(fp.cst)))
    return (out_ok(prefix, spec_fresh(g0)) and out_ok(exp, spec_fresh(g1c))
            and spec_iter_sep(exp, prefix, omitsep, f).cursor.pos != f.cursor.pos)


def spec_rep_sep(exp: 'func:PARSE', prefix: 'func:PARSE', omitsep: 'bool', f: 'Frame') -> 'Frame':
    return (spec_rep_sep(exp, prefix, omitsep, spec_merged(f, spec_iter_sep(exp, prefix, omitsep, f)))
            if spec_iter_sep_ok(exp, prefix, omitsep, f) else f)


def spec_rep_sep_fails(exp, prefix, omitsep, f):
    """the repetition is committed to fail: at the frame where it ends the separator matched (everything after it is behind
    the cut) or failed after a cut of its own"""
    return (out_ok(prefix, spec_fresh(spec_fresh(spec_rep_sep(exp, prefix, omitsep, f))))
            or out_cut(prefix, spec_fresh(spec_fresh(spec_rep_sep(exp, prefix, omitsep, f)))))


def spec_with_cst(f, cst):
    return Frame(cursor=f.cursor, ast=f.ast, cst=cst, cutseen=f.cutseen, last_node=f.last_node, alerts=f.alerts)


def spec_rep_start(fe):
    """the frame a repetition continues from after its first element ended in frame fe: the element's value is the first
    (and only) item of a new list"""
    return spec_with_cst(fe, [fe.cst])


def spec_closed(f):
    """the repetition's own frame with its list closed (the value of a closure is a closed list)"""
    return spec_with_cst(f, closedlist(f.cst))


def uf_body_exp(body) -> 'func:PARSE':
    """the parse function the block under `with ctx.loopopt() as cl:` (etc.) registers with `@cl.exp`"""
    raise NotImplementedError


def uf_body_sep(body) -> 'func:PARSE':
    """the separator function the block registers with `@cl.sep`"""
    raise NotImplementedError
