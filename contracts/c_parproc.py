"""tatsu/parproc/task.py:taskproc -- C18: a task's result carries the payload and either the function's outcome or the
exception it raised ("per-task exception capture"); a captured exception never escapes, an uncaptured one always does; the
function is called exactly once (not at all when the loop is stopped)."""
from . import contract

F = 'tatsu/parproc/task.py'
P = ['C18']

RAN = 'uf_task_ret(task.func, task.payload)'
RAISED = 'uf_task_raises(task.func, task.payload)'


def register(reg):
    reg.classes['TaskP'] = {'mro': [], 'isa': ['Task'],
                            'fields': {'stop': 'opaque:Event', 'func': 'func:TASKFN', 'payload': 'opaque:Payload', 'pickable': 'func:PICKABLE',
                                       'reraise': 'bool', 'args': 'Val', 'kwargs': 'Val'}}
    reg.classes['ResultP'] = {'mro': ['tatsu/parproc/result.py:Result'], 'isa': ['Result'],
                              'fields': {'stop': 'opaque:Event', 'payload': 'opaque:Payload', 'outcome': 'Val', 'exception': 'Outcome',
                                         'linecount': 'Val', 'runtime': 'any', 'memory': 'any'},
                              # a dataclass: the generated __init__ takes the fields in declaration order
                              'init_fields': ['stop', 'payload', 'outcome', 'exception', 'linecount', 'runtime', 'memory'],
                              'init_defaults': {'outcome': None, 'exception': None, 'linecount': 0, 'runtime': 0, 'memory': 0}}
    reg.class_alias['Result'] = 'ResultP'
    reg.classes['VisualPayload'] = {'mro': [], 'isa': ['VisualPayload'], 'maybe_kinds': ['Payload']}
    reg.opaque_attrs[('Event', 'is_set')] = ('ufmethod', 'uf_is_set:bool')
    reg.opaque_attrs[('Event', 'set')] = ('method', 'NOOP')
    reg.opaque_attrs[('Payload', 'raises')] = ('attrcall', 'seq[opaque:ExcClass]')
    reg.opaque_attrs[('Payload', 'path')] = ('attr', 'opaque:Payload')
    for name in ('sys.getrecursionlimit', 'sys.setrecursionlimit', 'time.thread_time', 'memory_use'):
        reg.extern_funcs[name] = 'unknown_value'
    # the function a task runs: returns a value or raises anything
    contract(reg, 'TASKFN', P, {'f': 'func:TASKFN', 'payload': 'opaque:Payload'}, ret='Val', generic=True, modifies=[],
             ensures=['result == uf_task_ret(f, payload)', 'not uf_task_raises(f, payload)'],
             propagates=['uf_task_raises(f, payload)', 'exc_cls(exc) == uf_task_exc_cls(f, payload)', 'exc_id(exc) == uf_task_exc_id(f, payload)'],
             note='the function a task applies to its payload (with the task\'s fixed extra arguments): a value, or any exception')
    contract(reg, 'PICKABLE', P, {'f': 'func:PICKABLE', 'outcome': 'Val'}, ret='Val', generic=True, modifies=[],
             ensures=['result == uf_pick(f, outcome)'], note='the transformation applied to an outcome so that it can cross a process boundary')
    CAPTURED = (f'{RAISED} and err_cls(result.exception) == uf_task_exc_cls(task.func, task.payload) and '
                f'err_id(result.exception) == uf_task_exc_id(task.func, task.payload)')
    contract(reg, f'{F}:taskproc', P, {'task': 'TaskP'}, ret='ResultP', modifies=[],
             # the backwards-compatibility retry `func(payload.path)` after a TypeError is for VisualPayload objects only: outside
             requires=['not isinstance(task.payload, VisualPayload)'],
             ensures=[('property', 'result.payload == task.payload'),
                      # stopped: the function is not called, the result says so
                      ('property', 'implies(uf_is_set(task.stop), is_failure(result.exception, "InterruptedError"))'),
                      # the function returned: its outcome (made pickable), no exception
                      ('property', f'implies(not uf_is_set(task.stop) and not {RAISED}, '
                                   f'result.exception == o_none() and result.outcome == uf_pick(task.pickable, {RAN}))'),
                      # the function raised and the exception was captured: that very exception, and no outcome
                      ('property', f'implies(not uf_is_set(task.stop) and {RAISED}, is_err(result.exception) and {CAPTURED} '
                                   'and result.outcome == uf_pick(task.pickable, None))'),
                      # what is captured: ordinary exceptions and RecursionError, unless re-raising was asked for
                      ('property', f'implies(not uf_is_set(task.stop) and {RAISED}, not task.reraise)')],
             propagates=[f'not uf_is_set(task.stop) and {RAISED}',
                         # an exception escapes only when it is not an ordinary one, or re-raising was asked for, or the payload
                         # lists the exceptions to capture and this one is not among them
                         'not exc_is(exc, "Exception") or (exc_is(exc, "RuntimeError") and not exc_is(exc, "RecursionError")) or task.reraise '
                         'or (len(task.payload.raises()) > 0 and not any(isinstance(exc, r) for r in task.payload.raises()))'])
