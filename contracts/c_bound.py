"""tatsu/contexts/engine.py:ParserEngine.bound -- C09/C10: the configuration a parse runs with is layered from the
context's own configuration and the arguments of THIS call, and the context is idle again at every exit."""
from . import contract

E = 'tatsu/contexts/engine.py'


def register(reg):
    # the block under `with self.bound(...)` (ParserEngine.parse is the only user): find the start rule and call it.
    # It may change the parse state and the caches and may raise anything; it does not assign the configuration
    # (frame scan F:config-assigned-only-by-bound in props/C10.py)
    contract(reg, 'BOUNDBODY', ['C09', 'C10'], {'f': 'func:BOUNDBODY', 'ctx': 'Ctx'}, ret='Val', generic=True,
             modifies=['ctx.states', 'ctx._memos', 'ctx._results', 'ctx.keywords', 'ctx.semantics', 'ctx.tracer', 'ctx.ghost_recorded', 'ctx.ghost_stamped'],
             requires=['len(ctx.states.state_stack) >= 1'], wf=False,
             ensures=[], raises={'BaseException': []},
             note='with-body of bound(): arbitrary effects on parse state and caches, any exception')
    U = 'tatsu/util/configs.py'
    # the two layering steps on the fixed-field view of a configuration (their functional specification over the
    # name -> value view is proved in c_configs.py); here only: results are functions of the arguments, nothing is modified
    contract(reg, f'{U}:Config.override_config#fixedfields', ['C09', 'C10'], {'self': 'ConfigR', 'other': 'any'}, ret='ConfigR', verify=False, pure=True,
             modifies=[], note='ConfigR view: a new configuration, function of (self, other); neither argument is modified')
    contract(reg, 'tatsu/config.py:ParserConfig.override#fixedfields', ['C09', 'C10'], {'self': 'ConfigR', 'hard': 'bool', 'settings': 'any'}, ret='ConfigR', verify=False, pure=True,
             modifies=[], defaults={'hard': False}, kwparam='settings', note='ConfigR view: a new configuration, function of (self, hard, settings)')
    K = 'tatsu/contexts/core.py'
    contract(reg, f'{K}:ParserCore.update_tracer', ['C09', 'C10'], {'self': 'Ctx'}, ret='any', verify=False, wf=False,
             modifies=['self.tracer'], note='installs a ConsoleTracer or NullTracer according to config.trace; nothing else is written')
    T = 'tatsu/input/textlines.py'
    contract(reg, f'{T}:TextLines.__init__', ['C09', 'C10'], {'self': 'TextLines', 'text': 'str', 'config': 'ConfigR'}, ret='None', verify=False,
             modifies=[], note='builds the line index of the text; reads the configuration, writes only the new object')
    contract(reg, f'{T}:TextLines.newcursor', ['C09', 'C10'], {'self': 'TextLines'}, ret='Cursor', verify=False, modifies=[],
             note='a cursor at offset 0 of the text (well-formed: record invariant of Cursor)')
    contract(reg, 'tatsu/input/cursor.py:Text.newcursor', ['C09', 'C10'], {'self': 'opaque:TextObj'}, ret='Cursor', verify=False, modifies=[],
             note='protocol method of a caller-supplied Text object: a well-formed cursor on it')
    reg.opaque_attrs[('TextObj', 'newcursor')] = ('contract', 'tatsu/input/cursor.py:Text.newcursor')
    L = 'old_self._config.override_config(config).override(start=start, **settings)'
    for variant, tsort in (('#str', 'str'), ('#text', 'opaque:TextObj')):
        contract(
            reg, f'{E}:ParserEngine.bound{variant}', ['C02', 'C09', 'C10'],
            {'self': 'Ctx', 'text': tsort, 'start': 'Val', 'config': 'any', 'asmodel': 'bool', 'settings': 'Val'}, ret='None',
            ghost={'body': 'func:BOUNDBODY'},
            # C09: what the parse runs with is this call's settings layered over this call's config layered over the
            # context's own configuration -- nothing else (asmodel may install a model builder when no semantics is set)
            at_yield=[f'implies(not (asmodel and not {L}.semantics), self._active_config == {L})',
                      f'spec_cfg_same_but_semantics(self._active_config, {L})',
                      'self._config == old_self._config'],
            requires=['self._active_config == self._config', 'isinstance(settings, dict)', "'start' not in settings"],
            modifies=['self._active_config', 'self._memos', 'self._results', 'self.states', 'self.keywords', 'self.semantics', 'self.tracer', 'self.textlen', 'self.ghost_recorded', 'self.ghost_stamped'],
            ensures=[('property', 'self._active_config == self._config'), ('property', 'self._config == old_self._config')],
            raises={'BaseException': ['self._active_config == self._config', 'self._config == old_self._config']},
            propagates=['self._active_config == self._config', 'self._config == old_self._config'])

    # ParserEngine.parse: the value of the start rule of the configuration in force, parsed from the frame bound() set up;
    # the context is idle again afterwards (bound() is interpreted at the `with` site, its own contract is proved above)
    contract(reg, 'tatsu/config.py:ParserConfig.effective_start_rule_name', ['C09', 'C10'], {'self': 'ConfigR'}, ret='Val', verify=False, pure=True,
             modifies=[], ensures=['result is None or isinstance(result, str)'], note='start, else the deprecated start_rule / rule_name fields: a function of the configuration')
    for variant, tsort in (('#str', 'str'), ('#text', 'opaque:TextObj')):
        contract(
            reg, f'{E}:ParserEngine.parse{variant}', ['C10'],
            {'self': 'Ctx', 'text': tsort, 'start': 'Val', 'config': 'any', 'asmodel': 'bool', 'settings': 'Val'}, ret='Val',
            requires=['self._active_config == self._config', 'isinstance(settings, dict)', "'start' not in settings"],
            modifies=['self._active_config', 'self._memos', 'self._results', 'self.states', 'self.keywords', 'self.semantics', 'self.tracer', 'self.textlen', 'self.ghost_recorded', 'self.ghost_stamped'],
            ensures=[('property', 'self._active_config == self._config'), ('property', 'self._config == old_self._config')],
            raises={'BaseException': ['self._active_config == self._config', 'self._config == old_self._config']},
            propagates=['self._active_config == self._config', 'self._config == old_self._config'])
