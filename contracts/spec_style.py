"""C20: the SGR parameter list of a style (ECMA-48 / the table in tatsu/ztyle/style.py's docstrings):
modifiers 1 2 3 4 5 7 8 9 in that order, then the foreground, then the background; a colour index c is
30+c (c<8), 90+c-8 (c<16) or 38;5;c, an RGB triple 38;2;r;g;b (background: 40/100/48)."""


def spec_add(codes, cond, code):
    """the parameter list with `code` appended when the attribute is set"""
    return codes + [code] if cond else codes


def spec_color(codes, c, base, bright, ext):
    return (codes + [str(ext) + ';2;' + str(c.r) + ';' + str(c.g) + ';' + str(c.b)] if isinstance(c, RGB)
            else ((codes + [str(base + c)] if c < 8
                   else (codes + [str(bright + c - 8)] if c < 16 else codes + [str(ext) + ';5;' + str(c)]))
                  if c != -1 else codes))


def spec_codes(s):
    return spec_color(spec_color(
        spec_add(spec_add(spec_add(spec_add(spec_add(spec_add(spec_add(spec_add(
            [], s._bold, '1'), s._dim, '2'), s._italic, '3'), s._underline, '4'), s._blink, '5'), s._inverse, '7'),
            s._hidden, '8'), s._strikethrough, '9'),
        s._fg, 30, 90, 38), s._bg, 40, 100, 48)


def spec_styled(s, text, force):
    """the text itself when colour is off (and not forced) or no attribute is set, else ESC[ codes m text ESC[0m"""
    return ('' if text == ''
            else (text if not (s.enabled or force)
                  else (text if len(spec_codes(s)) == 0
                        else '\x1b[' + ';'.join(spec_codes(s)) + 'm' + text + '\x1b[0m')))
