"""tatsu/util/boundeddict.py -- C04: the memo table with a capacity (down to a single entry) never
returns anything but what was stored under that key, and never exceeds its capacity."""
from . import contract

F = 'tatsu/util/boundeddict.py'
KEPT = 'forall_keys(self, lambda k: implies(k in self and k != key, k in old_self and self.ovals[k] == old_self.ovals[k]))'
DROP = 'self.okeys == old_self.okeys[len(old_self) - len(self):]'


def register(reg):
    # eviction removes the OLDEST entries and nothing else
    contract(reg, f'{F}:BoundedDict._enforce_limit', ['C04'], {'self': 'BDict'}, ret='None', modifies=['self.okeys'],
             invariants={0: [DROP, 'len(self) <= len(old_self)', 'len(self) >= min(len(old_self), self.capacity)']},
             decreases={0: 'len(self)'},
             ensures=[('property', 'len(self) <= self.capacity'), ('property', DROP), 'len(self) <= len(old_self)',
                      ('property', 'forall_keys(self, lambda k: implies(k in self, k in old_self))'),
                      ('property', 'len(self) == min(len(old_self), self.capacity)')])
    contract(reg, f'{F}:BoundedDict.__setitem__', ['C04'], {'self': 'BDict', 'key': 'MemoKeyR', 'value': 'Outcome'}, ret='None',
             modifies=['self.okeys', 'self.ovals'],
             ensures=[('property', 'len(self) <= self.capacity'),
                      ('property', 'self.ovals[key] == value'),
                      ('property', KEPT)])
