"""Grammar-model nodes that delegate to one runtime primitive (tatsu/peg/*.py): the node behaves exactly as the
primitive's contract says, with the node's own fields as arguments.  The clauses are derived mechanically from the
primitive's contract by renaming (`self` -> `ctx`, parameter -> node field), so the two cannot drift apart."""
import re

from . import contract

ALL = ['C01', 'C02', 'C05']


def _rename(text, argmap):
    text = text.replace('old_self.', 'old_ctx.')
    text = re.sub(r'(?<![\w.])self\.', 'ctx.', text)
    for k, v in argmap.items():
        text = re.sub(rf'(?<![\w.]){k}(?![\w(])', f'({v})', text)
    return text


def delegate(reg, node_key, prim_key, argmap, ret=None, result=None, props=ALL):
    prim = reg.contracts[prim_key]
    ensures = []
    for tag, clause in prim.clauses():
        clause = _rename(clause, argmap)
        if result is not None and re.search(r'(?<![\w.])result(?![\w])', clause):
            clause = result
            if clause is None:
                continue
        ensures.append((tag, clause))
    raises = {k: [_rename(c, argmap) for c in v] for k, v in prim.raises.items()}
    propagates = [_rename(c, argmap) for c in prim.propagates]
    contract(reg, node_key, props, {'self': 'opaque:Model', 'ctx': 'Ctx'}, ret=ret or prim.ret,
             requires=['len(ctx.states.state_stack) >= 1'], ensures=ensures, raises=raises, propagates=propagates,
             modifies=[m.replace('self.', 'ctx.') for m in prim.modifies])


def register(reg):
    X = 'tatsu/contexts/context.py:ParseContext'
    B = 'tatsu/peg/basic.py'
    C = 'tatsu/peg/closure.py'
    delegate(reg, f'{B}:Token._parse', f'{X}.token', {'token': 'self.token'})
    delegate(reg, f'{B}:Dot._parse', f'{X}.dot', {})
    delegate(reg, f'{B}:Fail._parse', f'{X}.fail', {})
    delegate(reg, f'{B}:EOF._parse', f'{X}.eofcheck', {})
    delegate(reg, 'tatsu/peg/base.py:Void._parse', f'{X}.void', {})
    delegate(reg, f'{B}:Cut._parse', 'tatsu/contexts/core.py:ParserCore.cut', {}, props=ALL + ['C04'])
    delegate(reg, f'{C}:EmptyClosure._parse', f'{X}.empty', {})
    delegate(reg, f'{C}:Closure._parse', f'{X}.closure#nosep', {'exp': 'self.exp._parse', 'sep': 'None', 'omitsep': 'False'})
    delegate(reg, f'{C}:PositiveClosure._parse', f'{X}.positive_closure#nosep', {'exp': 'self.exp._parse', 'sep': 'None', 'omitsep': 'False'})
    register_joins(reg)


def delegate_ctx(reg, key, prim_key, argmap, sig, props=ALL):
    prim = reg.contracts[prim_key]
    ren = lambda t: _rename_params(t, argmap)
    contract(reg, key, props, sig, ret=prim.ret, requires=list(prim.requires),
             ensures=[(tag, ren(c)) for tag, c in prim.clauses()],
             raises={k: [ren(c) for c in v] for k, v in prim.raises.items()},
             propagates=[ren(c) for c in prim.propagates], modifies=list(prim.modifies))


def _rename_params(text, argmap):
    for k, v in argmap.items():
        text = re.sub(rf'(?<![\w.]){k}(?![\w(])', f'({v})', text)
    return text


def register_joins(reg):
    X = 'tatsu/contexts/context.py:ParseContext'
    C = 'tatsu/peg/closure.py'
    sig = {'self': 'Ctx', 'exp': 'func:PARSE', 'sep': 'func:PARSE'}
    for name, prim, omit in (('join', 'closure', 'False'), ('positive_join', 'positive_closure', 'False'),
                             ('gather', 'closure', 'True'), ('positive_gather', 'positive_closure', 'True')):
        delegate_ctx(reg, f'{X}.{name}', f'{X}.{prim}', {'omitsep': omit}, sig)
    for cls, name in (('Join', 'join'), ('PositiveJoin', 'positive_join'), ('Gather', 'gather'), ('PositiveGather', 'positive_gather')):
        prim = reg.contracts[f'{X}.{name}']
        ren = lambda t: _rename(t, {})
        contract(reg, f'{C}:{cls}._do_parse', ALL, {'self': 'opaque:Model', 'ctx': 'Ctx', 'exp': 'func:PARSE', 'sep': 'func:PARSE'},
                 ret=prim.ret, requires=['len(ctx.states.state_stack) >= 1'],
                 ensures=[(tag, ren(c)) for tag, c in prim.clauses()],
                 raises={k: [ren(c) for c in v] for k, v in prim.raises.items()},
                 propagates=[ren(c) for c in prim.propagates], modifies=['ctx.states.state_stack'])
