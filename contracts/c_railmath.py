"""tatsu/railroads/railmath.py -- C13, last clause: "the railroad rendering of any model completes with tracks of
consistent width".  Every layout function returns rails that all have ONE display width (and that width is stated),
given rails that are themselves of one width; the `assert`s inside the functions (assert_one_length) are obligations,
so "completes" means: no AssertionError for any input that satisfies the precondition.

Strings are z3 strings; the display width `ulen` (tatsu.util.strtools.unicode_display_len: the sum of a per-character
width) is an uninterpreted function of the string that is additive over concatenation -- pyvc instantiates that fact for
every string the code builds (theory `display_width`, an assumption listed in the evidence and sampled by the bounded
run of C13); widths of string literals are computed by this interpreter's unicodedata.
"""
from . import contract

F = 'tatsu/railroads/railmath.py'
P = ['C13']
T = ['display_width']

ONE = 'all(ulen({x}[k]) == {w} for k in range(len({x})))'


def one(x, w):
    return ONE.format(x=x, w=w)


def register(reg):
    # `from ..util import unicode_display_len as ulen`
    reg.extern_funcs['ulen'] = 'display_width'
    reg.extern_funcs['unicode_display_len'] = 'display_width'

    contract(reg, f'{F}:pad', P, {'rrl': 'str', 'c': 'str', 'maxl': 'int'}, ret='str', theories=T,
             requires=['ulen(c) == 1'],
             ensures=[('property', 'ulen(result) == max(maxl, ulen(rrl))'),
                      ('property', 'implies(maxl <= ulen(rrl), result == rrl)')])
    contract(reg, f'{F}:railpad_', P, {'rrl': 'str', 'maxl': 'int'}, ret='str', theories=T,
             ensures=[('property', 'ulen(result) == max(maxl, ulen(rrl))')])
    contract(reg, f'{F}:blankpad', P, {'rrl': 'str', 'maxl': 'int'}, ret='str', theories=T,
             ensures=[('property', 'ulen(result) == max(maxl, ulen(rrl))')])
    # the checker itself: returns its argument, and completes exactly on rails of one width
    contract(reg, f'{F}:assert_one_length', P, {'rails': 'arrlist[str]'}, ret='arrlist[str]', theories=T,
             requires=[one('rails', 'ulen(rails[0])')],
             ensures=[('property', 'len(result) == len(rails)'),
                      ('property', 'all(result[k] == rails[k] for k in range(len(rails)))')])
    # a loop body drawn under its first rail: every rail is padded to maxl, so the width is maxl + 8 whatever the rails are
    contract(reg, f'{F}:looptail', P, {'rails': 'arrlist[str]', 'maxl': 'int'}, ret='arrlist[str]', theories=T,
             requires=['maxl >= 0', 'all(ulen(rails[k]) <= maxl for k in range(len(rails)))'],
             locals_sig={'out': 'str'},
             invariants={0: ['len(out) == __i0', one('out', 'maxl + 8')]},
             ensures=[('property', 'len(result) == len(rails) + 1'),
                      ('property', one('result', 'maxl + 8'))])
    contract(reg, f'{F}:stopnloop', P, {'rails': 'arrlist[str]'}, ret='arrlist[str]', theories=T,
             locals_sig={'out': 'str'},
             ensures=[('property', 'len(result) >= 1'),
                      ('property', one('result', 'ulen(result[0])'))])
    contract(reg, f'{F}:loop', P, {'rails': 'arrlist[str]'}, ret='arrlist[str]', theories=T,
             locals_sig={'out': 'str'},
             ensures=[('property', 'len(result) >= 1'),
                      ('property', one('result', 'ulen(result[0])'))])
    # two blocks side by side: the result has max(height) rails of width (left width + right width)
    contract(reg, f'{F}:weldtwo', P, {'left': 'arrlist[str]', 'right': 'arrlist[str]'}, ret='arrlist[str]', theories=T,
             requires=[one('left', 'ulen(left[0])'), one('right', 'ulen(right[0])')],
             invariants={0: ['len(out) == max(len(left), __i0)',
                             'all(ulen(out[k]) == ulen(left[0]) + ulen(right[0]) for k in range(__i0))',
                             'all(out[k] == left[k] for k in range(__i0, len(left)))']},
             ensures=[('property', 'len(result) >= len(left)'),
                      ('property', "implies(len(left) > 0 and len(right) > 0 and not ('＄' in left), len(result) == max(len(left), len(right)))"),
                      ('property', "implies(len(left) > 0 and len(right) > 0 and not ('＄' in left), " + one('result', 'ulen(left[0]) + ulen(right[0])') + ')'),
                      ('property', one('result', 'ulen(result[0])'))])

    register_walker(reg)
    EACH_ONE = 'all(all(ulen(tracks[j][k]) == ulen(tracks[j][0]) for k in range(len(tracks[j]))) for j in range(len(tracks)))'
    # any number of blocks side by side
    contract(reg, f'{F}:weld', P, {'tracks': 'arrlist[arrlist[str]]'}, ret='arrlist[str]', theories=T, varparam='tracks',
             requires=[EACH_ONE],
             invariants={0: [one('out', 'ulen(out[0])'), 'len(out) >= len(tracks[0])']},
             ensures=[('property', one('result', 'ulen(result[0])')),
                      ('property', 'implies(len(tracks) > 0, len(result) >= len(tracks[0]))')])
    # alternatives stacked between a fork and a join: every rail is padded to the widest first rail, so the width is maxl + 7.
    # Preconditions from the call sites (walk_choice / walk_optional): at least ... every alternative is a non-empty block of one width
    contract(reg, f'{F}:lay_out', P, {'tracks': 'arrlist[arrlist[str]]'}, ret='arrlist[str]', theories=T,
             requires=[EACH_ONE, 'all(len(tracks[j]) > 0 for j in range(len(tracks)))'],
             locals_sig={'out': 'str'},
             invariants={0: ['len(out) >= __i0', one('out', 'maxl + 7'),
                             'all(ulen(out[k][:-3]) == maxl + 4 for k in range(len(out)))'],
                         1: ['len(out) >= __i0 + 1', one('out', 'maxl + 7'),
                             'all(ulen(out[k][:-3]) == maxl + 4 for k in range(len(out)))'],
                         2: ['len(out) >= 1', one('out', 'maxl + 7')]},
             ensures=[('property', one('result', 'ulen(result[0])')),
                      ('property', 'implies(len(tracks) > 0, len(result) >= 1)')])


# --------------------------------------------------------------------------- the walker (tatsu/railroads/walker.py)
W = 'tatsu/railroads/walker.py'
NONEMPTY_ONE = ['len(result) >= 1', ONE.format(x='result', w='ulen(result[0])')]


def register_walker(reg):
    """every walk_* method returns a non-empty block of rails of one width, given that the recursive `self.walk(child)` does
    (generic contract WALK: the dispatch of NodeWalker.walk reaches one of these methods -- behavioural subtyping, assumed)"""
    reg.opaque_attrs[('RailWalker', 'walk')] = ('method', 'WALK')
    reg.import_consts['ETX'] = F  # `from .railmath import ETX`
    for attr, srt in {'level': 'int', 'baserule': 'str', 'base': 'Val', 'decorators': 'Val', 'params': 'Val', 'kwparams': 'Val',
                      'is_lrec': 'bool', 'is_memo': 'bool'}.items():
        reg.opaque_attrs.setdefault(('Model', attr), ('attr', srt))
    contract(reg, 'WALK', P, {'f': 'func:WALK', 'node': 'opaque:Model'}, ret='arrlist[str]', generic=True, theories=T,
             ensures=list(NONEMPTY_ONE), modifies=[],
             note='generic contract of RailroadNodeWalker.walk(node): a non-empty block of rails of one display width')
    sig = lambda p: {'self': 'opaque:RailWalker', p: 'opaque:Model'}
    post = [('property', c) for c in NONEMPTY_ONE]
    for meth, param in (('walk_box', 'b'), ('walk_optional', 'optional'), ('walk_closure', 'closure'),
                        ('walk_positive_closure', 'closure'), ('walk_join', 'join'), ('walk_positive_join', 'join'),
                        ('walk_option', 'option'), ('walk_lookahead', 'la'), ('walk_negative_lookahead', 'la'),
                        ('walk_group', 'group'), ('walk_skip_to', 'skipto'), ('walk_named', 'named'),
                        ('walk_named_list', 'named'), ('walk_override', 'override'), ('walk_override_list', 'override'),
                        ('walk_call', 'call'), ('walk_token', 'token'), ('walk_eof', '_eof'), ('walk_eol', '_eof'),
                        ('walk_void', '_v'), ('walk_cut', '_cut'), ('walk_fail', '_f'), ('walk_dot', '_dot'),
                        ('walk_empty_closure', '_v'), ('walk_rule_include', 'include'), ('walk_default', 'node'),
                        ('walk_constant', 'constant'), ('walk_alert', 'alert'), ('walk_rule', 'rule'), ('walk_based_rule', 'rule'), ('walk_choice', 'choice'), ('walk_sequence', 's')):
        # well-formedness of the model (what the grammar reader and the ANTLR translator build): a choice has an option and a
        # sequence an element -- a programmatically built `Sequence([])` is outside it (its block of rails is empty)
        req = {'walk_choice': ['len(choice.options) >= 1'], 'walk_sequence': ['len(s.sequence) >= 1']}.get(meth, [])
        contract(reg, f'{W}:RailroadNodeWalker.{meth}', P, sig(param), ret='arrlist[str]', theories=T, modifies=[], requires=req,
                 ensures=list(post), merge_ifs=True)
    reg.opaque_attrs[('RailWalker', 'walk_box')] = ('contract', f'{W}:RailroadNodeWalker.walk_box')
