"""Configuration layering (tatsu/util/configs.py) -- C09 C10."""


def uf_is_collection(v) -> 'bool':
    """isinstance(v, list | set | dict)"""
    raise NotImplementedError


def uf_truthy(v) -> 'bool':
    """bool(v) of an arbitrary value"""
    raise NotImplementedError


def uf_noninit(name) -> 'bool':
    """the dataclass field `name` is declared with init=False"""
    raise NotImplementedError


def spec_erases(cfg, name, value):
    """docs/config.rst: a setting that is None / Undefined never overrides; an empty collection does not erase a
    non-empty one"""
    return value is None or value is Undefined or (isinstance(value, list | set | dict) and bool(getattr(cfg, name)) and not value)


def uf_is_field(name) -> 'bool':
    """`name` is a dataclass field of the configuration class"""
    raise NotImplementedError
