"""tatsu/input/cursor.py -- C08: the meta matchers never raise and only accept text the
converter accepts; the cursor moves exactly over the match."""
from . import contract

F = 'tatsu/input/cursor.py'
P = ['C08']

DEC_RUN = ("all(s[k].isdecimal() or (s[k] == '_' and k > {a} and s[k-1].isdecimal() and k + 1 < len(s) "
           "and s[k+1].isdecimal()) for k in range({a}, {b}))")


def register(reg):
    contract(reg, f'{F}:match_uint', P, {'s': 'arrstr', 'pos': 'int'}, ret='int',
             requires=['0 <= pos', 'pos <= len(s)'],
             ensures=[('property', 'result == -1 or (pos < result and result <= len(s) and uint_ok(s[pos:result]))')],
             invariants={0: ['pos <= p', 'p <= len(s)', DEC_RUN.format(a='pos', b='p'),
                             "p == pos or s[p-1].isdecimal() or (s[p-1] == '_' and p < len(s) and s[p].isdecimal())"]},
             decreases={0: 'len(s) - p'})
    contract(reg, f'{F}:match_int', P, {'s': 'arrstr', 'pos': 'int'}, ret='int',
             requires=['0 <= pos', 'pos <= len(s)'],
             ensures=[('property', 'result == -1 or (pos < result and result <= len(s) and int_ok(s[pos:result]))')])
    contract(reg, f'{F}:match_float', P, {'s': 'arrstr', 'pos': 'int'}, ret='int',
             requires=['0 <= pos', 'pos <= len(s)'],
             ensures=[('property', 'result == -1 or (pos < result and result <= len(s))'),
                      ('property', 'result == -1 or float_ok(s[pos:result])')])
    contract(reg, f'{F}:match_bool', P, {'s': 'arrstr', 'pos': 'int'}, ret='int',
             requires=['0 <= pos', 'pos <= len(s)'],
             ensures=[('property', "result == -1 or (pos < result and result <= len(s) and "
                                   "(s[pos:result] == 'true' or s[pos:result] == 'True' or s[pos:result] == 'false' or s[pos:result] == 'False'))")])
    contract(reg, f'{F}:match_name', P, {'s': 'arrstr', 'pos': 'int', 'namechars': 'charset'}, ret='int',
             requires=['0 <= pos', 'pos <= len(s)'],
             ensures=[('property', 'result == -1 or (pos < result and result <= len(s))')],
             invariants={0: ['pos < p', 'p <= len(s)']},
             decreases={0: 'len(s) - p'})
    # the cursor-level matchers: None iff no match, never raise, move exactly over the match
    moved = [('property', 'c.pos >= old_c.pos'),
             ('property', '(result is None) == (c.pos == old_c.pos)'),
             ('property', 'c.pos <= c.len')]
    contract(reg, f'{F}:matchstr', P, {'c': 'ACursor', 'match': 'func:MATCHFN'}, ret='any', modifies=['c.pos'],
             ensures=moved, inline=True)
    contract(reg, 'MATCHFN', P, {'f': 'func:MATCHFN', 's': 'arrstr', 'pos': 'int'}, ret='int', generic=True,
             requires=['0 <= pos', 'pos <= len(s)'],
             ensures=['result == -1 or (pos < result and result <= len(s))'],
             note='generic contract of a `match(text, pos)` callback')
    for fn in ('matchint', 'matchuint', 'matchsigned', 'matchfloat', 'matchname', 'matchbool'):
        contract(reg, f'{F}:{fn}', P, {'c': 'ACursor'}, ret='any', modifies=['c.pos'], ensures=moved)
