"""C16: nullability and left calls as docs/left_recursion / the property statement define them."""


def uf_is_nullable(e) -> 'bool':
    """the node's own nullability (can match the empty string)"""
    raise NotImplementedError


def spec_nullable_safe(e: 'opaque:Model') -> 'bool':
    """can e match empty WITHOUT going through a rule call (calls are never looked through)"""
    return (False if isinstance(e, Call)
            else (all(spec_nullable_safe(x) for x in e.sequence) if isinstance(e, Sequence)
                  else (any(spec_nullable_safe(o) for o in e.options) if isinstance(e, Choice)
                        else uf_is_nullable(e))))
