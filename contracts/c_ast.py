"""tatsu/contexts/ast.py -- the dict of named elements (C01: names accumulate per docs/ast.rst)."""
from . import contract

F = 'tatsu/contexts/ast.py'
P = ['C01', 'C02']


def register(reg):
    contract(reg, f'{F}:AST._safekey', P, {'self': 'ASTD', 'key': 'str'}, ret='str', verify=False,
             ensures=['result == uf_safekey(key)'],
             note='reads vars(dict) by reflection; bounded check B:C01/ast-safekey')
    # the same function proved on its loops: every listed name that is not yet a key becomes one, list names with [] (they come
    # first), the others with None; nothing else changes (C01: names of a rule are pre-bound)
    LK = 'any(uf_safekey(strval(list_keys[j])) == s for j in range(0, {n}))'
    SK = 'any(uf_safekey(strval(keys[j])) == s for j in range(0, {n}))'
    STR = ['all(isinstance(keys[j], str) for j in range(0, len(keys)))', 'all(isinstance(list_keys[j], str) for j in range(0, len(list_keys)))']

    def state(nl, nk):
        lk, sk = LK.format(n=nl), SK.format(n=nk)
        return [f'forall_keys(self, lambda s: self.dkeys[s] == (old_self.dkeys[s] or {lk} or {sk}))',
                f'forall_keys(self, lambda s: self.dvals[s] == (old_self.dvals[s] if old_self.dkeys[s] or not ({lk} or {sk}) else '
                f'([] if {lk} else None)))']
    contract(reg, f'{F}:AST._define#lists', ['C01'], {'self': 'ASTD', 'keys': 'seq', 'list_keys': 'seq'}, ret='None', modifies=['self'],
             requires=STR,
             invariants={0: state('__i0', '0'), 1: state('len(list_keys)', '__i1')},
             ensures=[('property', c) for c in state('len(list_keys)', 'len(keys)')])
    def state0(nk):
        sk = SK.format(n=nk)
        return [f'forall_keys(self, lambda s: self.dkeys[s] == (old_self.dkeys[s] or {sk}))',
                f'forall_keys(self, lambda s: self.dvals[s] == (old_self.dvals[s] if old_self.dkeys[s] or not ({sk}) else None))']
    contract(reg, f'{F}:AST._define#nolist', ['C01'], {'self': 'ASTD', 'keys': 'seq', 'list_keys': 'None'}, ret='None', modifies=['self'],
             requires=STR[:1], defaults={'list_keys': None},
             invariants={0: state0('0'), 1: state0('__i1')},
             ensures=[('property', c) for c in state0('len(keys)')])
    contract(reg, f'{F}:AST._set', P, {'self': 'ASTD', 'key': 'str', 'node': 'Val'}, ret='None', modifies=['self'],
             ensures=[('property', 'self == dict_with(old_self, uf_safekey(key), spec_cstadd(dict_get(old_self, uf_safekey(key)), node))')])
    contract(reg, f'{F}:AST._setlist', P, {'self': 'ASTD', 'key': 'str', 'node': 'Val'}, ret='None', modifies=['self'],
             ensures=[('property', 'self == dict_with(old_self, uf_safekey(key), spec_cstaddlist(dict_get(old_self, uf_safekey(key)), node))')])
    contract(reg, f'{F}:AST.__setitem__', P, {'self': 'ASTD', 'key': 'str', 'value': 'Val'}, ret='None', modifies=['self'],
             ensures=[('property', 'self == dict_with(old_self, uf_safekey(key), spec_cstadd(dict_get(old_self, uf_safekey(key)), value))')])
    contract(reg, f'{F}:AST.__getitem__', P, {'self': 'ASTD', 'key': 'str'}, ret='Val',
             ensures=['result == (dict_get(self, key) if dict_has(self, key) else dict_get(self, uf_safekey(key)))'])
