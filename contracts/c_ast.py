"""tatsu/contexts/ast.py -- the dict of named elements (C01: names accumulate per docs/ast.rst)."""
from . import contract

F = 'tatsu/contexts/ast.py'
P = ['C01', 'C02']


def register(reg):
    contract(reg, f'{F}:AST._safekey', P, {'self': 'ASTD', 'key': 'str'}, ret='str', verify=False,
             ensures=['result == uf_safekey(key)'],
             note='reads vars(dict) by reflection; bounded check B:C01/ast-safekey')
    contract(reg, f'{F}:AST._define', P, {'self': 'ASTD', 'keys': 'seq', 'list_keys': 'Val'}, ret='None', verify=False,
             modifies=['self'], ensures=['self == uf_defined(old_self, keys, list_keys)'],
             note='generator-driven loops; bounded check B:C01/ast-define')
    contract(reg, f'{F}:AST._set', P, {'self': 'ASTD', 'key': 'str', 'node': 'Val'}, ret='None', modifies=['self'],
             ensures=[('property', 'self == dict_with(old_self, uf_safekey(key), spec_cstadd(dict_get(old_self, uf_safekey(key)), node))')])
    contract(reg, f'{F}:AST._setlist', P, {'self': 'ASTD', 'key': 'str', 'node': 'Val'}, ret='None', modifies=['self'],
             ensures=[('property', 'self == dict_with(old_self, uf_safekey(key), spec_cstaddlist(dict_get(old_self, uf_safekey(key)), node))')])
    contract(reg, f'{F}:AST.__setitem__', P, {'self': 'ASTD', 'key': 'str', 'value': 'Val'}, ret='None', modifies=['self'],
             ensures=[('property', 'self == dict_with(old_self, uf_safekey(key), spec_cstadd(dict_get(old_self, uf_safekey(key)), value))')])
    contract(reg, f'{F}:AST.__getitem__', P, {'self': 'ASTD', 'key': 'str'}, ret='Val',
             ensures=['result == (dict_get(self, key) if dict_has(self, key) else dict_get(self, uf_safekey(key)))'])
