"""C17: what a constant expression may never reach.  The names come from the property statement:
opening files, importing modules, running or compiling code, reading input, exiting the process,
reaching dunder attributes (attribute reflection) or the interpreter's namespaces."""

FORBIDDEN_BUILTINS = frozenset({
    'open', '__import__', 'eval', 'exec', 'compile', 'input', 'exit', 'quit', 'breakpoint', 'help',
    'getattr', 'setattr', 'delattr', 'hasattr', 'globals', 'locals', 'vars', 'dir', 'type', 'object', 'super',
    '__build_class__', '__loader__', '__spec__', 'memoryview', 'staticmethod', 'property',
})


def spec_node_safe(node, context):
    """an AST node the checker lets through"""
    return (not isinstance(node, (ast.Raise, ast.Try, ast.ExceptHandler))
            and not (isinstance(node, ast.Attribute) and node.attr.startswith('__'))
            and not (isinstance(node, ast.Name) and isinstance(node.ctx, ast.Load) and node.id not in context)
            and (not isinstance(node, ast.Call) or isinstance(node, ast.Name)
                 or (isinstance(node.func, (ast.Name, ast.Attribute))
                     and (not isinstance(node.func, ast.Name) or node.func.id in context))))
