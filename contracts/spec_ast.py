"""AST (dict of named elements) helpers."""

_UNSAFE = frozenset(vars(dict).keys())


def uf_safekey(key) -> 'str':
    """the key under which a name is stored: names clashing with dict attributes get '_' appended.
    Uninterpreted for the prover (only `safekey(k)` itself is used)."""
    while key in _UNSAFE:
        key += '_'
    return key


def uf_defined(ast, keys, list_keys) -> 'ASTD':
    """`ast` with every name of `list_keys` bound to [] and every name of `keys` bound to None
    unless already present (docs/ast.rst: unmatched names are None / [])."""
    out = {}
    for k in list_keys or []:
        out.setdefault(uf_safekey(k), [])
    for k in keys:
        out.setdefault(uf_safekey(k), None)
    out.update(ast)
    return out
