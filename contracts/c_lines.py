"""tatsu/input/infos.py -- C12: the index from offsets to lines (DESIGN 2.4).

`lines` are the pieces of str.splitlines(True): non-empty, their concatenation is the text.  Ghosts:
starts[k] = offset of line k (starts[0] = 0, starts[k+1] = starts[k] + len(lines[k]));
lineof[p] = the k with starts[k] <= p < starts[k+1]."""
from . import contract

F = 'tatsu/input/infos.py'
LINE = 'PosLine(starts[lineof[p]], lineof[p], len(lines[lineof[p]]))'
TERMINATED = "lines[-1][-1] in {'\\r', '\\n'}"


def register(reg):
    contract(
        reg, f'{F}:PosLine.build_line_cache', ['C12', 'C08'], {'lines': 'arrlist[AbsStr]', 'size': 'int'}, ret='any',
        ghost={'starts': 'arr[int,int]', 'lineof': 'arr[int,int]'},
        locals_sig={'cache': 'PosLine'},
        requires=['all(len(lines[k]) >= 1 for k in range(0, len(lines)))',
                  'starts[0] == 0',
                  'all(starts[k + 1] == starts[k] + len(lines[k]) for k in range(0, len(lines)))',
                  'size == starts[len(lines)]',
                  'all(lineof[p] == k for k in range(0, len(lines)) for p in range(starts[k], starts[k + 1]))'],
        invariants={0: ['i == starts[__i0]', 'len(cache) == i', 'n == (__i0 - 1 if __i0 > 0 else 0)',
                        f'all(cache[p] == {LINE} for p in range(0, i))'],
                    1: ['len(cache) == i + __i1', f'all(cache[p] == {LINE} for p in range(0, i + __i1))']},
        ensures=[('property', 'implies(len(lines) > 0, len(result[0]) == size + 1)'),
                 ('property', f'implies(len(lines) > 0, all(result[0][p] == {LINE} for p in range(0, size)))'),
                 ('property', f'implies(len(lines) > 0, result[0][size] == (PosLine(size, len(lines), 0) if {TERMINATED} '
                              f'else PosLine(starts[len(lines) - 1], len(lines) - 1, len(lines[-1]))))'),
                 ('property', f'implies(len(lines) > 0, result[1] == (len(lines) + 1 if {TERMINATED} else len(lines)))'),
                 'implies(len(lines) == 0, len(result[0]) == 0)'])

    # C08/C12: the line lookups are index-safe for every offset 0..len (including empty text)
    T = 'tatsu/input/textlines.py'
    for variant, psort, P in (('#pos', 'int', 'pos'), ('#none', 'None', 'self.pos')):
        req = [] if psort == 'None' else ['0 <= pos', 'pos <= self._input.textlen']
        contract(reg, f'{T}:TextLinesCursor.lineat{variant}', ['C12', 'C08'], {'self': 'LCursor', 'pos': psort}, ret='int', modifies=[],
                 requires=req, defaults={'pos': None},
                 ensures=[('property', f'result == (0 if len(self._input.line_cache) == 0 else self._input.line_cache[{P}].lineno)')])
        contract(reg, f'{T}:TextLinesCursor.poscol{variant}', ['C12', 'C08'], {'self': 'LCursor', 'pos': psort}, ret='int', modifies=[],
                 requires=req, defaults={'pos': None},
                 ensures=[('property', f'result == (0 if len(self._input.line_cache) == 0 else {P} - self._input.line_cache[{P}].startpos)')])
