"""tatsu/input/infos.py -- C12: the index from offsets to lines (DESIGN 2.4).

`lines` are the pieces of str.splitlines(True): non-empty, their concatenation is the text.  Ghosts:
starts[k] = offset of line k (starts[0] = 0, starts[k+1] = starts[k] + len(lines[k]));
lineof[p] = the k with starts[k] <= p < starts[k+1]."""
from . import contract

F = 'tatsu/input/infos.py'
LINE = 'PosLine(starts[lineof[p]], lineof[p], len(lines[lineof[p]]))'
TERMINATED = "lines[-1][-1] in {'\\r', '\\n'}"


def register(reg):
    contract(
        reg, f'{F}:PosLine.build_line_cache', ['C12', 'C08'], {'lines': 'arrlist[AbsStr]', 'size': 'int'}, ret='any',
        ghost={'starts': 'arr[int,int]', 'lineof': 'arr[int,int]'},
        locals_sig={'cache': 'PosLine'},
        requires=['all(len(lines[k]) >= 1 for k in range(0, len(lines)))',
                  'starts[0] == 0',
                  'all(starts[k + 1] == starts[k] + len(lines[k]) for k in range(0, len(lines)))',
                  'size == starts[len(lines)]',
                  'all(lineof[p] == k for k in range(0, len(lines)) for p in range(starts[k], starts[k + 1]))'],
        invariants={0: ['i == starts[__i0]', 'len(cache) == i', 'n == (__i0 - 1 if __i0 > 0 else 0)',
                        f'all(cache[p] == {LINE} for p in range(0, i))'],
                    1: ['len(cache) == i + __i1', f'all(cache[p] == {LINE} for p in range(0, i + __i1))']},
        ensures=[('property', 'implies(len(lines) > 0, len(result[0]) == size + 1)'),
                 ('property', f'implies(len(lines) > 0, all(result[0][p] == {LINE} for p in range(0, size)))'),
                 ('property', f'implies(len(lines) > 0, result[0][size] == (PosLine(size, len(lines), 0) if {TERMINATED} '
                              f'else PosLine(starts[len(lines) - 1], len(lines) - 1, len(lines[-1]))))'),
                 ('property', f'implies(len(lines) > 0, result[1] == (len(lines) + 1 if {TERMINATED} else len(lines)))'),
                 'implies(len(lines) == 0, len(result[0]) == 0)'])

    # C08/C12: the line lookups are index-safe for every offset 0..len (including empty text)
    T = 'tatsu/input/textlines.py'
    for variant, psort, P in (('#pos', 'int', 'pos'), ('#none', 'None', 'self.pos')):
        req = [] if psort == 'None' else ['0 <= pos', 'pos <= self._input.textlen']
        contract(reg, f'{T}:TextLinesCursor.lineat{variant}', ['C12', 'C08'], {'self': 'LCursor', 'pos': psort}, ret='int', modifies=[],
                 requires=req, defaults={'pos': None},
                 ensures=[('property', f'result == (0 if len(self._input.line_cache) == 0 else self._input.line_cache[{P}].lineno)')])
        contract(reg, f'{T}:TextLinesCursor.poscol{variant}', ['C12', 'C08'], {'self': 'LCursor', 'pos': psort}, ret='int', modifies=[],
                 requires=req, defaults={'pos': None},
                 ensures=[('property', f'result == (0 if len(self._input.line_cache) == 0 else {P} - self._input.line_cache[{P}].startpos)')])

    # C08/C12: lineinfo() -- the reported line, column and source line agree with each other and with the text
    # (requires: the cache/index/text relation that the constructors establish: build_line_cache's proved
    # postcondition, LineIndexInfo.block_index and ''.join(splitlines(True)) -- the last two are trusted).
    # The same function exists three times (TextLinesCursor, BufferCursor, Buffer itself): one contract text, three views.
    B = 'tatsu/input/buffer.py'
    lineinfo_contracts(reg, f'{T}:TextLinesCursor.lineinfo', 'LCursor2', 'self._input.line_cache', 'self._input.line_index',
                       'self._input.textstr', 'self._input.len')
    lineinfo_contracts(reg, f'{B}:BufferCursor.lineinfo', 'BufCursor2', 'self.buffer.linecache', 'self.buffer.lineindex',
                       'self.buffer.text', 'self.buffer.len')
    lineinfo_contracts(reg, f'{B}:Buffer.lineinfo', 'BufOwn2', 'self.linecache', 'self.lineindex', 'self.text', 'self.len')


def lineinfo_contracts(reg, key, selfsort, CW, IX, TXT, SZ):
    wf = ['nl >= 1', f'len({CW}) == {SZ} + 1', f'len({IX}) == nl', f'len({TXT}) == {SZ}',
          f'all({IX}[k].line == k for k in range(0, nl))',
          'starts[0] == 0', 'all(starts[k + 1] > starts[k] for k in range(0, nl))', f'{SZ} == starts[nl]',
          f'all(0 <= starts[k] and starts[k] <= {SZ} for k in range(0, nl + 1))',  # follows from the two before by induction
          f'all(0 <= lineof[p] and lineof[p] < nl and starts[lineof[p]] <= p and p < starts[lineof[p] + 1] for p in range(0, {SZ}))',
          f'all({CW}[p] == PosLine(starts[lineof[p]], lineof[p], starts[lineof[p] + 1] - starts[lineof[p]]) for p in range(0, {SZ}))',
          f"terminated == ({TXT}[{SZ} - 1] in {{'\\r', '\\n'}})",
          f'{CW}[{SZ}] == (PosLine({SZ}, nl, 0) if terminated else PosLine(starts[nl - 1], nl - 1, {SZ} - starts[nl - 1]))']
    for variant, psort, P in (('#pos', 'int', 'pos'), ('#none', 'None', 'self.pos')):
        req = [] if psort == 'None' else ['0 <= pos', f'pos <= {SZ}']
        contract(reg, f'{key}{variant}', ['C08', 'C12'], {'self': selfsort, 'pos': psort}, ret='LineInfo', modifies=[],
                 ghost={'starts': 'arr[int,int]', 'lineof': 'arr[int,int]', 'nl': 'int', 'terminated': 'bool'},
                 requires=req + wf, defaults={'pos': None},
                 ensures=[('property', '0 <= result.line and result.line < nl'),
                          ('property', 'result.start == starts[result.line] and result.end == starts[result.line + 1]'),
                          ('property', '0 <= result.col and result.col <= result.end - result.start'),
                          ('property', f'0 <= result.start and result.start <= result.end and result.end <= {SZ}'),
                          ('property', f'result.text == {TXT}[result.start:result.end]'),
                          ('property', f'implies({P} < {SZ} or not terminated, result.start + result.col == {P})'),
                          ('property', f'implies({P} == {SZ} and terminated, result.start + result.col == {P})')])
    # the empty text: no cache, every field is the zero of its type
    contract(reg, f'{key}#empty', ['C08', 'C12'], {'self': selfsort, 'pos': 'int'}, ret='LineInfo', modifies=[],
             requires=[f'{SZ} == 0', f'len({TXT}) == 0', f'len({CW}) == 0'], defaults={'pos': None},
             ensures=[('property', 'result.line == 0 and result.col == 0 and result.start == 0 and result.end == 0'),
                      ('property', "result.text == ''")])
