"""tatsu/contexts/core.py:find_cached_semantic_action -- C06: which method of the semantics object is the action of a rule.

The semantics object is seen as its attribute table.  The candidates are tried in the order of the source
(name, safe_name(name), name.strip('_'), '_' + name, '_' + name + '_', each passed through safe_name); the first
callable one is the action, else `_default` if it is callable, else there is no action."""
from . import contract

K = 'tatsu/contexts/core.py'


def register(reg):
    contract(reg, 'tatsu/util/strtools.py:safe_name', ['C06'], {'name': 'str', 'plug': 'str'}, ret='str', verify=False, pure=True, modifies=[],
             defaults={'plug': '_'}, note='identifier mangling (keywords, leading digits): a function of the name; raises ValueError for an empty name')
    A = lambda cand: f"getattr(semantics, safe_name({cand}), None)"  # noqa: E731
    C = lambda cand: f"callable({A(cand)})"  # noqa: E731
    c1, c2, c3, c4, c5 = 'name', 'safe_name(name)', "name.strip('_')", "'_' + name", "'_' + name + '_'"
    NONE5 = ' and '.join(f'not {C(c)}' for c in (c1, c2, c3, c4, c5))
    DEF = "getattr(semantics, '_default', None)"
    contract(reg, f'{K}:find_cached_semantic_action#none', ['C06'], {'semantics': 'None', 'name': 'str'}, ret='None', modifies=[], ensures=[])
    contract(reg, f'{K}:find_cached_semantic_action#obj', ['C06'], {'semantics': 'SemD', 'name': 'str'}, ret='Val', modifies=[],
             ensures=[('property', f'implies({C(c1)}, result == {A(c1)})'),
                      ('property', f'implies(not {C(c1)} and {C(c2)}, result == {A(c2)})'),
                      ('property', f'implies(not {C(c1)} and not {C(c2)} and {C(c3)}, result == {A(c3)})'),
                      ('property', f'implies({NONE5} and callable({DEF}), result == {DEF})'),
                      ('property', f'implies({NONE5} and not callable({DEF}), result is None)'),
                      ('property', 'result is None or callable(result)')])
