"""tatsu/util/configs.py -- C09 C10: how one configuration is laid over another.

A configuration is seen as its attribute table (class CfgD).  The statements are pointwise over ALL names:
  _find_common  keeps exactly the settings that name an attribute and (hard or) do not `erase`;
  override      constructs the new object from: the setting where one is kept, the old value elsewhere
                (result.cvals, the constructor arguments: __post_init__ normalisation is outside this contract);
  merge         only fills attributes that are None.
"""
from . import contract

U = 'tatsu/util/configs.py'
KEPT = 'settings.dkeys[k] and self.dkeys[k] and (hard or not spec_erases(self, k, settings.dvals[k]))'


def register(reg):
    contract(reg, f'{U}:Config._find_common', ['C09', 'C10'], {'self': 'CfgD', 'hard': 'bool', 'settings': 'DictD'}, ret='DictD',
             kwparam='settings', defaults={'hard': False}, modifies=[],
             ensures=[('property', f'forall_keys(settings, lambda k: result.dkeys[k] == ({KEPT}))'),
                      ('property', 'forall_keys(settings, lambda k: implies(result.dkeys[k], result.dvals[k] == settings.dvals[k]))')])

    # reflection over dataclasses.fields(): assumed
    contract(reg, f'{U}:Config._filter_non_init_fields', ['C09', 'C10'], {'self': 'CfgD', 'settings': 'DictD'}, ret='DictD', verify=False, modifies=[],
             ensures=['forall_keys(settings, lambda k: result.dkeys[k] == (settings.dkeys[k] and not uf_noninit(k)))',
                      'result.dvals == settings.dvals'],
             note='drops the settings that name init=False fields (reflection over dataclasses.fields)')
    contract(reg, f'{U}:Config._check_unknowns', ['C09', 'C10'], {'self': 'CfgD', 'settings': 'DictD'}, ret='None', kwparam='settings', modifies=[],
             ensures=[('property', 'forall_keys(settings, lambda k: implies(settings.dkeys[k], self.dkeys[k]))')],
             raises={'ValueError': [('property', 'exists_key(settings, lambda k: settings.dkeys[k] and not self.dkeys[k])')]})
    LAID = ('result.cvals[k] == (settings.dvals[k] if settings.dkeys[k] and not uf_noninit(k) and (hard or not spec_erases(self, k, settings.dvals[k])) '
            'else self.dvals[k])')
    contract(reg, f'{U}:Config.override', ['C09', 'C10'], {'self': 'CfgD', 'hard': 'bool', 'settings': 'DictD'}, ret='CfgD',
             kwparam='settings', defaults={'hard': False}, modifies=[],
             ensures=[('property', f'forall_keys(settings, lambda k: {LAID})'),
                      ('property', 'result.dkeys == self.dkeys'),
                      ('property', 'result is not self')],
             raises={'ValueError': [('property', 'exists_key(settings, lambda k: settings.dkeys[k] and not self.dkeys[k])')]})

    contract(reg, f'{U}:Config.hard_override', ['C09', 'C10'], {'self': 'CfgD', 'settings': 'DictD'}, ret='CfgD', kwparam='settings', modifies=[],
             ensures=[('property', 'forall_keys(settings, lambda k: result.cvals[k] == (settings.dvals[k] if settings.dkeys[k] and not uf_noninit(k) else self.dvals[k]))'),
                      ('property', 'result.dkeys == self.dkeys')],
             raises={'ValueError': [('property', 'exists_key(settings, lambda k: settings.dkeys[k] and not self.dkeys[k])')]})
    contract(reg, f'{U}:Config.asdict', ['C09', 'C10'], {'self': 'CfgD'}, ret='DictD', verify=False, modifies=[],
             ensures=["forall_keys(self, lambda k: result.dkeys[k] == (self.dkeys[k] and uf_is_field(k) and k != 'temp_cache'))", 'result.dvals == self.dvals'],
             note='the dataclass fields of the object with their current values, without temp_cache (reflection over dataclasses.fields)')
    # laying a whole configuration over this one: the other object's fields are the settings
    OTHER = ("other.dkeys[k] and uf_is_field(k) and k != 'temp_cache' and not uf_noninit(k) and not spec_erases(self, k, other.dvals[k])")
    contract(reg, f'{U}:Config.override_config#none', ['C09', 'C10'], {'self': 'CfgD', 'other': 'None'}, ret='CfgD', modifies=[], defaults={'other': None},
             ensures=[('property', 'result is self')])
    contract(reg, f'{U}:Config.override_config#cfg', ['C09', 'C10'], {'self': 'CfgD', 'other': 'CfgD'}, ret='CfgD', modifies=[],
             requires=['other.dkeys == self.dkeys'],
             ensures=[('property', f'forall_keys(self, lambda k: result.cvals[k] == (other.dvals[k] if {OTHER} else self.dvals[k]))'),
                      ('property', 'result.dkeys == self.dkeys'), ('property', 'result is not self and result is not other')])
    # merge: a setting only fills an attribute that is None
    FILL = ('settings.dkeys[k] and self.dkeys[k] and not uf_noninit(k) and not spec_erases(self, k, settings.dvals[k]) and self.dvals[k] is None')
    contract(reg, f'{U}:Config.merge', ['C09', 'C10'], {'self': 'CfgD', 'settings': 'DictD'}, ret='CfgD', kwparam='settings', modifies=[],
             ensures=[('property', f'forall_keys(settings, lambda k: result.cvals[k] == (settings.dvals[k] if {FILL} else self.dvals[k]))'),
                      ('property', 'result.dkeys == self.dkeys')],
             raises={'ValueError': [('property', 'exists_key(settings, lambda k: settings.dkeys[k] and not self.dkeys[k])')]})

    # ParserConfig.override: Config.override, then the name follows an overridden grammar name; the deprecation and
    # regex-compilation steps are assumed not to touch the attribute table of a configuration without deprecated fields
    P = 'tatsu/config.py'
    for m in ('_check_deprecations', '_compile_comments'):
        contract(reg, f'{P}:ParserConfig.{m}', ['C09', 'C10'], {'self': 'CfgD'}, ret='None', verify=False, modifies=[],
                 note='deprecated-field migration / regex pre-compilation: no effect on a configuration without deprecated fields; '
                      'an invalid regex raises re.error here (outside the TatSu error types: not claimed by C08 either)')
    contract(reg, f'{P}:ParserConfig.override#cfgd', ['C09', 'C10'], {'self': 'CfgD', 'hard': 'bool', 'settings': 'DictD'}, ret='CfgD',
             kwparam='settings', defaults={'hard': False}, modifies=[],
             ensures=[('property', f'forall_keys(settings, lambda k: {LAID})'),
                      ('property', 'result.dkeys == self.dkeys'),
                      ('property', 'result is not self')],
             raises={'ValueError': [('property', 'exists_key(settings, lambda k: settings.dkeys[k] and not self.dkeys[k])')]})

    FILLO = ("other.dkeys[k] and uf_is_field(k) and k != 'temp_cache' and not uf_noninit(k) and not spec_erases(self, k, other.dvals[k]) "
             "and self.dvals[k] is None")
    contract(reg, f'{U}:Config.merge_config#none', ['C09', 'C10'], {'self': 'CfgD', 'other': 'None'}, ret='CfgD', modifies=[], defaults={'other': None},
             ensures=[('property', 'result is self')])
    contract(reg, f'{U}:Config.merge_config#cfg', ['C09', 'C10'], {'self': 'CfgD', 'other': 'CfgD'}, ret='CfgD', modifies=[],
             requires=['other.dkeys == self.dkeys'],
             ensures=[('property', f'forall_keys(self, lambda k: result.cvals[k] == (other.dvals[k] if {FILLO} else self.dvals[k]))'),
                      ('property', 'result.dkeys == self.dkeys')])
