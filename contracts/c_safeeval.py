"""tatsu/util/safeeval.py -- C17: the sandbox of constant expressions."""
from . import contract

F = 'tatsu/util/safeeval.py'


def register(reg):
    contract(reg, f'{F}:safe_builtins.is_unsafe_builtin_entry', ['C17'], {'entry': 'tuple[str,Val]'}, ret='bool',
             ensures=[('property', 'implies(entry[0] in FORBIDDEN_BUILTINS, result)'),
                      ('property', "implies(entry[0].startswith('_'), result)")])
    contract(reg, f'{F}:parse_expression', ['C17'], {'expression': 'str'}, ret='opaque:AstNode', verify=False, modifies=[], pure=True,
             note='ast.parse (stdlib); an invalid expression gives Undefined, modelled by uf_is_undefined')
    contract(reg, f'{F}:check_eval_context', ['C17'], {'context': 'DictD'}, ret='None', verify=False, modifies=[],
             raises={'SecurityError': []}, note='checks the context entries (callables, names); bounded run B:C17')
    contract(reg, f'{F}:_check_safe_eval_cached', ['C17'], {'expression': 'str', 'context_items': 'DictD'}, ret='None', modifies=[],
             invariants={0: ['all(spec_node_safe(__seq0[k], context) for k in range(0, __i0))']},
             ensures=[('property', 'all(spec_node_safe(n, context_items) for n in ast.walk(parse_expression(expression)))')],
             raises={'SecurityError': []})
