"""tatsu/contexts/context.py and core.py: the runtime primitives used by generated parsers and by
the model nodes (C01 C02 C05 C06).  A @contextmanager is verified with its `yield` standing for a
call of an arbitrary parse function `body` under the generic PARSE contract."""
from . import contract

X = 'tatsu/contexts/context.py'
K = 'tatsu/contexts/core.py'
ALL = ['C01', 'C02', 'C05', 'C06']
S = 'self.states.state_stack'
OS = 'old_self.states.state_stack'
OTOP = f'{OS}[-1]'
SAME = f'{S} == {OS}'
GROW = f'len({S}) >= len({OS})'
FRESH = f'spec_fresh({OTOP})'
REQ = [f'len({S}) >= 1', f'spec_same_text({S}[-1], {S}[-1])']
BODY = {'body': 'func:PARSE'}


def register(reg):
    # -- cut: sets the flag on the TOP frame only (C05)
    contract(reg, f'{K}:ParserCore.statescope', ALL, {'self': 'Ctx', 'merge': 'bool'}, ret='None', requires=REQ, ghost=BODY,
             ensures=[('property', f'out_ok(body, {FRESH})'),
                      ('property', f'implies(merge, {S} == {OS}[:-1] + [spec_merged({OTOP}, out_frame(body, {FRESH}))])'),
                      ('property', f'implies(not merge, {S} == {OS}[:-1] + [spec_at({OTOP}, out_frame(body, {FRESH}).cursor.pos)])')],
             raises={'FailedParse': [f'not out_ok(body, {FRESH})', SAME]}, propagates=[GROW])
    contract(reg, f'{X}:ParseContext.optional', ALL, {'self': 'Ctx'}, ret='None', requires=REQ, ghost=BODY,
             ensures=[('property', f'implies(out_ok(body, {FRESH}), {S} == {OS}[:-1] + [spec_merged({OTOP}, out_frame(body, {FRESH}))])'),
                      ('property', f'implies(not out_ok(body, {FRESH}), not out_cut(body, {FRESH}) and {SAME})')],
             raises={'FailedParse': [f'not out_ok(body, {FRESH})', f'out_cut(body, {FRESH})', SAME]}, propagates=[GROW])
    contract(reg, f'{X}:ParseContext.option', ALL, {'self': 'Ctx'}, ret='None', requires=REQ, ghost=BODY,
             ensures=[('property', f'not out_ok(body, {FRESH})'), ('property', f'not out_cut(body, {FRESH})'), ('property', SAME)],
             raises={'OptionSucceeded': [f'out_ok(body, {FRESH})', f'{S} == {OS}[:-1] + [spec_merged({OTOP}, out_frame(body, {FRESH}))]'],
                     'FailedParse': [f'not out_ok(body, {FRESH})', f'out_cut(body, {FRESH})', SAME]}, propagates=[GROW])
    contract(reg, f'{X}:ParseContext.if_', ALL, {'self': 'Ctx'}, ret='None', requires=REQ, ghost=BODY,
             ensures=[('property', f'out_ok(body, {FRESH})'), ('property', SAME)],
             raises={'FailedParse': [f'not out_ok(body, {FRESH})', SAME]}, propagates=[GROW])
    contract(reg, f'{X}:ParseContext.ifnot_', ALL, {'self': 'Ctx'}, ret='None', requires=REQ, ghost=BODY,
             ensures=[('property', f'not out_ok(body, {FRESH})'), ('property', SAME)],
             raises={'FailedParse': [f'out_ok(body, {FRESH})', SAME]}, propagates=[GROW])
    contract(reg, f'{X}:ParseContext.skipgroup', ALL, {'self': 'Ctx'}, ret='None', requires=REQ, ghost=BODY,
             ensures=[('property', f'out_ok(body, {FRESH})'),
                      ('property', f'{S} == {OS}[:-1] + [spec_at({OTOP}, out_frame(body, {FRESH}).cursor.pos)]')],
             raises={'FailedParse': [f'not out_ok(body, {FRESH})', SAME]}, propagates=[GROW])
    contract(reg, f'{X}:ParseContext.group', ALL, {'self': 'Ctx'}, ret='None', requires=REQ, ghost=BODY,
             ensures=[('property', f'out_ok(body, {OTOP})'), ('property', f'{S} == {OS}[:-1] + [out_frame(body, {OTOP})]')],
             raises={'FailedParse': [f'not out_ok(body, {OTOP})', f'{S} == {OS}[:-1] + [out_fail_frame(body, {OTOP})]']},
             propagates=[GROW])
