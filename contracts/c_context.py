"""tatsu/contexts/context.py and core.py: the runtime primitives used by generated parsers and by
the model nodes (C01 C02 C05 C06).  A @contextmanager is verified with its `yield` standing for a
call of an arbitrary parse function `body` under the generic PARSE contract."""
from . import contract

X = 'tatsu/contexts/context.py'
K = 'tatsu/contexts/core.py'
ALL = ['C01', 'C02', 'C05', 'C06']
S = 'self.states.state_stack'
OS = 'old_self.states.state_stack'
OTOP = f'{OS}[-1]'
SAME = f'{S} == {OS}'
GROW = f'grown({S}, {OS})'
FRESH = f'spec_fresh({OTOP})'
REQ = [f'len({S}) >= 1']
BODY = {'body': 'func:PARSE'}


def register(reg):
    register2(reg)
    register3(reg)
    register4(reg)
    # -- cut: sets the flag on the TOP frame only (C05)
    contract(reg, f'{K}:ParserCore.statescope', ALL, {'self': 'Ctx', 'merge': 'bool'}, ret='None', requires=REQ, ghost=BODY,
             ensures=[('property', f'out_ok(body, {FRESH})'),
                      ('property', f'implies(merge, {S} == {OS}[:-1] + [spec_merged({OTOP}, out_frame(body, {FRESH}))])'),
                      ('property', f'implies(not merge, {S} == {OS}[:-1] + [spec_goto({OTOP}, out_frame(body, {FRESH}).cursor.pos)])')],
             raises={'FailedParse': [f'not out_ok(body, {FRESH})', SAME]}, propagates=[GROW])
    contract(reg, f'{X}:ParseContext.optional', ALL, {'self': 'Ctx'}, ret='None', requires=REQ, ghost=BODY,
             ensures=[('property', f'implies(out_ok(body, {FRESH}), {S} == {OS}[:-1] + [spec_merged({OTOP}, out_frame(body, {FRESH}))])'),
                      ('property', f'implies(not out_ok(body, {FRESH}), not out_cut(body, {FRESH}) and {SAME})')],
             raises={'FailedParse': [f'not out_ok(body, {FRESH})', f'out_cut(body, {FRESH})', SAME]}, propagates=[GROW])
    contract(reg, f'{X}:ParseContext.option', ALL, {'self': 'Ctx'}, ret='None', requires=REQ, ghost=BODY,
             ensures=[('property', f'not out_ok(body, {FRESH})'), ('property', f'not out_cut(body, {FRESH})'), ('property', SAME)],
             raises={'OptionSucceeded': [f'out_ok(body, {FRESH})', f'{S} == {OS}[:-1] + [spec_merged({OTOP}, out_frame(body, {FRESH}))]'],
                     'FailedParse': [f'not out_ok(body, {FRESH})', f'out_cut(body, {FRESH})', SAME]}, propagates=[GROW])
    contract(reg, f'{X}:ParseContext.if_', ALL, {'self': 'Ctx'}, ret='None', requires=REQ, ghost=BODY,
             ensures=[('property', f'out_ok(body, {FRESH})'), ('property', SAME)],
             raises={'FailedParse': [f'not out_ok(body, {FRESH})', SAME]}, propagates=[GROW])
    contract(reg, f'{X}:ParseContext.ifnot_', ALL, {'self': 'Ctx'}, ret='None', requires=REQ, ghost=BODY,
             ensures=[('property', f'not out_ok(body, {FRESH})'), ('property', SAME)],
             raises={'FailedParse': [f'out_ok(body, {FRESH})', SAME]}, propagates=[GROW])
    contract(reg, f'{X}:ParseContext.skipgroup', ALL, {'self': 'Ctx'}, ret='None', requires=REQ, ghost=BODY,
             ensures=[('property', f'out_ok(body, {FRESH})'),
                      ('property', f'{S} == {OS}[:-1] + [spec_goto({OTOP}, out_frame(body, {FRESH}).cursor.pos)]')],
             raises={'FailedParse': [f'not out_ok(body, {FRESH})', SAME]}, propagates=[GROW])
    # a group is a value scope (its own frame, merged on success, dropped on failure) but not a cut scope:
    # the flag of the body's frame is or-ed into the enclosing frame on both exits
    contract(reg, f'{X}:ParseContext.group', ALL, {'self': 'Ctx'}, ret='None', requires=REQ, ghost=BODY,
             ensures=[('property', f'out_ok(body, {FRESH})'),
                      ('property', f'{S} == {OS}[:-1] + [spec_cut_or(spec_merged({OTOP}, out_frame(body, {FRESH})), out_cut(body, {FRESH}))]')],
             raises={'FailedParse': [f'not out_ok(body, {FRESH})', f'{S} == {OS}[:-1] + [spec_cut_or({OTOP}, out_cut(body, {FRESH}))]']},
             propagates=[GROW])


def register2(reg):
    TOP = f'{S}[-1]'
    WS = f'uf_ws_end({OTOP}.cursor)'

    def leaf(ok, frame_ok, result_ok, frame_fail):
        return dict(
            ensures=[('property', ok), ('property', f'{S} == {OS}[:-1] + [{frame_ok}]'), ('property', result_ok),
                     f'{TOP}.cursor.pos >= {OTOP}.cursor.pos'],  # what PARSE assumes of every parse function
            raises={'FailedParse': [f'not ({ok})', f'{S} == {OS}[:-1] + [{frame_fail}]']})

    contract(reg, f'{K}:ParserCore.next_token#none', ALL + ['C09'], {'self': 'Ctx', 'ri': 'None'}, ret='None', requires=REQ,
             defaults={'ri': None},
             ensures=[('property', f'{S} == {OS}[:-1] + [spec_at({OTOP}, {WS})]'), f'{WS} >= {OTOP}.cursor.pos', f'{WS} <= {OTOP}.cursor.len'])
    contract(reg, f'{K}:ParserCore.next_token#ri', ALL + ['C09', 'C03', 'C04'], {'self': 'Ctx', 'ri': 'RuleInfoR'}, ret='None', requires=REQ,
             ensures=[('property', f'{S} == {OS}[:-1] + [spec_at({OTOP}, ({OTOP}.cursor.pos if ri.is_tokn else {WS}))]'),
                      f'implies(not ri.is_tokn, {WS} >= {OTOP}.cursor.pos and {WS} <= {OTOP}.cursor.len)'])
    MATCH = f'spec_token_matches({OTOP}.cursor, {WS}, token)'
    contract(reg, f'{X}:ParseContext.token', ALL + ['C09'], {'self': 'Ctx', 'token': 'str'}, ret='Val', requires=REQ,
             **leaf(MATCH, f'spec_appended(spec_at({OTOP}, min({OTOP}.cursor.len, {WS} + len(token))), token)', 'result == token',
                    f'spec_at({OTOP}, {WS})'))
    RE = f'uf_re_end_s({OTOP}.cursor.textstr, {OTOP}.cursor.pos, pattern)'
    contract(reg, f'{X}:ParseContext.pattern', ALL + ['C09'], {'self': 'Ctx', 'pattern': 'str'}, ret='Val', requires=REQ,
             **leaf(f'{RE} >= 0',
                    f'spec_appended(spec_at({OTOP}, min({OTOP}.cursor.len, {RE})), uf_re_token({OTOP}.cursor.textstr, {OTOP}.cursor.pos, pattern))',
                    f'result == uf_re_token({OTOP}.cursor.textstr, {OTOP}.cursor.pos, pattern)', OTOP))
    contract(reg, f'{X}:ParseContext.void', ALL + ['C09'], {'self': 'Ctx'}, ret='Val', requires=REQ,
             ensures=[('property', f'{S} == {OS}[:-1] + [spec_at({OTOP}, {WS})]'), ('property', 'result == ()'),
                      f'{TOP}.cursor.pos >= {OTOP}.cursor.pos'])
    contract(reg, f'{X}:ParseContext.fail', ALL, {'self': 'Ctx'}, ret='None', requires=REQ,
             ensures=[('property', 'False')],
             raises={'FailedParse': [f'{S} == {OS}[:-1] + [spec_at({OTOP}, {WS})]']})
    contract(reg, f'{X}:ParseContext.eofcheck', ALL + ['C09'], {'self': 'Ctx'}, ret='None', requires=REQ,
             ensures=[('property', f'{WS} >= {OTOP}.cursor.len'), ('property', f'{S} == {OS}[:-1] + [spec_at({OTOP}, {WS})]')],
             raises={'FailedParse': [f'{WS} < {OTOP}.cursor.len', f'{S} == {OS}[:-1] + [spec_at({OTOP}, {WS})]']})
    contract(reg, f'{X}:ParseContext.dot', ALL + ['C09'], {'self': 'Ctx'}, ret='Val', requires=REQ,
             **leaf(f'{OTOP}.cursor.pos < {OTOP}.cursor.len',
                    f'spec_appended(spec_at({OTOP}, {OTOP}.cursor.pos + 1), {OTOP}.cursor.textstr[{OTOP}.cursor.pos])',
                    f'result == {OTOP}.cursor.textstr[{OTOP}.cursor.pos]', OTOP))
    contract(reg, f'{X}:ParseContext.empty', ALL, {'self': 'Ctx'}, ret='Val', requires=REQ,
             ensures=[('property', f'{S} == {OS}[:-1] + [spec_appended({OTOP}, closedlist([]))]'), ('property', 'result == closedlist([])')])

    # -- calling a parse function
    SAMEAS = dict(
        ensures=[('property', f'{S} == {OS}[:-1] + [out_frame(exp, {OTOP})]'), ('property', f'out_ok(exp, {OTOP})'),
                 ('property', f'result == out_ret(exp, {OTOP})'), f'spec_same_text({OTOP}, {TOP})',
                 f'{TOP}.cursor.pos >= {OTOP}.cursor.pos',
                 f'{TOP}.cutseen == ({OTOP}.cutseen or out_cut(exp, {OTOP}))'],
        raises={'FailedParse': [f'{S} == {OS}[:-1] + [out_fail_frame(exp, {OTOP})]', f'not out_ok(exp, {OTOP})',
                                f'spec_same_text({OTOP}, {TOP})',
                                f'{TOP}.cutseen == ({OTOP}.cutseen or out_cut(exp, {OTOP}))']},
        propagates=[GROW, f'implies(not exc_inside(exc), {SAME})', f'implies(exc_is(exc, "ParseException"), not out_ok(exp, {OTOP}))'])
    contract(reg, f'{X}:ParseContext.expcall', ALL, {'self': 'Ctx', 'exp': 'func:PARSE'}, ret='Val', requires=REQ, **SAMEAS)

    # -- skip_to (`->e`): skip input until the lookahead &e succeeds (or the text ends), then parse e there.  The trajectory is the
    #    code's own (whitespace/comments if any, else one character); the loop terminates because every step advances.
    CUR = f'{S}[-1]'
    LEFT = f'{CUR}.cursor.len - {CUR}.cursor.pos'
    TARGET = f'spec_skip_frame(exp, {OTOP})'
    contract(reg, f'{X}:ParseContext.skip_to', ['C01', 'C02', 'C09'], {'self': 'Ctx', 'exp': 'func:PARSE'}, ret='Val', requires=REQ,
             invariants={0: [f'top_only({S}, {OS})', f'spec_same_text({OTOP}, {CUR})', f'{CUR}.cursor.pos >= {OTOP}.cursor.pos',
                             f'spec_skip_frame(exp, {CUR}) == {TARGET}']},
             decreases={0: LEFT},
             ensures=[('property', f'out_ok(exp, {TARGET})'),
                      ('property', f'{S} == {OS}[:-1] + [out_frame(exp, {TARGET})]'),
                      ('property', f'result == out_ret(exp, {TARGET})')],
             raises={'FailedParse': [('property', f'not out_ok(exp, {TARGET})'),
                                     ('property', f'{S} == {OS}[:-1] + [out_fail_frame(exp, {TARGET})]')]},
             propagates=[GROW])

    # -- isolate: run exp in its own frame, keep position and names, return its (closed) cst;
    #    C05: when exp fails after a cut the flag must stay visible to the enclosing option
    F = f'out_frame(exp, {FRESH})'
    FF = f'out_fail_frame(exp, {FRESH})'
    contract(reg, f'{X}:ParseContext.isolate', ALL, {'self': 'Ctx', 'exp': 'func:PARSE'}, ret='Val', requires=REQ,
             ensures=[('property', f'{S} == {OS}[:-1] + [spec_with_ast(spec_goto({OTOP}, {F}.cursor.pos), {F}.ast)]'),
                      ('property', f'out_ok(exp, {FRESH})'),
                      ('property', f'result == spec_cstfinal({F}.cst)'), f'spec_same_text({OTOP}, {TOP})',
                      f'{TOP}.cursor.pos >= {OTOP}.cursor.pos'],
             raises={'FailedParse': [f'top_only({S}, {OS})', f'not out_ok(exp, {FRESH})',
                                     f'spec_same_text({OTOP}, {TOP})',
                                     f'{TOP}.cutseen == ({OTOP}.cutseen or out_cut(exp, {FRESH}))']},
             propagates=[GROW])


def register3(reg):
    TOP = f'{S}[-1]'
    SHAPE = [f'top_only({S}, {OS})', f'spec_same_text({OTOP}, {TOP})']
    contract(reg, 'tatsu/util/misc.py:prune_dict', ['C04', 'C05', 'C03'], {'d': 'MemoD', 'predicate': 'any'}, ret='None', verify=False,
             modifies=['d'], ensures=['submap(d, old_d)'], note='removes the entries the predicate selects; C04 checks the selection in a bounded run')
    contract(reg, f'{K}:ParserCore.cut', ALL + ['C04', 'C03'], {'self': 'Ctx'}, ret='None', requires=REQ,
             modifies=['self.states.state_stack', 'self._memos'],
             ensures=[('property', f'{S} == {OS}[:-1] + [spec_with_cut({OTOP})]'),
                      ('property', 'submap(self._memos, old_self._memos)'),
                      ('property', 'implies(not self._active_config.prune_memos_on_cut, self._memos.mkeys == old_self._memos.mkeys and self._memos.mvals == old_self._memos.mvals)')])
    for variant, pfx in (('', 'func:PARSE'), ('#nosep', 'None')):
        # full functional statement for the variant without separator: the final frame is the recursive spec (C01), and the
        # repetition fails exactly when the iteration that ends it failed after a cut (C05)
        REP = (lambda f: f'spec_rep_nosep(exp, {f})') if variant else (lambda f: f'spec_rep_sep(exp, prefix, omitsep, {f})')
        FAILS = f'spec_rep_nosep_fails(exp, {OTOP})' if variant else f'spec_rep_sep_fails(exp, prefix, omitsep, {OTOP})'
        REPF = REP(OTOP)
        fun_inv = [f'{REP(TOP)} == {REPF}']
        fun_post = [('property', f'{TOP} == {REPF}'), ('property', f'not ({FAILS})')]
        fun_fail = [('property', FAILS), ('property', f'{TOP} == spec_with_cut({REPF})')]
        contract(reg, f'{X}:ParseContext.repeat{variant}', ALL + ['C08'],
                 {'self': 'Ctx', 'exp': 'func:PARSE', 'prefix': pfx, 'omitsep': 'bool'}, ret='None',
                 requires=REQ + [f'spec_islist({TOP}.cst)'], defaults={'prefix': None, 'omitsep': False},
                 invariants={0: SHAPE + [f'{TOP}.cutseen == {OTOP}.cutseen', f'spec_islist({TOP}.cst)'] + fun_inv},
                 # C08 (no input makes a parse hang): every completed iteration has consumed input, with or without a separator
                 decreases={0: f'self.textlen - {TOP}.cursor.pos'},
                 ensures=[*SHAPE, ('property', f'{TOP}.cutseen == {OTOP}.cutseen'), f'spec_islist({TOP}.cst)',
                          # C05 "a join commits after each separator": the repetition ends normally only where the separator
                          # itself does not match (once it matched, a failing element makes the repetition fail)
                          *([('property', f'not out_ok(prefix, spec_fresh(spec_fresh({TOP})))')] if variant == '' else []),
                          *fun_post],
                 raises={'FailedParse': [f'top_only({S}, {OS})', f'spec_same_text({OTOP}, {TOP})',
                                         ('property', f'{TOP}.cutseen'), *fun_fail]},
                 propagates=[GROW])
    for fn in ('closure', 'positive_closure'):
        for variant, pfx in (('', 'func:PARSE'), ('#nosep', 'None')):
            REP = (lambda f: f'spec_rep_nosep(exp, {f})') if variant else (lambda f: f'spec_rep_sep(exp, sep, omitsep, {f})')
            RFAILS = (lambda f: f'spec_rep_nosep_fails(exp, {f})') if variant else (lambda f: f'spec_rep_sep_fails(exp, sep, omitsep, {f})')
            if fn == 'closure':
                # {e}: statescope frame with an empty list; e and the repetition run inside optional()
                E0 = f'spec_fresh(spec_fresh({OTOP}))'           # the frame the first e runs on
                S1 = f'spec_with_cst(spec_fresh({OTOP}), [])'    # the closure's own frame
                START = f'spec_rep_start(out_frame(exp, {E0}))'
                DONE = lambda inner: f'spec_merged({OTOP}, spec_closed({inner}))'  # noqa: E731
                fun = [('property', f'implies(not out_ok(exp, {E0}), not out_cut(exp, {E0}) and result == closedlist([]) and '
                                    f'{S} == {OS}[:-1] + [{DONE(S1)}])'),
                       ('property', f'implies(out_ok(exp, {E0}), not ({RFAILS(START)}) and '
                                    f'{S} == {OS}[:-1] + [{DONE(f"spec_merged({S1}, {REP(START)})")}] and '
                                    f'result == closedlist(spec_merged({S1}, {REP(START)}).cst))')]
                fails = [('property', f'(not out_ok(exp, {E0}) and out_cut(exp, {E0})) or (out_ok(exp, {E0}) and ({RFAILS(START)}))')]
            else:
                E0 = f'spec_fresh({OTOP})'
                START = f'spec_rep_start(out_frame(exp, {E0}))'
                fun = [('property', f'out_ok(exp, {E0}) and not ({RFAILS(START)})'),
                       ('property', f'{S} == {OS}[:-1] + [spec_merged({OTOP}, spec_closed({REP(START)}))]'),
                       ('property', f'result == closedlist({REP(START)}.cst)')]
                fails = [('property', f'not out_ok(exp, {E0}) or ({RFAILS(START)})')]
            contract(reg, f'{X}:ParseContext.{fn}{variant}', ALL,
                     {'self': 'Ctx', 'exp': 'func:PARSE', 'sep': pfx, 'omitsep': 'bool'}, ret='Val',
                     requires=REQ, defaults={'sep': None, 'omitsep': False},
                     ensures=[*SHAPE, ('property', 'isinstance(result, closedlist)'),
                              ('property', f'{TOP}.cst == spec_cstmerge({OTOP}.cst, result)'),
                              ('property', f'{TOP}.cutseen == {OTOP}.cutseen'), *fun],
                     raises={'FailedParse': [SAME, *fails]}, propagates=[GROW])

def register4(reg):
    """generated-code twins of the naming nodes (C02).  The emitted block binds `last_node`; it equals what the
    model's Named/NamedList/Override bind exactly when the block satisfies GEN-LAST (its last_node is its value)."""
    # the block runs on the frame with its last node cleared, so the node bound is the block's own (or None)
    B0 = f'spec_with_last({OTOP}, None)'
    F = f'out_frame(body, {B0})'

    def binds(key, combine, value):
        return (f'{S} == {OS}[:-1] + [spec_with_ast({F}, dict_with({F}.ast, uf_safekey({key}), '
                f'{combine}(dict_get({F}.ast, uf_safekey({key})), {value})))]')

    fails = {'FailedParse': [f'not out_ok(body, {B0})', f'{S} == {OS}[:-1] + [out_fail_frame(body, {B0})]']}
    for meth, key, combine, sig in (('nameset', 'name', 'spec_cstadd', {'self': 'Ctx', 'name': 'str'}),
                                    ('nameadd', 'name', 'spec_cstaddlist', {'self': 'Ctx', 'name': 'str'}),
                                    ('result', "'__vallue__'", 'spec_cstadd', {'self': 'Ctx'}),
                                    ('resultadd', "'__vallue__'", 'spec_cstaddlist', {'self': 'Ctx'})):
        contract(reg, f'{X}:ParseContext.{meth}', ['C02'], sig, ret='None', requires=REQ, ghost=BODY,
                 ensures=[('property', f'out_ok(body, {B0})'),
                          ('property', binds(key, combine, f'{F}.last_node')),
                          ('property', f'implies({F}.last_node == out_ret(body, {B0}), ' + binds(key, combine, f'out_ret(body, {B0})') + ')')],
                 raises=fails, propagates=[GROW])
