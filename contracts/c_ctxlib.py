"""tatsu/contexts/ctxlib -- the objects generated parsers collect sub-expressions in (C02 C05).

ChoiceContext.parse is the generated-code twin of Choice._parse: ordered choice with cut.  Each option runs in a fresh frame
(option(): push / merge / undo); the first one that succeeds ends the choice through OptionSucceeded, an option that fails
after a cut ends it with the failure, otherwise the next option is tried; when all fail the choice fails."""
from . import contract

L = 'tatsu/contexts/ctxlib/choice.py'
S = 'ctx.states.state_stack'
OS = 'old_ctx.states.state_stack'
OTOP = f'{OS}[-1]'
FRESH = f'spec_fresh({OTOP})'
SAME = f'{S} == {OS}'
GROW = f'grown({S}, {OS})'


def register(reg):
    tried = f'all(not out_ok(self.options[j], {FRESH}) and not out_cut(self.options[j], {FRESH}) for j in range(0, {{n}}))'
    contract(
        reg, f'{L}:ChoiceContext.parse', ['C02', 'C05', 'C01'], {'self': 'ChoiceCtx', 'ctx': 'Ctx'}, ret='Val',
        requires=[f'len({S}) >= 1'], modifies=[S],
        invariants={0: [SAME, tried.replace('{n}', '__i0'), 'len(self.options) > 0']},
        ensures=[('property', 'len(self.options) == 0'), ('property', SAME), ('property', 'result is None')],
        raises={
            'OptionSucceeded': [('property',
                                 f'any(({tried.replace("{n}", "k")}) and out_ok(self.options[k], {FRESH}) and '
                                 f'{S} == {OS}[:-1] + [spec_merged({OTOP}, out_frame(self.options[k], {FRESH}))] '
                                 f'for k in range(0, len(self.options)))')],
            'FailedParse': [('property', SAME),
                            ('property',
                             f'({tried.replace("{n}", "len(self.options)")}) or any(({tried.replace("{n}", "k")}) and '
                             f'not out_ok(self.options[k], {FRESH}) and out_cut(self.options[k], {FRESH}) '
                             f'for k in range(0, len(self.options)))')]},
        propagates=[GROW])
