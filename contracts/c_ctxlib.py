"""tatsu/contexts/ctxlib -- the objects generated parsers collect sub-expressions in (C02 C05).

ChoiceContext.parse is the generated-code twin of Choice._parse: ordered choice with cut.  Each option runs in a fresh frame
(option(): push / merge / undo); the first one that succeeds ends the choice through OptionSucceeded, an option that fails
after a cut ends it with the failure, otherwise the next option is tried; when all fail the choice fails."""
from . import contract

L = 'tatsu/contexts/ctxlib/choice.py'
S = 'ctx.states.state_stack'
OS = 'old_ctx.states.state_stack'
OTOP = f'{OS}[-1]'
FRESH = f'spec_fresh({OTOP})'
SAME = f'{S} == {OS}'
GROW = f'grown({S}, {OS})'


def register(reg):
    tried = f'all(not out_ok(self.options[j], {FRESH}) and not out_cut(self.options[j], {FRESH}) for j in range(0, {{n}}))'
    contract(
        reg, f'{L}:ChoiceContext.parse', ['C02', 'C05', 'C01'], {'self': 'ChoiceCtx', 'ctx': 'Ctx'}, ret='Val',
        requires=[f'len({S}) >= 1'], modifies=[S],
        invariants={0: [SAME, tried.replace('{n}', '__i0'), 'len(self.options) > 0']},
        ensures=[('property', 'len(self.options) == 0'), ('property', SAME), ('property', 'result is None')],
        raises={
            'OptionSucceeded': [('property',
                                 f'any(({tried.replace("{n}", "k")}) and out_ok(self.options[k], {FRESH}) and '
                                 f'{S} == {OS}[:-1] + [spec_merged({OTOP}, out_frame(self.options[k], {FRESH}))] '
                                 f'for k in range(0, len(self.options)))')],
            'FailedParse': [('property', SAME),
                            ('property',
                             f'({tried.replace("{n}", "len(self.options)")}) or any(({tried.replace("{n}", "k")}) and '
                             f'not out_ok(self.options[k], {FRESH}) and out_cut(self.options[k], {FRESH}) '
                             f'for k in range(0, len(self.options)))')]},
        propagates=[GROW])


    # choice(): the block under `with ctx.choice() as ch:` registers the option functions; then they are tried in order and
    # OptionSucceeded (the way a successful option ends the choice) is absorbed
    X = 'tatsu/contexts/context.py'
    XS, XOS = 'self.states.state_stack', 'old_self.states.state_stack'
    XTOP = f'{XOS}[-1]'
    XFRESH = f'spec_fresh({XTOP})'
    contract(reg, 'CHOICEBODY', ['C02', 'C05'], {'f': 'func:CHOICEBODY', 'ctx': 'Ctx', 'ch': 'ChoiceCtx'}, ret='Val', generic=True, wf=False,
             modifies=['ch.options', 'ch.expected'], ensures=['ch.options == uf_body_options(f)'],
             note='the generated block under `with ctx.choice() as ch`: only registers option functions and expected tokens')
    OPT = 'uf_body_options(body)'
    xtried = f'all(not out_ok({OPT}[j], {XFRESH}) and not out_cut({OPT}[j], {XFRESH}) for j in range(0, {{n}}))'
    contract(
        reg, f'{X}:ParseContext.choice', ['C02', 'C05'], {'self': 'Ctx'}, ret='None', requires=[f'len({XS}) >= 1'], ghost={'body': 'func:CHOICEBODY'},
        ensures=[('property',
                  f'(len({OPT}) == 0 and {XS} == {XOS}) or any(({xtried.replace("{n}", "k")}) and out_ok({OPT}[k], {XFRESH}) and '
                  f'{XS} == {XOS}[:-1] + [spec_merged({XTOP}, out_frame({OPT}[k], {XFRESH}))] for k in range(0, len({OPT})))')],
        raises={'FailedParse': [('property', f'{XS} == {XOS}'),
                                ('property',
                                 f'({xtried.replace("{n}", f"len({OPT})")}) or any(({xtried.replace("{n}", "k")}) and '
                                 f'not out_ok({OPT}[k], {XFRESH}) and out_cut({OPT}[k], {XFRESH}) for k in range(0, len({OPT})))')]},
        propagates=[f'grown({XS}, {XOS})'])
    register_loops(reg)


def register_loops(reg):
    """the other `with ctx.<form>() as cl:` wrappers of generated code: the block registers the element (and separator) function,
    then the wrapper calls the runtime primitive the model node calls -- so the wrapper's contract IS the primitive's contract with
    the registered functions as arguments (derived by renaming, so the two cannot drift apart)."""
    import re
    X = 'tatsu/contexts/context.py'
    reg.classes['ExpCtx'] = {'mro': ['tatsu/contexts/ctxlib/loopsep.py:LoopWithSepContext', 'tatsu/contexts/ctxlib/loop.py:LoopContext',
                                     'tatsu/contexts/ctxlib/expsep.py:ExpWithSepContext', 'tatsu/contexts/ctxlib/exp.py:ExpContext',
                                     'tatsu/contexts/ctxlib/_base.py:ContextBase'],
                             'fields': {'_exp': 'optfunc:PARSE', '_sep': 'optfunc:PARSE', 'plus': 'bool', 'omitsep': 'bool', 'expected': 'seq[str]'},
                             'untracked': ['ctx', 'result'],
                             'isa': ['ExpContext', 'LoopContext', 'LoopWithSepContext', 'ExpWithSepContext', 'ContextBase']}
    for alias in ('ExpContext', 'LoopContext', 'LoopWithSepContext', 'ExpWithSepContext'):
        reg.class_alias[alias] = 'ExpCtx'
    contract(reg, 'EXPBODY', ['C02'], {'f': 'func:EXPBODY', 'ctx': 'Ctx', 'cl': 'ExpCtx'}, ret='Val', generic=True, wf=False,
             modifies=['cl._exp', 'cl._sep', 'cl.expected'],
             ensures=['cl._exp == uf_body_exp(f)'],
             note='the generated block under `with ctx.loopopt() as cl` (closure / skip-to forms): registers the element function')
    contract(reg, 'EXPSEPBODY', ['C02'], {'f': 'func:EXPSEPBODY', 'ctx': 'Ctx', 'cl': 'ExpCtx'}, ret='Val', generic=True, wf=False,
             modifies=['cl._exp', 'cl._sep', 'cl.expected'],
             ensures=['cl._exp == uf_body_exp(f)', 'cl._sep == uf_body_sep(f)'],
             note='the generated block under `with ctx.joinopt() as cl` (join / gather forms): registers element and separator functions')

    def derive(name, prim, argmap, bodykind):
        p = reg.contracts[f'{X}:ParseContext.{prim}']
        def ren(t):
            for k, v in argmap.items():
                t = re.sub(rf'(?<![\w.]){k}(?![\w(])', f'({v})', t)
            return t
        contract(reg, f'{X}:ParseContext.{name}', ['C02'], {'self': 'Ctx'}, ret='None', requires=list(p.requires), ghost={'body': f'func:{bodykind}'},
                 ensures=[(tag, ren(c)) for tag, c in p.clauses() if not re.search(r'(?<![\w.])result(?![\w])', c)],
                 raises={k: [ren(c) for c in v] for k, v in p.raises.items()},
                 propagates=[ren(c) for c in p.propagates], modifies=list(p.modifies))

    E, SP = 'uf_body_exp(body)', 'uf_body_sep(body)'
    derive('loopopt', 'closure#nosep', {'exp': E, 'sep': 'None', 'omitsep': 'False'}, 'EXPBODY')
    derive('loopplus', 'positive_closure#nosep', {'exp': E, 'sep': 'None', 'omitsep': 'False'}, 'EXPBODY')
    derive('joinopt', 'closure', {'exp': E, 'sep': SP, 'omitsep': 'False'}, 'EXPSEPBODY')
    derive('joinplus', 'positive_closure', {'exp': E, 'sep': SP, 'omitsep': 'False'}, 'EXPSEPBODY')
    derive('gatheropt', 'closure', {'exp': E, 'sep': SP, 'omitsep': 'True'}, 'EXPSEPBODY')
    derive('gatherplus', 'positive_closure', {'exp': E, 'sep': SP, 'omitsep': 'True'}, 'EXPSEPBODY')
    derive('skipto', 'skip_to', {'exp': E}, 'EXPBODY')
