"""Record (object) declarations shared by the contracts."""
from pyvc import sorts as S


def declare(reg):
    # a cursor as the matcher helpers in tatsu/input/cursor.py see it (Cursor protocol):
    # text as an array string, position, length, extra name characters.
    reg.classes['ACursor'] = {
        'mro': ['tatsu/input/textlines.py:TextLinesCursor'],
        'fields': {'textstr': 'arrstr', 'pos': 'int', 'len': 'int', 'namechars': 'charset'},
        'wf': ['self.len == len(self.textstr)', '0 <= self.pos', 'self.pos <= self.len'],
        'isa': ['Cursor'],
    }


def _build_acursor(f):
    from tatsu.input.textlines import TextLines
    t = TextLines(f['textstr'], namechars=''.join(sorted(f.get('namechars') or '')), whitespace='')
    c = t.newcursor()
    c.goto(f['pos'])
    return c


BUILDERS = {'ACursor': _build_acursor}
