"""Record (object) declarations shared by the contracts.

z3 records (held by value; `mutable=True` ones are accessed through write-through views):
  TLInput   what a cursor reads from its text object (configuration + regex identities)
  Cursor    TextLinesCursor:  pos, len, textstr (+ input)
  ASTD      tatsu.contexts.ast.AST seen as a string-keyed map (key order is not modelled)
  AlertR    contexts.infos.Alert
  Frame     contexts.state.ParseState
  RuleInfoR contexts.infos.RuleInfo (name + flags; instance/func are opaque ids)
  MemoKeyR, RuleResultR
python-side records (by reference): ACursor (array-string cursor for cursor.py), States, Ctx
"""
from pyvc import sorts as S


def declare(reg):
    S.declare_record('TLInput', [
        ('ignorecase', 'bool'), ('nameguard', 'bool'), ('namechars', 'strset'),
        ('whitespace_re', 'int'), ('comments_re', 'int'), ('eol_comments_re', 'int'),
    ])
    S.declare_record('Cursor', [('pos', 'int'), ('len', 'int'), ('textstr', 'str'), ('input', 'TLInput')], mutable=True)
    S.declare_record('ASTD', [('dkeys', 'strset'), ('dvals', 'strmap')], mutable=True)
    S.declare_record('AlertR', [('level', 'int'), ('message', 'Val')])
    S.declare_record('Frame', [
        ('cursor', 'Cursor'), ('ast', 'ASTD'), ('cst', 'Val'), ('cutseen', 'bool'),
        ('last_node', 'Val'), ('alerts', 'seq[AlertR]'),
    ], mutable=True)
    S.declare_record('RuleInfoR', [
        ('name', 'str'), ('instance', 'int'), ('func', 'int'), ('no_memo', 'bool'), ('no_stak', 'bool'),
        ('is_name', 'bool'), ('is_tokn', 'bool'), ('is_lrec', 'bool'), ('is_memo', 'bool'),
        ('params', 'Val'), ('kwparams', 'Val'),
    ])
    S.declare_record('MemoKeyR', [('pos', 'int'), ('ruleinfo', 'RuleInfoR')])
    S.declare_record('RuleResultR', [('node', 'Val'), ('newpos', 'int')])

    reg.class_alias = {
        'ParseState': 'Frame', 'AST': 'ASTD', 'Alert': 'AlertR', 'RuleInfo': 'RuleInfoR',
        'MemoKey': 'MemoKeyR', 'RuleResult': 'RuleResultR', 'ParseStateStack': 'States',
        'TextLinesCursor': 'Cursor',
    }
    reg.record_defaults = {'AlertR': {'level': 1, 'message': ''}}

    # a cursor as the matcher helpers in tatsu/input/cursor.py see it (Cursor protocol):
    # text as an array string, position, length, extra name characters.
    reg.classes['ACursor'] = {
        'mro': ['tatsu/input/textlines.py:TextLinesCursor'],
        'fields': {'textstr': 'arrstr', 'pos': 'int', 'len': 'int', 'namechars': 'charset'},
        'wf': ['self.len == len(self.textstr)', '0 <= self.pos', 'self.pos <= self.len'],
        'isa': ['Cursor'],
    }
    reg.classes['Cursor'] = {
        'mro': ['tatsu/input/textlines.py:TextLinesCursor'],
        'wf': ['self.len == len(self.textstr)', '0 <= self.pos', 'self.pos <= self.len'],
        'isa': ['Cursor', 'TextLinesCursor'],
    }
    reg.classes['ASTD'] = {'mro': ['tatsu/contexts/ast.py:AST'], 'isa': ['AST', 'dict']}
    reg.classes['Frame'] = {
        'mro': ['tatsu/contexts/state.py:ParseState'],
        'wf': ['self.cursor.len == len(self.cursor.textstr)', '0 <= self.cursor.pos', 'self.cursor.pos <= self.cursor.len'],
        'isa': ['ParseState'],
    }
    reg.classes['RuleInfoR'] = {'mro': ['tatsu/contexts/infos.py:RuleInfo'], 'isa': ['RuleInfo']}
    reg.classes['MemoKeyR'] = {'mro': ['tatsu/contexts/infos.py:MemoKey'], 'isa': ['MemoKey']}
    reg.classes['RuleResultR'] = {'mro': ['tatsu/contexts/infos.py:RuleResult'], 'isa': ['RuleResult']}
    reg.classes['AlertR'] = {'mro': ['tatsu/contexts/infos.py:Alert'], 'isa': ['Alert']}
    reg.classes['States'] = {
        'mro': ['tatsu/contexts/state.py:ParseStateStack'],
        'fields': {'state_stack': 'seq[Frame]', 'callstack': 'seq[RuleInfoR]'},
        'wf': ['len(self.state_stack) >= 1'],
        'isa': ['ParseStateStack'],
    }


def _build_acursor(f):
    from tatsu.input.textlines import TextLines
    t = TextLines(f['textstr'], namechars=''.join(sorted(f.get('namechars') or '')), whitespace='')
    c = t.newcursor()
    c.goto(f['pos'])
    return c


BUILDERS = {'ACursor': _build_acursor}
