"""Record (object) declarations shared by the contracts.

z3 records (held by value; `mutable=True` ones are accessed through write-through views):
  TLInput   what a cursor reads from its text object (configuration + regex identities)
  Cursor    TextLinesCursor:  pos, len, textstr (+ input)
  ASTD      tatsu.contexts.ast.AST seen as a string-keyed map (key order is not modelled)
  AlertR    contexts.infos.Alert
  Frame     contexts.state.ParseState
  RuleInfoR contexts.infos.RuleInfo (name + flags; instance/func are opaque ids)
  MemoKeyR, RuleResultR
python-side records (by reference): ACursor (array-string cursor for cursor.py), States, Ctx
"""
from pyvc import sorts as S


def declare(reg):
    S.declare_record('AbsStr', [('n', 'int'), ('last', 'int')])
    S.declare_record('PosLine', [('startpos', 'int'), ('lineno', 'int'), ('length', 'int')])
    S.declare_record('LineIndexInfo', [('filename', 'Val'), ('line', 'int')])
    S.declare_record('LineInfo', [('source', 'Val'), ('line', 'int'), ('col', 'int'), ('start', 'int'), ('end', 'int'), ('text', 'str')])
    S.declare_record('TLConfig', [('comments', 'Val'), ('eol_comments', 'Val')])
    S.declare_record('TLInput', [
        ('ignorecase', 'bool'), ('nameguard', 'bool'), ('_namechar_set', 'strset'),
        ('whitespace_re', 'Val'), ('config', 'TLConfig'),
    ])
    S.declare_record('Cursor', [('pos', 'int'), ('len', 'int'), ('textstr', 'str'), ('input', 'TLInput'), ('_namechars', 'strset')], mutable=True)
    S.declare_record('BInput', [('ignorecase', 'bool'), ('nameguard', 'bool'), ('_namechar_set', 'strset'), ('len', 'int')])
    S.declare_record('BCursor', [('pos', 'int'), ('len', 'int'), ('textstr', 'str'), ('buffer', 'BInput')], mutable=True)
    S.declare_record('ASTD', [('dkeys', 'strset'), ('dvals', 'strmap')], mutable=True)
    S.declare_record('AlertR', [('level', 'int'), ('message', 'Val')])
    S.declare_record('Frame', [
        ('cursor', 'Cursor'), ('ast', 'ASTD'), ('cst', 'Val'), ('cutseen', 'bool'),
        ('last_node', 'Val'), ('alerts', 'seq[AlertR]'),
    ], mutable=True)
    S.declare_record('RuleInfoR', [
        ('name', 'str'), ('instance', 'int'), ('func', 'int'), ('no_memo', 'bool'), ('no_stak', 'bool'),
        ('is_name', 'bool'), ('is_tokn', 'bool'), ('is_lrec', 'bool'), ('is_memo', 'bool'),
        ('params', 'Val'), ('kwparams', 'Val'),
    ])
    S.declare_record('MemoKeyR', [('pos', 'int'), ('ruleinfo', 'RuleInfoR')])
    S.declare_record('RuleResultR', [('node', 'Val'), ('newpos', 'int')])
    S.declare_record('ParseInfoR', [('cursor', 'Cursor'), ('rule', 'Val'), ('pos', 'int'), ('endpos', 'int'), ('line', 'int'),
                                    ('endline', 'int'), ('alerts', 'seq[AlertR]')])

    # what the memo tables hold: a rule result, a remembered failure (exception class + identity) or nothing
    S.declare_union('Outcome', [('o_none', []), ('o_ok', [('res', 'RuleResultR')]), ('o_err', [('cls', 'int'), ('eid', 'int')])])
    S.declare_record('RGB', [('r', 'int'), ('g', 'int'), ('b', 'int')])
    # a colour attribute of a Style: an index (-1 = unset, 0..255) or an RGB triple
    S.declare_union('ColorSpec', [('c_idx', [('i', 'int')]), ('c_rgb', [('rgb', 'RGB')])])
    S.declare_record('ConfigR', [
        ('left_recursion', 'bool'), ('memoization', 'bool'), ('prune_memos_on_cut', 'bool'), ('parseinfo', 'bool'),
        ('ignorecase', 'bool'), ('trace', 'bool'), ('keywords', 'strset'), ('semantics', 'int'), ('heart', 'Val'),
    ])
    reg.classes['DictD'] = {'mro': [], 'fields': {'dkeys': 'strset', 'dvals': 'strmap'}, 'isa': ['dict']}
    for attr, srt in {'attr': 'str', 'id': 'str', 'ctx': 'opaque:AstNode', 'func': 'opaque:AstNode', 'args': 'seq[opaque:AstNode]'}.items():
        reg.opaque_attrs[('AstNode', attr)] = ('attr', srt)
    reg.classes['BDict'] = {'mro': ['tatsu/util/boundeddict.py:BoundedDict'],
                            'fields': {'okeys': 'seq[MemoKeyR]', 'ovals': 'arr[MemoKeyR,Outcome]', 'capacity': 'int'},
                            'wf': ['self.capacity >= 1'], 'isa': ['dict', 'BoundedDict']}
    reg.classes['StyleP'] = {'mro': ['tatsu/ztyle/style.py:Style'], 'fields': {
        'enabled': 'bool', 'value': 'str', '_fmt': 'Val', '_fg': 'ColorSpec', '_bg': 'ColorSpec', '_bold': 'bool', '_dim': 'bool', '_italic': 'bool',
        '_underline': 'bool', '_blink': 'bool', '_inverse': 'bool', '_hidden': 'bool', '_strikethrough': 'bool'}, 'isa': ['Style', 'str']}
    reg.classes['RGB'] = {'mro': [], 'isa': ['RGB']}
    reg.classes['MemoD'] = {
        'mro': [], 'fields': {'mkeys': 'arr[MemoKeyR,bool]', 'mvals': 'arr[MemoKeyR,Outcome]'}, 'isa': ['dict'],
    }
    reg.classes['Ctx'] = {
        'mro': ['tatsu/peg/base.py:ModelContext', 'tatsu/contexts/context.py:ParseContext', 'tatsu/contexts/engine.py:ParserEngine',
                'tatsu/contexts/core.py:ParserCore'],
        'fields': {'states': 'States', 'tracer': 'opaque:Tracer', '_active_config': 'ConfigR',
                   'keywords': 'strset', 'semantics': 'opaque:Semantics', '_memos': 'MemoD', '_results': 'MemoD',
                   'textlen': 'int', '_config': 'ConfigR',
                   # ghost: the node last handed to set_parseinfo() (C12: the node that carries a rule's parse information is the
                   # node the rule returns, i.e. the one the semantic action produced)
                   'ghost_stamped': 'Val',
                   # ghost: identity of the failure last handed to set_furthest_exception() (C04: every failing rule invocation
                   # records its failure for error reporting, whether the failure was computed or replayed from the memo table)
                   'ghost_recorded': 'int'},
        'wf': ['len(self.states.state_stack) >= 1', 'spec_frame_wf(self.states.state_stack[-1])',
               'self.states.state_stack[-1].cursor.len == self.textlen'],
        'isa': ['Ctx', 'ParseContext', 'ParserEngine', 'ParserCore'],
        # outside every contract's view (progress callback state, error-reporting bookkeeping, the text object behind the cursor)
        'untracked': ['heart', 'lastbeat_time', 'lastbeat_pos', '_furthest_exception', 'input'],
    }
    # grammar-model nodes are opaque objects; attributes are uninterpreted functions of the node
    for attr, srt in {'exp': 'opaque:Model', 'sep': 'opaque:Model', 'name': 'str', 'token': 'str', 'pattern': 'str',
                      'literal': 'Val', 'sequence': 'seq[opaque:Model]', 'options': 'seq[opaque:Model]',
                      'expectingstr': 'str', '_rule': 'optopaque:Model', 'rhs': 'opaque:Model', '_exp': 'optopaque:Model'}.items():
        reg.opaque_attrs[('Model', attr)] = ('attr', srt)
    reg.opaque_attrs[('Model', '_parse')] = ('method', 'PARSE')
    reg.opaque_attrs[('Model', 'is_nullable')] = ('ufmethod', 'uf_is_nullable:bool')
    reg.opaque_attrs[('Model', '_nullable')] = ('attr', 'bool')
    reg.ctx_methods = {'find_rule': 'tatsu/peg/base.py:ModelContext.find_rule'}
    reg.opaque_attrs[('Model', '_add_defined')] = ('contract', 'tatsu/peg/base.py:Model._add_defined')
    for m in ('trace_match', 'trace_cut', 'trace_entry', 'trace_success', 'trace_failure', 'trace_event'):
        reg.opaque_attrs[('Tracer', m)] = ('method', 'NOOP')
    reg.exc_attrs.update({'pos': 'int'})

    reg.record_field_kind = {('RuleInfoR', 'func'): 'func:PARSE', ('RuleInfoR', 'instance'): 'opaque:Model',
                             ('ConfigR', 'semantics'): 'opaque:Semantics'}
    reg.opaque_attrs[('Semantics', 'set_context')] = ('method', 'NOOP')
    reg.import_consts = {'_AT_': 'tatsu/contexts/state.py'}
    reg.class_alias = {
        'ParseState': 'Frame', 'AST': 'ASTD', 'Alert': 'AlertR', 'RuleInfo': 'RuleInfoR',
        'MemoKey': 'MemoKeyR', 'RuleResult': 'RuleResultR', 'ParseStateStack': 'States',
        'TextLinesCursor': 'Cursor', 'ParserConfig': 'ConfigR', 'ParseInfo': 'ParseInfoR', 'ChoiceContext': 'ChoiceCtx',
    }
    reg.record_defaults = {'AlertR': {'level': 1, 'message': ''}}

    # a cursor as the matcher helpers in tatsu/input/cursor.py see it (Cursor protocol):
    # text as an array string, position, length, extra name characters.
    reg.classes['ACursor'] = {
        'mro': ['tatsu/input/textlines.py:TextLinesCursor'],
        'fields': {'textstr': 'arrstr', 'pos': 'int', 'len': 'int', 'namechars': 'charset'},
        'wf': ['self.len == len(self.textstr)', '0 <= self.pos', 'self.pos <= self.len'],
        'isa': ['Cursor'],
    }
    # the legacy Buffer twins on the character view
    reg.classes['ABInput'] = {'mro': ['tatsu/input/buffer.py:Buffer'], 'fields': {'_namechar_set': 'charset'}}
    reg.classes['ABCursor'] = {'mro': ['tatsu/input/buffer.py:BufferCursor'], 'fields': {'buffer': 'ABInput'}, 'isa': ['Cursor']}
    reg.classes['ABuffer'] = {'mro': ['tatsu/input/buffer.py:Buffer'], 'fields': {'_namechar_set': 'charset'}}
    reg.imports['notnone'] = 'tatsu/util/typetools.py:notnone'
    reg.classes['LInput'] = {'mro': ['tatsu/input/textlines.py:TextLines'],
                             'fields': {'line_cache': 'arrlist[PosLine]', 'textlen': 'int'}}
    reg.classes['LCursor'] = {'mro': ['tatsu/input/textlines.py:TextLinesCursor'], 'fields': {'pos': 'int', '_input': 'LInput'},
                              'wf': ['0 <= self.pos', 'self.pos <= self._input.textlen',
                                     'len(self._input.line_cache) == 0 or len(self._input.line_cache) == self._input.textlen + 1']}
    # the text object with everything lineinfo() reads.  Ghosts of the line structure are passed by the contract.
    reg.classes['LInput2'] = {'mro': ['tatsu/input/textlines.py:TextLines'],
                              'fields': {'line_cache': 'arrlist[PosLine]', 'line_index': 'arrlist[LineIndexInfo]',
                                         'textstr': 'str', 'len': 'int', 'source': 'Val'}}  # len, source: properties read as fields
    reg.classes['LCursor2'] = {'mro': ['tatsu/input/textlines.py:TextLinesCursor'], 'fields': {'pos': 'int', '_input': 'LInput2'},
                               'wf': ['0 <= self.pos', 'self.pos <= self._input.len']}
    # the legacy Buffer twins of lineinfo(): the cursor's view of its buffer, and the buffer's own copy of the function
    reg.classes['BufInput2'] = {'mro': ['tatsu/input/buffer.py:Buffer'],
                                'fields': {'linecache': 'arrlist[PosLine]', 'lineindex': 'arrlist[LineIndexInfo]',
                                           'text': 'str', 'len': 'int', 'source': 'Val'}}  # source: property read as a field
    reg.classes['BufCursor2'] = {'mro': ['tatsu/input/buffer.py:BufferCursor'], 'fields': {'pos': 'int', 'buffer': 'BufInput2'},
                                 'wf': ['0 <= self.pos', 'self.pos <= self.buffer.len']}
    reg.classes['BufOwn2'] = {'mro': ['tatsu/input/buffer.py:Buffer'],
                              'fields': {'linecache': 'arrlist[PosLine]', 'lineindex': 'arrlist[LineIndexInfo]',
                                         'text': 'str', 'len': 'int', 'source': 'Val', 'pos': 'int'},
                              'wf': ['0 <= self.pos', 'self.pos <= self.len']}
    # the object generated code collects the options of a choice in (`with ctx.choice() as ch: @ch.option ...`)
    reg.classes['ChoiceCtx'] = {'mro': ['tatsu/contexts/ctxlib/choice.py:ChoiceContext', 'tatsu/contexts/ctxlib/_base.py:ContextBase'],
                                'fields': {'options': 'seq[func:PARSE]', 'expected': 'seq[str]'},
                                'untracked': ['ctx', 'result'], 'isa': ['ChoiceContext', 'ContextBase']}
    reg.classes['LineInfo'] = {'mro': ['tatsu/input/infos.py:LineInfo'], 'isa': ['LineInfo']}
    reg.classes['LineIndexInfo'] = {'mro': ['tatsu/input/infos.py:LineIndexInfo'], 'isa': ['LineIndexInfo']}
    reg.classes['Cursor'] = {
        'mro': ['tatsu/input/textlines.py:TextLinesCursor'],
        'wf': ['self.len == len(self.textstr)', '0 <= self.pos', 'self.pos <= self.len', 'self._namechars == self.input._namechar_set'],
        'isa': ['Cursor', 'TextLinesCursor'],
    }
    reg.opaque_attrs[('*', 'namechars')] = ('attr', 'strset')
    reg.classes['BCursor'] = {
        'mro': ['tatsu/input/buffer.py:BufferCursor'],
        'wf': ['self.len == len(self.textstr)', 'self.buffer.len == self.len', '0 <= self.pos', 'self.pos <= self.len'],
        'isa': ['Cursor', 'BufferCursor'],
    }
    reg.classes['ASTD'] = {'mro': ['tatsu/contexts/ast.py:AST'], 'isa': ['AST', 'dict']}
    reg.classes['Frame'] = {
        'mro': ['tatsu/contexts/state.py:ParseState'],
        'isa': ['ParseState'],
    }
    reg.classes['PosLine'] = {'mro': ['tatsu/input/infos.py:PosLine'], 'isa': ['PosLine']}
    # text objects: `TextLines` built by bound() from a str; any other Text implementation is an opaque TextObj
    reg.classes['Text'] = {'isa': ['Text'], 'opaque_kinds': ['TextObj']}
    reg.classes['NullText'] = {'isa': ['NullText']}
    reg.classes['NullCursor'] = {'isa': ['NullCursor']}
    reg.classes['TextLines'] = {'mro': ['tatsu/input/textlines.py:TextLines'], 'fields': {}, 'isa': ['Text', 'TextLines']}
    # a configuration object seen as its attribute table (C09/C10 layering): dkeys = attribute names, dvals = values;
    # cvals = the values its constructor was called with (ghost: what dataclasses.replace passes to __init__, before
    # __post_init__ normalises them)
    reg.classes['CfgD'] = {'mro': ['tatsu/config.py:ParserConfig', 'tatsu/util/configs.py:Config'],
                           'fields': {'dkeys': 'strset', 'dvals': 'strmap', 'cvals': 'strmap'},
                           'isa': ['Config', 'ParserConfig', 'ConfigR'], 'attrview': True,
                           'wf': ["self.dkeys['grammar']", "self.dkeys['name']"]}  # fields of every ParserConfig
    # a semantics object seen as its attribute table (C06: the action is looked up by name)
    reg.classes['SemD'] = {'mro': [], 'fields': {'dkeys': 'strset', 'dvals': 'strmap'}, 'attrview': True}
    reg.classes['ConfigR'] = {'mro': ['tatsu/config.py:ParserConfig', 'tatsu/util/configs.py:Config'], 'isa': ['ParserConfig', 'Config']}
    reg.classes['RuleInfoR'] = {'mro': ['tatsu/contexts/infos.py:RuleInfo'], 'isa': ['RuleInfo']}
    reg.classes['MemoKeyR'] = {'mro': ['tatsu/contexts/infos.py:MemoKey'], 'isa': ['MemoKey']}
    reg.classes['RuleResultR'] = {'mro': ['tatsu/contexts/infos.py:RuleResult'], 'isa': ['RuleResult']}
    reg.classes['ParseInfoR'] = {'mro': ['tatsu/contexts/infos.py:ParseInfo'], 'isa': ['ParseInfo']}
    reg.classes['AlertR'] = {'mro': ['tatsu/contexts/infos.py:Alert'], 'isa': ['Alert']}
    reg.classes['States'] = {
        'mro': ['tatsu/contexts/state.py:ParseStateStack'],
        'fields': {'state_stack': 'stack[Frame,1]', 'callstack': 'seq[RuleInfoR]'},
        'wf': ['len(self.state_stack) >= 1'],
        'isa': ['ParseStateStack'],
    }


def _build_acursor(f):
    from tatsu.input.textlines import TextLines
    t = TextLines(f['textstr'], namechars=''.join(sorted(f.get('namechars') or '')), whitespace='')
    c = t.newcursor()
    c.goto(f['pos'])
    return c


def _build_lcursor2(f):
    # the line cache and index are re-derived from the text by the real constructor
    from tatsu.input.textlines import TextLines
    c = TextLines(f['_input'][2]['textstr']).newcursor()
    c.pos = f['pos']
    return c


def _ghosts_lineinfo(args):
    inp = args['self']._input
    starts = [0]
    for ln in inp.lines:
        starts.append(starts[-1] + len(ln))
    lineof = [k for k, ln in enumerate(inp.lines) for _ in ln]
    return {'starts': starts, 'lineof': lineof, 'nl': len(inp.lines), 'terminated': inp.textstr[-1:] in ('\r', '\n')}


def _build_abcursor(f):
    from tatsu.input.buffer import Buffer
    return Buffer('', namechars=''.join(sorted(f['buffer'][2].get('_namechar_set') or ''))).newcursor()


def _build_abuffer(f):
    from tatsu.input.buffer import Buffer
    return Buffer('', namechars=''.join(sorted(f.get('_namechar_set') or '')))


def _build_bufcursor2(f):
    from tatsu.input.buffer import Buffer
    c = Buffer(f['buffer'][2]['text']).newcursor()
    c.pos = f['pos']
    return c


def _build_bufown2(f):
    from tatsu.input.buffer import Buffer
    b = Buffer(f['text'])
    b.goto(f['pos'])
    return b


def _ghosts_from_lines(lines, text):
    starts = [0]
    for ln in lines:
        starts.append(starts[-1] + len(ln))
    return {'starts': starts, 'lineof': [k for k, ln in enumerate(lines) for _ in ln], 'nl': len(lines),
            'terminated': text[-1:] in ('\r', '\n')}


BUILDERS = {'ACursor': _build_acursor, 'ABCursor': _build_abcursor, 'ABuffer': _build_abuffer, 'LCursor2': _build_lcursor2, 'BufCursor2': _build_bufcursor2, 'BufOwn2': _build_bufown2,
            'ghosts:tatsu/input/textlines.py:TextLinesCursor.lineinfo': _ghosts_lineinfo,
            'ghosts:tatsu/input/buffer.py:BufferCursor.lineinfo': lambda a: _ghosts_from_lines(a['self'].buffer.text.splitlines(True), a['self'].buffer.text),
            'ghosts:tatsu/input/buffer.py:Buffer.lineinfo': lambda a: _ghosts_from_lines(a['self'].text.splitlines(True), a['self'].text)}
