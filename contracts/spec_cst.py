"""CST algebra as the documentation states it (docs/ast.rst, docs/syntax.rst):
a rule's value is None (nothing), the single element, or the list of elements in order;
closures are *closed* lists that count as ONE element of their caller; groups and optionals are
spliced.  `flat(v)` = the elements a value contributes to the enclosing sequence."""
from tatsu.contexts.cst import closedlist  # noqa: F401  (concrete mode)


def spec_islist(v):
    return isinstance(v, list) and not isinstance(v, closedlist)


def spec_flat(v):
    if v is None:
        return []
    if spec_islist(v):
        return list(v)
    return [v]


def spec_cstfinal(v):
    if spec_islist(v):
        return closedlist(v)
    return v


def spec_cstadd(cst, node):
    if cst is None:
        return node
    return spec_flat(cst) + [node]


def spec_cstaddlist(cst, node):
    return spec_flat(cst) + [node]


def spec_cstmerge(cst, other):
    if other is None:
        return cst
    if cst is None:
        return other
    return spec_flat(cst) + spec_flat(other)
