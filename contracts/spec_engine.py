"""Rule layer (symbolic-only spec functions)."""


def spec_fold(f):
    """value of a rule body (docs/ast.rst): the names dict when there are names (its override when `@:` was used),
    else the closed cst"""
    return (spec_cstfinal(f.cst) if not f.ast else (dict_get(f.ast, '__vallue__') if dict_has(f.ast, '__vallue__') else f.ast))


def uf_keyword_text(node) -> 'str':
    """str(node)"""
    raise NotImplementedError


def uf_has_action(semantics, name) -> 'bool':
    raise NotImplementedError


def uf_action(semantics, name) -> 'int':
    raise NotImplementedError


def uf_act_ret(action, node, params, kwparams) -> 'Val':
    """what the semantic action returns for this node (actions are deterministic: assumption of C04/C06)"""
    raise NotImplementedError


def uf_act_fails(action, node, params, kwparams) -> 'bool':
    raise NotImplementedError


def spec_cfg_same_but_semantics(a, b):
    """two configurations (fixed-field view) that differ at most in `semantics`"""
    return (a.left_recursion == b.left_recursion and a.memoization == b.memoization and a.prune_memos_on_cut == b.prune_memos_on_cut
            and a.parseinfo == b.parseinfo and a.ignorecase == b.ignorecase and a.trace == b.trace and a.keywords == b.keywords
            and a.heart == b.heart)
