"""Sidecar contracts for neogeny/TatSu (nothing in /repo is edited).

`build_registry()` returns the ContractRegistry with every contract, record declaration, spec
function and opaque-attribute declaration.  Contract clauses are python expression strings in the
pyvc subset: pyvc interprets their AST symbolically, the bounded monitors `eval` them.
"""
from __future__ import annotations

import importlib
import os
import pkgutil

from pyvc.contracts import Contract, ContractRegistry

HERE = os.path.dirname(os.path.abspath(__file__))


def build_registry() -> ContractRegistry:
    reg = ContractRegistry()
    from . import records
    records.declare(reg)
    for name in sorted(os.listdir(HERE)):
        if name.startswith('spec_') and name.endswith('.py'):
            reg.load_specs(os.path.join(HERE, name))
    for m in sorted(pkgutil.iter_modules([HERE]), key=lambda m: m.name):
        if m.name.startswith('c_'):
            mod = importlib.import_module(f'contracts.{m.name}')
            mod.register(reg)
    return reg


def contract(reg, key, props, sig, **kw):
    return reg.add(Contract(key=key, props=props, sig=sig, **kw))
