"""Sidecar contracts for neogeny/TatSu (nothing in /repo is edited).

`build_registry()` returns the ContractRegistry with every contract, record declaration, spec
function and opaque-attribute declaration.  Contract clauses are python expression strings in the
pyvc subset: pyvc interprets their AST symbolically, the bounded monitors `eval` them.
"""
from __future__ import annotations

import importlib
import os
import pkgutil

from pyvc.contracts import Contract, ContractRegistry

HERE = os.path.dirname(os.path.abspath(__file__))


def build_registry() -> ContractRegistry:
    reg = ContractRegistry()
    from . import records
    records.declare(reg)
    for name in sorted(os.listdir(HERE)):
        if name.startswith('spec_') and name.endswith('.py'):
            reg.load_specs(os.path.join(HERE, name))
    for m in sorted(pkgutil.iter_modules([HERE]), key=lambda m: m.name):
        if m.name.startswith('c_'):
            mod = importlib.import_module(f'contracts.{m.name}')
            mod.register(reg)
    return reg


def contract(reg, key, props, sig, **kw):
    if 'modifies' not in kw:
        first = next(iter(sig), None)
        sorts = {k: v.split('{')[0] for k, v in sig.items()}
        if sorts.get('self') == 'Ctx':
            kw['modifies'] = ['self.states.state_stack']
        elif sorts.get('ctx') == 'Ctx':
            kw['modifies'] = ['ctx.states.state_stack']
    c = Contract(key=key, props=props, sig=sig, **kw)
    # lint: a clause that speaks about old_<p> describes a state change of p, which must be declared
    text = ' '.join([x[1] if isinstance(x, tuple) else x for x in c.ensures] + [y for v in c.raises.values() for y in v])
    for name in c.sig:
        if f'old_{name}' in text and not any(m.strip() == name or m.strip().startswith(name + '.') for m in c.modifies):
            raise ValueError(f'contract {key}: clauses mention old_{name} but `modifies` declares no path under {name}')
    return reg.add(c)
