"""C18: what a task does, as functions of (function, payload) -- declared only (uninterpreted for the prover); the bodies serve
the concrete harness of the bounded runs."""


def uf_is_set(stop) -> 'bool':
    return stop.is_set()


def uf_task_raises(f, payload) -> 'bool':
    try:
        f(payload)
    except BaseException:  # noqa: BLE001
        return True
    return False


def uf_task_ret(f, payload) -> 'Val':
    return f(payload)


def uf_task_exc_cls(f, payload) -> 'int':
    try:
        f(payload)
    except BaseException as e:  # noqa: BLE001
        return id(type(e))
    return -1


def uf_task_exc_id(f, payload) -> 'int':
    try:
        f(payload)
    except BaseException as e:  # noqa: BLE001
        return id(e)
    return -1


def uf_pick(f, outcome) -> 'Val':
    return f(outcome)
