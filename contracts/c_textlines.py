"""tatsu/input/textlines.py -- C09 (tokens, nameguard, ignorecase, whitespace skipping), C08 (termination)."""
from . import contract

T = 'tatsu/input/textlines.py'
P = ['C09', 'C08', 'C01']
KEEP = ['self.len == old_self.len', 'self.textstr == old_self.textstr', 'self.input == old_self.input', 'self._namechars == old_self._namechars']


def register(reg):
    contract(reg, f'{T}:TextLinesCursor.move', P, {'self': 'Cursor', 'n': 'int'}, ret='None', modifies=['self'], wf=False,
             ensures=[('property', 'self.pos == max(0, min(self.len, old_self.pos + n))'), *KEEP])
    contract(reg, f'{T}:TextLinesCursor.atend', P, {'self': 'Cursor'}, ret='bool',
             ensures=[('property', 'result == (self.pos >= self.len)')])
    contract(reg, f'{T}:TextLinesCursor.is_name_char', P, {'self': 'Cursor', 'c': 'Val'}, ret='bool',
             requires=['c is None or isinstance(c, str)'],
             ensures=[('property', 'result == (c is not None and spec_is_name_char(self, c))')], inline=True)
    # "the token is a name" on the character view (C09: an alphanumeric token is guarded).  The code asks for a letter
    # (or name character) first; the property says alphanumeric: the second clause is the property's reading
    NC = '(c.isalnum() or c in self.namechars)'
    contract(reg, f'{T}:TextLinesCursor.is_name#chars', ['C09'], {'self': 'ACursor', 's': 'arrstr'}, ret='bool', modifies=[],
             ensures=[('property', f'result == (len(s) > 0 and (s[0].isalpha() or s[0] in self.namechars) and all({NC} for c in s[1:]))'),
                      ('property', f'result == (len(s) > 0 and all({NC} for c in s))')])
    for key, srt, NCS in ((f'tatsu/input/buffer.py:BufferCursor.is_name#chars', 'ABCursor', 'self.buffer._namechar_set'),
                          (f'tatsu/input/buffer.py:Buffer.is_name#chars', 'ABuffer', 'self._namechar_set')):
        NCB = f'(c.isalnum() or c in {NCS})'
        contract(reg, key, ['C09'], {'self': srt, 's': 'arrstr'}, ret='bool', modifies=[],
                 ensures=[('property', f'result == (len(s) > 0 and (s[0].isalpha() or s[0] in {NCS}) and all({NCB} for c in s[1:]))'),
                          ('property', f'result == (len(s) > 0 and all({NCB} for c in s))')])
    contract(reg, f'{T}:TextLinesCursor.is_name#rec', P, {'self': 'Cursor', 's': 'str'}, ret='bool', verify=False,
             ensures=['result == uf_is_name(self.input._namechar_set, s)'],
             note='`all(... for c in s[1:])` over characters: the notion "token is a name" is left uninterpreted (bounded check B:C09/is-name)')
    contract(reg, f'{T}:TextLinesCursor.match', P, {'self': 'Cursor', 'token': 'str'}, ret='Val', modifies=['self'],
             ensures=[('property', 'implies(spec_token_matches(old_self, old_self.pos, token), result == token and self.pos == min(self.len, old_self.pos + len(token)))'),
                      ('property', 'implies(not spec_token_matches(old_self, old_self.pos, token), result is None and self.pos == old_self.pos)'),
                      *KEEP])
    # regex engine: external.  What is assumed: a successful match ends at or after the position.
    contract(reg, f'{T}:TextLinesCursor._matchre_fast', P, {'self': 'Cursor', 'pattern': 'Val'}, ret='bool', modifies=['self'], verify=False,
             ensures=['result == (bool(pattern) and uf_re_end(old_self.textstr, old_self.pos, pattern) >= 0)',
                      'implies(result, self.pos == uf_re_end(old_self.textstr, old_self.pos, pattern))',
                      'implies(result, old_self.pos <= self.pos and self.pos <= self.len)',
                      'implies(not result, self.pos == old_self.pos)', *KEEP],
             note='re.match is external: a match at pos ends in [pos, len]; it may be empty')
    contract(reg, f'{T}:TextLinesCursor._eat_regex', P, {'self': 'Cursor', 'regex': 'Val'}, ret='bool', modifies=['self'],
             ensures=[('property', 'self.pos >= old_self.pos'), 'self.pos <= self.len',
                      ('property', 'result == (self.pos > old_self.pos)'),
                      ('property', 'spec_stable(self, self.pos, regex)'), *KEEP],
             invariants={0: ['p == self.pos', 'self.pos >= old_self.pos', 'self.pos <= self.len', 'res == (self.pos > old_self.pos)', *KEEP]},
             decreases={0: 'self.len - self.pos'})
    contract(reg, f'{T}:TextLinesCursor.next_token', P, {'self': 'Cursor'}, ret='None', modifies=['self'],
             ensures=[('property', 'self.pos >= old_self.pos'), 'self.pos <= self.len',
                      ('property', 'spec_stable(self, self.pos, self.input.whitespace_re)'),
                      ('property', 'spec_stable(self, self.pos, self.input.config.eol_comments)'),
                      ('property', 'spec_stable(self, self.pos, self.input.config.comments)'), *KEEP],
             invariants={0: ['p <= self.pos', 'self.pos >= old_self.pos', 'self.pos <= self.len', *KEEP,
                             'implies(self.pos == p, spec_stable(self, self.pos, self.input.whitespace_re) and '
                             'spec_stable(self, self.pos, self.input.config.eol_comments) and spec_stable(self, self.pos, self.input.config.comments))'],
                         1: ['self.pos >= p', 'self.pos >= old_self.pos', 'self.pos <= self.len', *KEEP,
                             'implies(self.pos == p, spec_stable(self, self.pos, self.input.whitespace_re))']},
             decreases={0: 'self.len - p', 1: 'self.len - self.pos'},
             assumed_ensures=[('A:next_token-is-a-function', 'self.pos == uf_ws_end(old_self)')])
    contract(reg, f'{T}:TextLinesCursor.matchre', P, {'self': 'Cursor', 'pattern': 'str'}, ret='Val', modifies=['self'], verify=False,
             ensures=['implies(uf_re_end_s(old_self.textstr, old_self.pos, pattern) < 0, result is None and self.pos == old_self.pos)',
                      'implies(uf_re_end_s(old_self.textstr, old_self.pos, pattern) >= 0, result is not None and '
                      'result == uf_re_token(old_self.textstr, old_self.pos, pattern) and '
                      'self.pos == min(self.len, uf_re_end_s(old_self.textstr, old_self.pos, pattern)) and self.pos >= old_self.pos)',
                      *KEEP],
             note='re.match is external')
    contract(reg, f'{T}:TextLinesCursor.next', P, {'self': 'Cursor'}, ret='Val', modifies=['self'],
             ensures=[('property', 'implies(old_self.pos >= old_self.len, result is None and self.pos == old_self.pos)'),
                      ('property', 'implies(old_self.pos < old_self.len, result == old_self.textstr[old_self.pos] and self.pos == old_self.pos + 1)'),
                      *KEEP])


    # ---- the Buffer cursor: the same token rule and the same termination argument (C09 "both input implementations")
    Bf = 'tatsu/input/buffer.py'
    KB = ['self.len == old_self.len', 'self.textstr == old_self.textstr', 'self.buffer == old_self.buffer']
    contract(reg, f'{Bf}:BufferCursor.goto', P, {'self': 'BCursor', 'pos': 'int'}, ret='None', modifies=['self'], wf=False,
             ensures=[('property', 'self.pos == max(0, min(self.buffer.len, pos))'), *KB])
    contract(reg, f'{Bf}:BufferCursor.move', P, {'self': 'BCursor', 'n': 'int'}, ret='None', modifies=['self'], wf=False,
             ensures=[('property', 'self.pos == max(0, min(self.buffer.len, old_self.pos + n))'), *KB])
    contract(reg, f'{Bf}:BufferCursor.is_name', P, {'self': 'BCursor', 's': 'str'}, ret='bool', verify=False,
             ensures=['result == uf_is_name(self.buffer._namechar_set, s)'],
             note='same reason as TextLinesCursor.is_name')
    contract(reg, f'{Bf}:BufferCursor.match', P, {'self': 'BCursor', 'token': 'str'}, ret='Val', modifies=['self'],
             ensures=[('property', 'implies(spec_token_matches_b(old_self, old_self.pos, token), result == token and self.pos == min(self.len, old_self.pos + len(token)))'),
                      ('property', 'implies(not spec_token_matches_b(old_self, old_self.pos, token), result is None and self.pos == old_self.pos)'),
                      *KB])
    contract(reg, f'{Bf}:BufferCursor._matchre_fast', P, {'self': 'BCursor', 'pattern': 'Val'}, ret='bool', modifies=['self'], verify=False,
             ensures=['implies(result, old_self.pos <= self.pos and self.pos <= self.len)',
                      'implies(not result, self.pos == old_self.pos)', *KB],
             note='re.match is external: a match at pos ends in [pos, len]; it may be empty')
    contract(reg, f'{Bf}:BufferCursor._eat_regex', P, {'self': 'BCursor', 'regex': 'Val'}, ret='None', modifies=['self'],
             ensures=[('property', 'self.pos >= old_self.pos'), 'self.pos <= self.len', *KB],
             invariants={0: ['p == self.pos', 'self.pos >= old_self.pos', 'self.pos <= self.len', *KB]},
             decreases={0: 'self.len - self.pos'})
