"""tatsu/peg/leftrec/pegen.py and the `_nullable` overrides -- C16 (and C03)."""
from . import contract

L = 'tatsu/peg/leftrec/pegen.py'
P = ['C16', 'C03']


def register(reg):
    contract(reg, f'{L}:_is_nullable_safe', P, {'exp': 'opaque:Model'}, ret='bool', modifies=[],
             ensures=[  # case by case first (no recursive definition involved: refutable with a concrete node)
                      ('property', 'implies(isinstance(exp, Call), not result)'),
                      ('property', 'implies(not isinstance(exp, (Call, Sequence, Choice)), result == uf_is_nullable(exp))'),
                      ('property', 'result == spec_nullable_safe(exp)')])
    # nullability clauses of the node kinds (docs: what can match the empty string)
    S = 'tatsu/peg/syntax.py'
    B = 'tatsu/peg/basic.py'
    C = 'tatsu/peg/closure.py'
    Ch = 'tatsu/peg/choice.py'
    always = [(S, 'Lookahead'), (S, 'NegativeLookahead'), (S, 'Optional'), (B, 'EOL'), (B, 'Constant'), (B, 'Cut'),
              (C, 'Closure'), (C, 'Join'), (C, 'EmptyClosure'), ('tatsu/peg/base.py', 'NIL'), ('tatsu/peg/base.py', 'Void')]
    for f, cls in always:
        contract(reg, f'{f}:{cls}._nullable', P, {'self': 'opaque:Model'}, ret='bool', modifies=[],
                 ensures=[('property', 'result')])
    contract(reg, 'tatsu/peg/base.py:Model._nullable', P, {'self': 'opaque:Model'}, ret='bool', modifies=[],
             ensures=[('property', 'not result')])
    contract(reg, f'{S}:Sequence._nullable', P, {'self': 'opaque:Model'}, ret='bool', modifies=[],
             ensures=[('property', 'result == all(s._nullable for s in self.sequence)')])
    contract(reg, f'{Ch}:Choice._nullable', P, {'self': 'opaque:Model'}, ret='bool', modifies=[],
             ensures=[('property', 'result == any(o._nullable for o in self.options)')])
    for f, cls in (('tatsu/peg/base.py', 'Box'), ('tatsu/peg/base.py', 'Rule'), (C, 'PositiveJoin')):
        contract(reg, f'{f}:{cls}._nullable', P, {'self': 'opaque:Model'}, ret='bool', modifies=[],
                 ensures=[('property', 'result == self.exp._nullable')])
    for cls in ('PositiveClosure', 'PositiveGather'):
        contract(reg, f'{C}:{cls}._nullable', P, {'self': 'opaque:Model'}, ret='bool', modifies=[],
                 ensures=[('property', 'result == uf_is_nullable(self.exp)')])
