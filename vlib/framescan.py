"""Finite-complete frame scans (kind F): attribute stores in the repository source.

A contract's frame (`modifies`) for code we do not interpret (the with-body of bound(), user callbacks) rests on a
syntactic fact: in the whole package an attribute of that name is assigned only at the listed sites.  The scan
re-reads every file under /repo/tatsu on every run and is complete for `x.<attr> = ...`, augmented assignments,
`del x.<attr>`, annotated assignments and for/with/walrus targets; it does not see setattr()/__dict__ writes
(searched for separately as string constants naming the attribute)."""
from __future__ import annotations

import ast
import os

from vlib.runner import Item

REPO = os.environ.get('VERIF_REPO', '/repo')


def _enclosing(tree):
    """node id -> qualified name of the innermost enclosing def/class"""
    out = {}

    def walk(node, q):
        for ch in ast.iter_child_nodes(node):
            if isinstance(ch, (ast.FunctionDef, ast.AsyncFunctionDef, ast.ClassDef)):
                walk(ch, (q + '.' if q else '') + ch.name)
            else:
                out[id(ch)] = q
                walk(ch, q)
    walk(tree, '')
    return out


def attribute_stores(attrs):
    """[(relpath, qualname, lineno, attr, how)] of every store to an attribute named in `attrs` under tatsu/"""
    hits = []
    nfiles = 0
    for root, _dirs, files in os.walk(os.path.join(REPO, 'tatsu')):
        for f in sorted(files):
            if not f.endswith('.py'):
                continue
            path = os.path.join(root, f)
            rel = os.path.relpath(path, REPO)
            try:
                tree = ast.parse(open(path, encoding='utf-8').read())
            except SyntaxError as e:
                hits.append((rel, '<unparsed>', e.lineno or 0, '?', f'file does not parse under this interpreter: {e.msg}'))
                continue
            nfiles += 1
            enc = _enclosing(tree)
            for node in ast.walk(tree):
                if isinstance(node, ast.Attribute) and node.attr in attrs and isinstance(node.ctx, (ast.Store, ast.Del)):
                    hits.append((rel, enc.get(id(node), ''), node.lineno, node.attr, 'store' if isinstance(node.ctx, ast.Store) else 'del'))
                if isinstance(node, ast.Call) and isinstance(node.func, ast.Name) and node.func.id in ('setattr', 'delattr') and len(node.args) >= 2 \
                        and isinstance(node.args[1], ast.Constant) and node.args[1].value in attrs:
                    hits.append((rel, enc.get(id(node), ''), node.lineno, node.args[1].value, node.func.id))
    return hits, nfiles


def scan_item(prop, name, attrs, allowed: dict[str, str], note):
    """allowed: 'relpath:qualname' -> reason.  Any other store site refutes the frame."""
    hits, nfiles = attribute_stores(set(attrs))
    unparsed = [h for h in hits if h[1] == '<unparsed>']
    hits = [h for h in hits if h[1] != '<unparsed>']
    bad = [h for h in hits if f'{h[0]}:{h[1]}' not in allowed]
    seen = sorted({f'{h[0]}:{h[1]}' for h in hits})
    it = Item(id=f'{prop}/F:{name}', kind='F', status='discharged' if not bad else 'refuted', tag='property',
              note=note, backend='ast scan', function=', '.join(sorted(allowed)),
              extra={'files_scanned': nfiles, 'store_sites': seen, 'allowed': allowed})
    if nfiles == 0 or unparsed:
        it.status, it.detail = 'undecided', 'no source files found' if nfiles == 0 else f'{len(unparsed)} files do not parse: {unparsed[:2]}'
        return it
    if bad:
        it.witness = {'stores_outside_the_allowed_sites': [f'{h[0]}:{h[2]} in {h[1] or "<module>"}: {h[4]} of .{h[3]}' for h in bad]}
        it.detail = 'an attribute the contract treats as framed is assigned outside the listed sites'
        it.replayed = 'bounded-input'
    return it
