"""./check driver: decide one property.

exit 0  every P/L/F obligation discharged and every bounded run clean (KNOWN-FINDING lines allowed)
exit 1  a violation that is not a listed known finding   (VIOLATION property=<id> replay=<path>)
exit 2  nothing refuted but something undecided (solver unknown/timeout, out-of-subset, bind error)
exit 3  checker error
"""
from __future__ import annotations

import argparse
import importlib
import json
import os
import sys
import time
import traceback

HERE = os.path.dirname(os.path.dirname(os.path.abspath(__file__)))
sys.path.insert(0, HERE)


def main(argv=None):
    ap = argparse.ArgumentParser()
    ap.add_argument('prop')
    ap.add_argument('--tier', default=os.environ.get('VERIF_TIER', 'quick'), choices=['quick', 'thorough'])
    ap.add_argument('--replay')
    ap.add_argument('--only', help='restrict the proof part to contracts whose key contains this text')
    ap.add_argument('--no-bounded', action='store_true')
    ap.add_argument('--no-proof', action='store_true')
    args = ap.parse_args(argv)
    seed = int(os.environ.get('VERIF_SEED', '0') or 0)
    try:
        from vlib.runner import run_property, replay_file
        if args.replay:
            return replay_file(args.prop, args.replay)
        return run_property(args.prop, args.tier, seed, only=args.only,
                            do_bounded=not args.no_bounded, do_proof=not args.no_proof)
    except SystemExit:
        raise
    except BaseException:  # noqa: BLE001
        traceback.print_exc()
        print(f'CHECKER-ERROR property={args.prop}')
        return 3


if __name__ == '__main__':
    sys.exit(main())
