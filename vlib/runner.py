from __future__ import annotations

import hashlib
import importlib
import json
import os
import re
import sys
import time
import traceback
from dataclasses import dataclass, field

HERE = os.path.dirname(os.path.dirname(os.path.abspath(__file__)))
REPLAYS = os.path.join(HERE, 'replays')
EVIDENCE = os.path.join(HERE, 'evidence')
KNOWN = os.path.join(HERE, 'known_findings.txt')


@dataclass
class Item:
    """one decided thing: a proof obligation (P), spec lemma (L), finite-complete check (F) or
    bounded run (B)."""
    id: str
    kind: str  # P | L | F | B
    status: str  # discharged | refuted | undecided | clean
    note: str = ''
    backend: str = ''
    ms: float = 0.0
    tag: str = 'support'
    function: str = ''
    witness: object = None
    detail: str = ''
    replayed: str = ''  # 'reproduced' | 'not-reproduced' | 'not-concretizable' | ''
    lemmas: tuple = ()
    extra: dict = field(default_factory=dict)


def load_known():
    out = []
    if os.path.exists(KNOWN):
        for line in open(KNOWN, encoding='utf-8'):
            line = line.strip()
            # `known: {json}` entries suppress exactly the finding they describe;
            # `fixed: property=<id> <commit> <what failed>` lines are a record only and suppress nothing
            if line.startswith('known:'):
                d = json.loads(line[len('known:'):])
                d['status'] = 'known'
                out.append(d)
    return out


def match_known(prop, item: Item, known):
    # a bounded class 'a+b' says that the listed deviations a AND b are both needed to explain the case: it is known exactly
    # when each of them is a listed finding (for the same run)
    head, _, cls = item.id.rpartition('/')
    if '+' in cls and item.kind == 'B':
        parts = []
        for part in cls.split('+'):
            sub = Item(id=f'{head}/{part}', kind='B', status=item.status, note=item.note, witness=item.witness)
            k = match_known(prop, sub, known)
            if k is None:
                return None
            parts.append(k)
        return {'property': prop, 'status': 'known', 'what': ' AND '.join(k.get('what', '')[:160] for k in parts)}
    for k in known:
        if k.get('status') != 'known' or k.get('property') != prop:
            continue
        ob = k.get('obligation', '')
        if ob and not item.id.startswith(ob):
            continue
        ob_re = k.get('obligation_re')
        if ob_re and not re.fullmatch(ob_re, item.id):
            continue
        nm = k.get('note_match')
        if nm is not None and not re.search(nm, item.note or ''):
            continue
        wm = k.get('witness_match')
        if wm is not None:
            if not re.search(wm, json.dumps(item.witness, default=repr, sort_keys=True)):
                continue
        return k
    return None


def write_replay(prop, item: Item, payload: dict) -> str:
    d = os.path.join(REPLAYS, prop)
    os.makedirs(d, exist_ok=True)
    name = re.sub(r'[^A-Za-z0-9_.#@-]+', '_', item.id)[-150:]
    path = os.path.join(d, name + '.json')
    with open(path, 'w', encoding='utf-8') as f:
        json.dump(payload, f, indent=1, default=repr)
    return path


def run_property(prop: str, tier: str, seed: int, only=None, do_bounded=True, do_proof=True) -> int:
    t0 = time.time()
    manifest = json.load(open(os.path.join(HERE, 'MANIFEST.json')))
    entry = next((c for c in manifest['checks'] if c['property_id'] == prop), None)
    level = entry['level_claimed']['category'] if entry else 'other'
    mod = importlib.import_module(f'props.{prop}')
    items: list[Item] = []
    info = {'functions': [], 'assumptions': set(), 'bounded': [], 'samples': [], 'trusted': set(), 'contexts': {}}

    if do_proof:
        from vlib.proofs import run_proofs
        items += run_proofs(prop, mod, tier, info, only=only)
    if hasattr(mod, 'finite') and not only:
        for it in mod.finite(tier):
            items.append(it)
    if do_bounded and hasattr(mod, 'bounded') and not only:
        for it in mod.bounded(tier, seed, info):
            items.append(it)

    known = load_known()
    violations = []
    known_hit = []
    undecided = []
    for it in items:
        if it.status == 'refuted':
            k = match_known(prop, it, known)
            if k:
                known_hit.append((it, k))
            else:
                violations.append(it)
        elif it.status == 'undecided':
            undecided.append(it)

    for it, k in known_hit:
        print(f'KNOWN-FINDING: property={prop} {k.get("what", it.note)} [{it.id}]')
    for it in violations:
        payload = {
            'property': prop, 'obligation': it.id, 'kind': it.kind, 'function': it.function, 'note': it.note,
            'witness': it.witness, 'detail': it.detail, 'replayed': it.replayed, 'backend': it.backend,
            'extra': it.extra, 'how_to_replay': f'./check {prop} --replay <this file>',
        }
        path = write_replay(prop, it, payload)
        tail = '' if it.replayed in ('reproduced', 'bounded-input') else ' no-failing-input-found'
        print(f'VIOLATION property={prop} replay={path}{tail}')
        print(f'  obligation: {it.id}\n  {it.note}\n  witness: {json.dumps(it.witness, default=repr)[:300]}\n  {it.detail[:300]}')
    for it in undecided:
        print(f'UNDECIDED property={prop} {it.id}: {it.note} -- {it.detail[:200]}')

    write_evidence(prop, tier, seed, level, items, info, time.time() - t0, len(violations), known_hit, entry)
    nP = sum(1 for i in items if i.kind in 'PLF')
    nD = sum(1 for i in items if i.kind in 'PLF' and i.status == 'discharged')
    nB = sum(1 for i in items if i.kind == 'B')
    print(f'{prop}: {nD}/{nP} proof obligations discharged, {nB} bounded runs, '
          f'{len(violations)} violations, {len(known_hit)} known findings, {len(undecided)} undecided, {time.time() - t0:.1f}s')
    if violations:
        return 1
    if undecided:
        return 2
    if not items:
        print('no obligations generated: vacuous check')
        return 3
    return 0


def write_evidence(prop, tier, seed, level, items, info, wall, nviol, known_hit, entry):
    os.makedirs(EVIDENCE, exist_ok=True)
    # obligations refuted and listed as known findings are outside the proof claim: they are reported under
    # `refuted_known_findings`, not counted among the obligations the claim covers
    known_ids = {it.id for it, _k in known_hit}
    P = [i for i in items if i.kind in 'PLF' and i.id not in known_ids]
    PK = [i for i in items if i.kind in 'PLF' and i.id in known_ids]
    B = [i for i in items if i.kind == 'B']
    discharged = [i for i in P if i.status == 'discharged']
    modulo = [i for i in discharged if i.lemmas]
    by_backend = {}
    for i in discharged:
        by_backend[i.backend] = by_backend.get(i.backend, 0) + 1
    samples = []
    for i in P[:3] + [x for x in P if x.tag == 'property'][:3]:
        samples.append({'obligation': i.id, 'kind': i.kind, 'status': i.status, 'statement': i.note, 'backend': i.backend, 'ms': round(i.ms, 1)})
    for b in B[:4]:
        samples.append({'bounded_run': b.id, 'status': b.status, 'note': b.note, **{k: v for k, v in b.extra.items() if k in ('samples', 'domain', 'bound')}})
    samples += info['samples'][:6]
    evaluations = sum(int(b.extra.get('cases', 0)) for b in B)
    distinct = sum(int(b.extra.get('distinct_nontrivial', 0)) for b in B)
    cov = {
        'obligations': len(P),
        'discharged': len(discharged),
        'discharged_modulo_bounded': len(modulo),
        'checker_cmd': f'./check {prop} --tier {tier}',
        'trusted_base': sorted(info['trusted']) or ['pyvc symbolic executor and its python-semantics encoding (pyvc/*.py)',
                                                   'z3 5.1.0', 'contracts/spec_*.py (the reading of the property)'],
        'explanation': (entry or {}).get('level_claimed', {}).get('text', ''),
        'evaluations': max(evaluations, len(P)),
        'distinct_nontrivial': max(distinct, len({i.id for i in P})),
        'rule': 'proof obligations: one per (function, path, clause); bounded runs: see `bounded` (each states domain, bound, and how distinct non-trivial cases are counted)',
        'samples': samples or [{'note': 'no obligations'}],
        'functions_under_contract': info['functions'],
        'refuted_known_findings': [{'obligation': i.id, 'statement': i.note, 'replayed': i.replayed} for i in PK],
        'obligations_by_kind': {k: sum(1 for i in P if i.kind == k) for k in 'PLF'},
        'obligations_by_backend': by_backend,
        'solver_ms': round(sum(i.ms for i in P), 1),
        'undecided': [{'id': i.id, 'why': i.detail[:200]} for i in items if i.status == 'undecided'],
        'refuted': [{'id': i.id, 'note': i.note, 'replayed': i.replayed} for i in items if i.status == 'refuted'],
        'bounded': [{'id': b.id, 'status': b.status, **b.extra} for b in B],
        'known_findings_hit': [{'id': i.id, 'finding': k.get('what')} for i, k in known_hit],
        'exhaustive': all(b.extra.get('exhaustive', False) for b in B) if B else False,
    }
    if level == 'translation_validation':
        cov['programs'] = max(1, sum(int(b.extra.get('programs', 0)) for b in B + P))
        cov['disagreements_checked'] = sum(int(b.extra.get('disagreements_checked', 0)) for b in B + P)
    ev = {
        'property_id': prop, 'tier': tier, 'seed': seed, 'level': level, 'coverage': cov,
        'assumptions': sorted(info['assumptions']), 'wall_s': round(wall, 2), 'violations': nviol,
    }
    with open(os.path.join(EVIDENCE, f'{prop}.json'), 'w', encoding='utf-8') as f:
        json.dump(ev, f, indent=1, default=repr)


def replay_file(prop, path) -> int:
    payload = json.load(open(path))
    mod = importlib.import_module(f'props.{prop}')
    if hasattr(mod, 'replay'):
        return mod.replay(payload)
    from vlib.proofs import replay_payload
    return replay_payload(prop, payload)
