"""The proof part of a check: contracts of the property -> VCs from the current /repo source ->
solvers -> counter-model replay on the real function.  One worker process per function."""
from __future__ import annotations

import json
import multiprocessing as mp
import os
import time
from concurrent.futures import ProcessPoolExecutor

from vlib.runner import Item

QUICK_MS = 20000
THOROUGH_MS = 90000

BASE_ASSUMPTIONS = [
    'pyvc: python ints are mathematical integers (exact for CPython)',
    'pyvc: `==` on universal values is structural (no bool/int or closedlist/list cross-equality in verified code)',
    'pyvc: the built-in model in pyvc/builtins_model.py (len, slicing, str methods, int()/float() accepted language) is a trusted contract on CPython',
    'pyvc: per-character predicates are uninterpreted; only the exact ASCII facts and the set of realizable predicate vectors of this interpreter (recomputed on every run) are axioms',
    'pyvc: records are held by value; the ownership discipline (a frame is referenced only from its stack slot) is assumed where not proved',
    'pyvc extraction drops docstrings, annotations and decorators @staticmethod/@cache/@override/@deprecated; nothing else',
    'pyvc: parse functions are deterministic functions of their top frame (generic contract PARSE); memo/world effects are abstracted there (C04 argues transparency separately)',
]

_STATE = {}


def _world():
    if 'world' not in _STATE:
        from contracts import build_registry
        from pyvc.interp import World
        reg = build_registry()
        _STATE['reg'] = reg
        _STATE['world'] = World(reg)
    return _STATE['reg'], _STATE['world']


def prove_one(args):
    """verify one function against its contract; returns picklable results"""
    key, prop, timeout = args
    from contracts.records import BUILDERS
    from pyvc import replay as R
    from pyvc import solve
    from pyvc.contracts import verify_function

    reg, world = _world()
    world.assumptions = set()
    c = reg.contracts[key]
    t0 = time.time()
    rep = verify_function(world, c)
    finfo = {'function': c.key, 'source_sha256': rep.sha, 'subset': rep.status, 'detail': rep.detail,
             'paths': rep.paths, 'obligations': len(rep.obligations), 'symex_s': round(time.time() - t0, 2)}
    items = []
    if rep.status != 'ok':
        items.append(Item(id=f'{prop}/{c.key}/extract', kind='P', status='undecided', function=c.key,
                          note=f'function could not be brought under its contract: {rep.status}', detail=rep.detail))
        return finfo, items, sorted(world.assumptions)
    if not rep.obligations:
        items.append(Item(id=f'{prop}/{c.key}/vacuous', kind='P', status='undecided', function=c.key,
                          note='no obligations generated (vacuous contract)', detail=''))
    if rep.feasible_returns == 0 and not c.raises:
        items.append(Item(id=f'{prop}/{c.key}/unreachable', kind='P', status='undecided', function=c.key,
                          note='no feasible path reaches a normal exit: contradictory precondition?', detail=''))
    # vacuity guard (cover): some exit's path condition together with its postcondition must be satisfiable;
    # `unsat` means the contract's assumptions contradict each other and every proof below would be vacuous
    # one candidate per exit (the first postcondition obligation of each run of them), at most 8 exits
    cover, prev = [], None
    for ob in rep.obligations:
        if ob.kind in ('post', 'raises') and prev not in ('post', 'raises'):
            cover.append(ob)
        prev = ob.kind
    cover = cover[:8]
    if cover:
        import z3 as _z3
        verdict = 'unsat'
        for ob in cover:
            smt = solve.to_smt2(list(world.axioms) + list(ob.axioms), ob.pc, _z3.Not(ob.goal))  # asserts pc and goal
            r, _why, _ms = solve._cli_check(['z3-new', '-smt2', '-T:5'], smt, 10)
            if r != 'unsat':
                verdict = r
                break
        finfo['cover'] = verdict
        if verdict == 'unsat':
            items.append(Item(id=f'{prop}/{c.key}/cover', kind='P', status='undecided', function=c.key,
                              note='vacuity guard: no exit of the function is reachable together with its postcondition',
                              detail='path conditions contradict the contract (contradictory requires / ensures of callees?)'))
    # one obligation after the other; once a few of a function's obligations have run into the solver's time limit the rest get a
    # short budget (a function whose proof has stopped going through would otherwise cost minutes per obligation: the verdict
    # for the property is `undecided` or a refutation either way)
    verdicts = {}
    slow = 0
    for ob in rep.obligations:
        if slow >= 3:
            v = solve.discharge(world, [ob], timeout_ms=min(timeout, 4000), jobs=1, use_fallbacks=False)[ob.oid]
        else:
            v = solve.discharge(world, [ob], timeout_ms=timeout, jobs=1)[ob.oid]
        if v.status == 'undecided':
            slow += 1
        verdicts[ob.oid] = v
    for ob in rep.obligations:
        v = verdicts[ob.oid]
        it = Item(id=f'{prop}/{ob.oid}', kind='P', status=v.status, note=ob.note, backend=v.backend, ms=v.ms,
                  tag=ob.tag, function=c.key, detail=v.reason, lemmas=ob.lemmas)
        if v.status == 'refuted':
            _replay(world, reg, c, ob, it, BUILDERS, R, solve)
        items.append(it)
    return finfo, items, sorted(world.assumptions)


def run_proofs(prop, mod, tier, info, only=None):
    from contracts import build_registry

    reg = build_registry()
    contracts = [c for c in reg.for_prop(prop) if c.verify]
    if only:
        contracts = [c for c in contracts if only in c.key]
    for c in reg.for_prop(prop):
        if not c.verify:
            info['assumptions'].add(f'assumed contract (not verified by pyvc): {c.key} -- {c.note}')
    timeout = THOROUGH_MS if tier == 'thorough' else QUICK_MS
    work = [(c.key, prop, timeout) for c in contracts]
    jobs = int(os.environ.get('VERIF_JOBS', '0') or 0) or min(16, os.cpu_count() or 4)
    items = []
    results = []
    if jobs <= 1 or len(work) <= 1:
        results = [prove_one(w) for w in work]
    else:
        # the pool is given a deadline: a worker that never reports (seen once, on a heavily loaded machine) must end in an
        # `undecided` verdict, not in a check that never returns
        deadline = int(os.environ.get('VERIF_PROOF_DEADLINE_S', '0') or 0) or (900 if tier != 'thorough' else 6000)
        ex = ProcessPoolExecutor(max_workers=min(jobs, len(work)), mp_context=mp.get_context('spawn'))
        futs = [ex.submit(prove_one, w) for w in work]
        t_end = time.time() + deadline
        results = []
        late = []
        for w, f in zip(work, futs):
            try:
                results.append(f.result(timeout=max(1.0, t_end - time.time())))
            except Exception as e:  # noqa: BLE001  (TimeoutError, BrokenProcessPool, an exception inside the worker)
                late.append((w[0], f'{type(e).__name__}: {e}'[:200]))
        if late:
            for pr in list(getattr(ex, '_processes', {}).values()):
                try:
                    pr.kill()
                except Exception:  # noqa: BLE001
                    pass
            ex.shutdown(wait=False, cancel_futures=True)
            # the functions without a verdict are verified again, one after the other, in this process (slower, but a stalled pool then
            # costs time and not the verdict); only if that fails too the function is reported `undecided`
            for key, why in late:
                w = next(x for x in work if x[0] == key)
                try:
                    results.append(prove_one(w))
                except Exception as e:  # noqa: BLE001
                    why = f'{why}; in-process retry: {type(e).__name__}: {e}'[:300]
                    results.append(({'function': key, 'source_sha256': None, 'subset': 'no-verdict', 'detail': why, 'paths': 0, 'obligations': 0, 'symex_s': 0},
                                    [Item(id=f'{prop}/{key}/no-verdict', kind='P', status='undecided', function=key,
                                          note='the proof worker for this function did not report a verdict', detail=why)], []))
        else:
            ex.shutdown(wait=True)
    for finfo, its, assumptions in results:
        info['functions'].append(finfo)
        items.extend(its)
        info['assumptions'].update(assumptions)
    if hasattr(mod, 'lemmas'):
        from pyvc.interp import World
        items += mod.lemmas(World(reg), reg, tier)
    info['assumptions'].update(BASE_ASSUMPTIONS)
    for it in items:
        for l in it.lemmas:
            info['assumptions'].add(f'lemma {l} is assumed (checked only by a bounded run or listed as an assumption); obligations using it are counted under discharged_modulo_bounded')
    return items


def _replay(world, reg, c, ob, it, builders, R, solve):
    model = solve.model_of(world, ob)
    if model is None:
        it.replayed = 'not-concretizable'
        it.detail = (it.detail + ' | no model on re-solve').strip()
        return
    try:
        inputs = R.concretize_inputs(model, world, c, ob, reg)
    except R.NotConcretizable as e:
        it.replayed = 'not-concretizable'
        it.witness = {'model_excerpt': str(model)[:600]}
        it.detail = f'counter-model not concretizable: {e}'
        return
    except Exception as e:  # noqa: BLE001
        it.replayed = 'not-concretizable'
        it.witness = {'model_excerpt': str(model)[:600]}
        it.detail = f'counter-model not concretizable: {e!r}'
        return
    it.witness = {'function': c.key, 'inputs': _jsonable(inputs)}
    try:
        out = R.run_real(c, reg, inputs, builders)
    except R.NotConcretizable as e:
        it.replayed = 'not-concretizable'
        it.detail = f'replay not possible: {e}'
        return
    except BaseException as e:  # noqa: BLE001
        it.replayed = 'not-concretizable'
        it.detail = f'replay harness error: {e!r}'
        return
    it.extra['replay_outcome'] = _jsonable(out)
    if out['outcome'] == 'violation':
        it.replayed = 'reproduced'
        it.detail = f"real function on the counter-model input: {out['detail']}"
    else:
        it.replayed = 'not-reproduced'
        it.detail = f"counter-model input does not fail on the real function ({out['outcome']}: {out['detail']}); solver said sat for: {ob.note}"


def _jsonable(x):
    if isinstance(x, dict):
        return {str(k): _jsonable(v) for k, v in x.items()}
    if isinstance(x, (list, tuple)):
        return [_jsonable(v) for v in x]
    if isinstance(x, set):
        return sorted(_jsonable(v) for v in x)
    if isinstance(x, (str, int, bool)) or x is None:
        return x
    return repr(x)


def replay_payload(prop, payload) -> int:
    """re-run a stored counter-example on the real function."""
    from contracts import build_registry
    from contracts.records import BUILDERS
    from pyvc import replay as R

    reg = build_registry()
    w = payload.get('witness') or {}
    key = w.get('function') if isinstance(w, dict) else None
    if not key or key not in reg.contracts:
        print('replay file carries no concrete input (no-failing-input-found); obligation:', payload.get('obligation'))
        print(payload.get('detail'))
        return 1
    c = reg.contracts[key]
    inputs = {}
    for k, v in w['inputs'].items():
        inputs[k] = _unjson(v, c.sig.get(k, ''))
    out = R.run_real(c, reg, inputs, BUILDERS)
    print(json.dumps(_jsonable(out), indent=1))
    if out['outcome'] == 'violation':
        print(f'VIOLATION property={prop} replay=(reproduced)')
        return 1
    return 0


def _unjson(v, sortname):
    if isinstance(v, list) and len(v) == 3 and v[0] == 'prec':
        return ('prec', v[1], {k: (set(x) if k == 'namechars' and isinstance(x, list) else x) for k, x in v[2].items()})
    if sortname == 'charset' and isinstance(v, list):
        return set(v)
    return v
