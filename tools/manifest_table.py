check('C08', 'proof',
      'Proved for all inputs (no bound): the meta-expression matchers of tatsu/input/cursor.py never raise, only accept text the '
      'int()/float() converters accept, and move the cursor exactly over the match. VCs are generated from the current source.',
      'Trusted: pyvc encoding of python, the built-in model (int()/float() accepted language, str predicates via validated '
      'character-class axioms), z3. match_float language clause is a bounded lemma (reported as discharged_modulo_bounded).',
      'contract-based deductive verification: sidecar contracts, VCs from the real AST by path-replay symbolic execution, z3/cvc5',
      '3/C08')
