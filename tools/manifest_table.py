check('C08', 'proof',
      'Proved for all inputs (no bound), VCs generated from the current source: the meta-expression matchers of tatsu/input/cursor.py never raise, accept only '
      'text the int()/float() converters accept (the float literal language is now proved too, it was a bounded lemma), and move the cursor exactly over the match; '
      'the token-skipping loops and the repetition loop of ParseContext.repeat terminate (measure: remaining text; rests on "a parse function that succeeds never moves '
      'backwards", stated in the generic PARSE contract and proved for the primitives); line lookups are index safe. Bounded (never counted as proved): every '
      'repetition form over elements and separators that can match the empty string and every meta expression x all inputs up to the bound, under a watchdog: '
      'each parse ends with a value or a FailedParse positioned inside the text.',
      'Trusted: pyvc encoding of python, the built-in model (int()/float() accepted language, str predicates via validated '
      'character-class axioms), z3. Whole-parse termination beyond the proved loop measures is only watchdog-bounded.',
      'contract-based deductive verification: sidecar contracts, VCs from the real AST by path-replay symbolic execution, z3/cvc5; bounded API-level runs as stand-in for whole parses',
      '3/C08')
check('C09', 'proof',
      'Proved for all texts/tokens/configurations: TextLinesCursor.match implements the documented token rule (prefix match, case-folded iff '
      'ignorecase, nameguard with @@namechars), next_token terminates and stops only where no whitespace/comment pattern has a non-empty match; '
      'ParserEngine.bound runs the parse with own.override_config(config).override(start, **settings) and nothing else and leaves the context idle at every exit; '
      'Config._find_common/override/hard_override/merge/override_config/merge_config lay settings over a configuration pointwise as documented '
      '(a setting that is None/Undefined or an empty collection over a non-empty one never overrides unless hard; merge only fills None).',
      'Regex matching is an uninterpreted function (re.match is external); "token is a name" is uninterpreted; dataclasses.replace/fields and '
      'ParserConfig.__post_init__ are a trusted model (constructor arguments, not normalised values); the API-level statement (layout metamorphosis, '
      'precedence of the layers on model and generated parser, histories on a reused parser) is a bounded run.',
      'contract-based deductive verification (pyvc: VCs from the real AST, z3/cvc5) + bounded stand-in for the API-level statement',
      '3/C09')
check('C01', 'proof',
      'Proved for all inputs (no bound) on the real functions: the CST algebra (cst.py), names dict (ast.py), frame stack (state.py), '
      'the runtime primitives (token/pattern/void/fail/eof/dot/empty/cut/expcall/isolate/repeat/closure/statescope/option/optional/if_/ifnot_) and the '
      'model nodes Optional/Choice/Group/SkipGroup/Lookahead/NegativeLookahead/Named/NamedList/Override against the documented clause of each '
      'construct, stated through the generic PARSE contract. The composed statement parse == documented semantics is a bounded run (never counted as proved).',
      'Trusted: pyvc, z3, the built-in model, PARSE determinism, regex engine (uninterpreted), contracts marked verify=False (listed in evidence).',
      'contract-based deductive verification (pyvc) + bounded oracle comparison as stand-in for the composed statement', '3/C01')
check('C05', 'proof',
      'Proved for all inputs: cut sets the flag on the top frame only; push/new start with no cut; merge/pop/undo never copy the flag downwards; '
      'Choice/Optional/option()/optional() re-raise iff the frame the body ran in has the flag; isolate keeps the flag of a failed iteration visible '
      'and repeat commits the repetition (the clause of docs/syntax.rst on closures).',
      'Trusted: pyvc, z3, PARSE generic contract for sub-expressions. The whole-grammar statement is a bounded run.',
      'contract-based deductive verification (pyvc) + bounded oracle comparison', '3/C05')
check('C03', 'proof',
      'Proved for all inputs: the seed-growing loop of recursive_call terminates (measure len(text) - lastpos), keeps the callers frames, '
      'returns the last seed whose end position advanced, stores seeds closed, restores the position every round; the guard and the memo '
      'table writers keep the table well-formed. Detection of left-recursive rules is shared with C16; the grammar-level statement '
      '(left associativity, longest prefix) is a bounded run.',
      'Trusted: pyvc, z3, PARSE/ACTION generic contracts, prune_dict (assumed contract).',
      'contract-based deductive verification (pyvc: loop invariant + decreases) + bounded oracle comparison', '3/C03')
check('C04', 'proof',
      'Proved for all inputs and configurations: memo() returns only what was stored under the same key, memoize() writes exactly when the rule is memoizable and '
      'memoization is on, every writer keeps the table well-formed (only parse outcomes inside the text), the key of an invocation names the invoked rule at the '
      'position after whitespace, rule_call replays a remembered outcome without running the body and never touches the callers frames. '
      'Transparency of capacity/pruning/tracing as a whole-parse statement is a bounded run.',
      'Trusted: pyvc, z3, determinism of rule bodies and actions (stated assumption), prune_dict and BoundedDict eviction covered by bounded runs.',
      'contract-based deductive verification (pyvc) + bounded configuration matrix', '3/C04')
check('C06', 'proof',
      'Proved for all inputs: semantics_call passes the rule AST and declared parameters to the action found for the rule name and returns ITS result, '
      'returns the node unchanged without an action; FailedSemantics becomes a memoized parse failure in rule_call (so alternatives are tried); every '
      'other exception class propagates unchanged through expcall/isolate/statescope/option/optional/if_/closure/func_call/rule_call/call (implicit '
      'no-escape / propagate obligations); the stack is back at its entry depth on every TatSu exit of rule_call; the memo table never holds a raw '
      'FailedSemantics and the failure that is raised is the one that is remembered. Bounded (never counted as proved): the semantics matrix of bC06 -- '
      'identity / tagging / _default / vetoing / raising actions on 7 grammars and their @nomemo twins x all inputs up to length 4, model and generated parser, '
      'against the documented semantics -- and histories on reused parsers.',
      'Trusted: pyvc, z3, boundcall; the action lookup is proved on the attribute-table view of the semantics object.',
      'contract-based deductive verification (pyvc: exceptional postconditions) + bounded semantics matrix', '3/C06')
check('C11', 'proof',
      'Proved for all inputs: validate_is_not_keyword raises KeywordError (a FailedParse) exactly when the case-folded text of the value is a keyword; '
      'semantics_call runs it first and only for @name rules, before the action and before the success is memoized; rule_call memoizes the rejection as a failure.',
      'Trusted: pyvc, z3, str()/upper() as uninterpreted functions; keyword-set normalisation in Grammar/ParserConfig and the generated parser are bounded runs.',
      'contract-based deductive verification (pyvc) + bounded keyword matrix', '3/C11')
check('C18', 'other',
      'Proved for all inputs (pyvc, from the current source): taskproc -- a task\'s result carries its payload and either the function\'s outcome (made pickable) or '
      'the very exception it raised; a stopped loop does not call the function; an exception escapes only when it is not an ordinary one, re-raising was asked for, or the '
      'payload\'s raises() list excludes it (67 obligations; VisualPayload\'s backwards-compatibility retry is outside the contract). Bounded stand-in, not a proof, for the loop: '
      'the REAL executor_pmap loop and taskproc are run against the contract "one result per payload, outcome or captured '
      'exception, multiset equal to sequential mode" with a deterministic contract-conforming executor whose completion order is enumerated exhaustively '
      '(all orders, worker counts 1..3, every raising subset, both submit strategies) up to the stated number of payloads, plus sampled real thread pools. '
      'No deductive verifier reaches generator-based loops over concurrent.futures here; said so in DESIGN.md.',
      'Bound: payload count (quick <= 5 model / <= 4 real as_completed). Real OS scheduling and process pools are sampled only. taskproc: the task function and '
      'pickable are generic contracts (a value or any exception); sys/time/memory_use are external functions without claims.',
      'contract-based deductive verification of taskproc (pyvc); bounded schedule-exhaustive contract checking of the real loop (labelled bounded)', '3/C18')
check('C19', 'other',
      'Bounded stand-in, not a proof: encode/decode inverses of the real functions over all strings up to a length bound on the adversarial alphabet, '
      'nested payloads, all interleavings of <= 3 sends x <= 3 receives on the real queue, truncation of the queue file at EVERY byte offset of the last record, single-byte corruptions. '
      'Regex substitution with callbacks, json, hashing and files are outside the pyvc subset.',
      'Bounds are stated per run in the evidence. Concurrent writers in separate processes are not covered.',
      'bounded exhaustive contract checking of the real functions (labelled bounded)', '3/C19')
check('C07', 'other',
      'Bounded stand-in, not a proof: 27 typed grammars x inputs x 7 ways of supplying classes; the model tree is compared with the plain-AST parse '
      'through a type-tagging oracle; children()/parent/walkers are checked as data-structure invariants on every node produced. '
      'Object-model synthesis is reflection (types.new_class, dataclass machinery, match on arbitrary objects): outside the pyvc subset, said so in DESIGN.md.',
      'Bounds per run in the evidence (grammar family, input lengths). The process-wide class registry makes class identity history dependent (known finding).',
      'bounded contract checking of the real functions against the plain-AST oracle (labelled bounded)', '3/C07')
check('C10', 'other',
      'Bounded stand-in, not a proof: all API call sequences up to length 3 over a pool of grammars x option variants; the result of the last call is compared '
      'with the same call in a fresh interpreter process; grammar models, configs and semantics objects are snapshotted before/after. '
      'The relational cache obligation (key determines every argument the result depends on) is not expressible in the current pyvc subset (reflection over **settings); '
      'threads are not covered by this family at all.',
      'Bounds: sequence length <= 3, 6 grammars x 8 variants; constant-expression histories (names bound by an earlier parse must not be visible to a later one). Schedules (threads) N/A.',
      'bounded history enumeration against fresh-process references (labelled bounded)', '3/C10')
check('C12', 'proof',
      'Proved for all texts (no bound): PosLine.build_line_cache builds, for every offset p < len, the entry (start of the line containing p, its number, its length) and for p = len the '
      'unterminated last line or a new empty line, with both loop invariants checked over an array encoding; lineat/poscol are index-safe for every offset 0..len including empty text. '
      'Bounded (not counted): all strings over {letter, space, LF, CR} up to the stated length x all offsets for TextLines and both Buffer cursors, parseinfo of ASTs and nodes.',
      'Trusted: pyvc, z3; lines as produced by str.splitlines(True) (non-empty pieces, the precondition); lineinfo(len) after a trailing line break is a known finding pinned by a repository test.',
      'contract-based deductive verification (pyvc: nested loop invariants over arrays) + bounded exhaustive runs', '3/C12')
check('C17', 'proof',
      'Proved for ALL names and values (symbolic): the builtin filter is_unsafe_builtin_entry rejects every name the property forbids (open, eval, exec, compile, input, exit, quit, '
      'getattr/setattr/delattr, globals/locals/vars, ... and every underscore name); for an arbitrary AST node the body of the checking loop completes only for nodes without raise/try, '
      'dunder attribute access, unauthorised names or calls. Bounded: every builtin x plausible arguments through safe_eval and through real grammars under an audit hook.',
      'Trusted: pyvc, z3, ast.walk yields every node (assumed), CPython eval with empty __builtins__. Attribute traversal inside str.format is a stated limit (known finding).',
      'contract-based deductive verification (pyvc) + bounded audit-hook runs', '3/C17')
check('C02', 'other',
      'Proved (pyvc): the runtime primitives only generated code calls -- nameset/nameadd/result/resultadd, option/optional/group/skipgroup/if_/ifnot_, ChoiceContext.parse and choice() '
      '(ordered choice with cut), and ParserEngine.bound (the configuration in force during a parse and the idle state restored at EVERY exit, which matters for generated parsers because '
      'their objects are reused across parses). Bounded stand-in for the generator (a printer of python source text; its output is outside what a pyvc contract can state): ~500 description grammars '
      '(sampled, a naming matrix, every cut grammar) x all strings up to length 4 over a 4-letter alphabet x 7 parse-time settings, plus ~90 grammar texts with directives, '
      'rule parameters, @name, upper-case rules, keyword-like rule names x 13 settings: the generated source compiles, and model and generated parser agree on '
      'accept/reject, AST, exception class and action calls; histories on ONE reused generated parser object (failed parses, parse-time settings) against fresh objects.',
      'Bounds per run in the evidence. Four differences are known findings (names pre-defined by sequences only, rule names colliding after python-safe renaming, '
      'value of a named void/lookahead, internal override key).',
      'contract-based deductive verification of the generated-code runtime (pyvc); bounded differential checking of model vs generated parser (labelled bounded)', '3/C02')
check('C13', 'other',
      'Proved for all inputs (pyvc, from the current source), last clause of the property ("the railroad rendering completes with tracks of consistent width"): every layout '
      'function of tatsu/railroads/railmath.py (pad, railpad_, blankpad, assert_one_length, looptail, stopnloop, loop, weldtwo, weld, lay_out) returns rails of ONE display width '
      'given rails of one width, its internal assertions never fail, and 30 walk_* methods of RailroadNodeWalker return a non-empty block of one width given that the recursive '
      'self.walk(child) does (generic contract WALK; ~440 obligations). Display width is an uninterpreted function that is additive over concatenation (trusted theory, instantiated on '
      'every string the code builds). Bounded stand-in for the rest: for grammar models over the full expression language (from text, JSON, the ANTLR translator), every term kind in every context and token/pattern/constant '
      'texts over an adversarial alphabet up to the stated length: compile(pretty(m)) accepts the same inputs with equal ASTs, keeps directives/keywords/params/decorators, pretty is a '
      'fixpoint, railroads() completes with rails of equal display width. String-building pretty printers are outside the pyvc subset.',
      'Bounds per run in the evidence. Three syntax-level limitations are known findings (both quote kinds in one token, backquote inside a constant, an empty-constant fixpoint difference). '
      'Walker: dispatch of NodeWalker.walk is assumed to reach the walk_* methods (behavioural subtyping); walk_pattern (regex text) is not under contract; a Choice has an option and a Sequence an element.',
      'contract-based deductive verification of the railroad layout (pyvc, display-width theory); bounded round-trip checking of the pretty printers (labelled bounded)', '3/C13')
check('C14', 'other',
      'Bounded stand-in: ~1900 compiled models through four serialization routes (JSON, jsonimport, pickle, emitted python model source) with adversarial token/constant texts; '
      'asjson on 111k object graphs with sharing and cycles against an independent reference conversion.',
      'Bounds per run in the evidence. D18 (fromjson sniffs strings starting with f{ or \\e[ into Style) is a known finding.',
      'bounded round-trip checking of the real functions (labelled bounded)', '3/C14')
check('C20', 'proof',
      'Proved for all texts, styles and format specs: Style.apply_style returns the text itself when colour is off (and not forced) or no attribute is set, else ESC[ codes m text ESC[0m '
      'with the SGR codes assembled exactly from the attributes in the documented order (16 / 256 / RGB branches); apply formats the TEXT with the spec and styles the result once; '
      '__format__ (the first clause of the property) and __str__ are those functions of the stored value. Bounded: de-escaping (the regex lemma is undecidable for z3/cvc5: measured), '
      'visible length, repr round trip, markup over 3.7M evaluations.',
      'Trusted: pyvc, z3, format() and str.join as uninterpreted functions; Color.enabled is an input of the contract.',
      'contract-based deductive verification (pyvc) + bounded exhaustive runs', '3/C20')
check('C15', 'translation_validation',
      'Finite-complete structural correspondence of the three shipped artefacts (the model compiled from _tatsu.ebnf vs GRAMMAR_MODEL rule by rule; regenerated parser and model source vs '
      'bootstrap.py / bootparser.py as python ASTs) plus bounded behavioural agreement of four parsers over a corpus of grammar texts and single-edit mutants (accept/reject, exception category, equal models). '
      'Equivalence for EVERY grammar text then rests on C01/C02 (same model, same engine): recorded as a dependency, not proved here.',
      'Corpus bound in the evidence (quick 3000 texts). Not a proof of the generator.',
      'translation validation of the shipped artefacts (finite-complete) + bounded differential runs', '3/C15')
check('C16', 'proof',
      'Proved: every _nullable override equals the documented nullability clause of its node kind, _is_nullable_safe equals the recursive specification (calls are never looked through). '
      'Bounded: SCC / cycle enumeration and the LEADERS obligation on ALL digraphs with <= 4 vertices (quick: <= 3 fully + 8k sampled), rule graphs with <= 3 rules x input battery: GrammarError iff the independent '
      'analysis finds a cycle, no RecursionError with left recursion on.',
      'Trusted: pyvc, z3 (recursive definitions prove but do not refute: mutants there are reported by the bounded runs). Hidden left recursion through a call to a nullable rule is a known finding.',
      'contract-based deductive verification (pyvc, recursive spec functions) + bounded exhaustive graph enumeration', '3/C16')
