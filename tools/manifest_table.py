check('C08', 'proof',
      'Proved for all inputs (no bound): the meta-expression matchers of tatsu/input/cursor.py never raise, only accept text the '
      'int()/float() converters accept, and move the cursor exactly over the match. VCs are generated from the current source.',
      'Trusted: pyvc encoding of python, the built-in model (int()/float() accepted language, str predicates via validated '
      'character-class axioms), z3. match_float language clause is a bounded lemma (reported as discharged_modulo_bounded).',
      'contract-based deductive verification: sidecar contracts, VCs from the real AST by path-replay symbolic execution, z3/cvc5',
      '3/C08')
check('C09', 'proof',
      'Proved for all texts/tokens/configurations: TextLinesCursor.match implements the documented token rule (prefix match, case-folded iff '
      'ignorecase, nameguard with @@namechars), next_token terminates and stops only where no whitespace/comment pattern has a non-empty match.',
      'Regex matching is an uninterpreted function (re.match is external); "token is a name" is uninterpreted; config layering and the '
      'layout metamorphosis are bounded runs.',
      'contract-based deductive verification (pyvc: VCs from the real AST, z3) + bounded stand-in for the API-level statement',
      '3/C09')
