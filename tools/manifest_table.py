check('C08', 'proof',
      'Proved for all inputs (no bound): the meta-expression matchers of tatsu/input/cursor.py never raise, only accept text the '
      'int()/float() converters accept, and move the cursor exactly over the match. VCs are generated from the current source.',
      'Trusted: pyvc encoding of python, the built-in model (int()/float() accepted language, str predicates via validated '
      'character-class axioms), z3. match_float language clause is a bounded lemma (reported as discharged_modulo_bounded).',
      'contract-based deductive verification: sidecar contracts, VCs from the real AST by path-replay symbolic execution, z3/cvc5',
      '3/C08')
check('C09', 'proof',
      'Proved for all texts/tokens/configurations: TextLinesCursor.match implements the documented token rule (prefix match, case-folded iff '
      'ignorecase, nameguard with @@namechars), next_token terminates and stops only where no whitespace/comment pattern has a non-empty match.',
      'Regex matching is an uninterpreted function (re.match is external); "token is a name" is uninterpreted; config layering and the '
      'layout metamorphosis are bounded runs.',
      'contract-based deductive verification (pyvc: VCs from the real AST, z3) + bounded stand-in for the API-level statement',
      '3/C09')
check('C01', 'proof',
      'Proved for all inputs (no bound) on the real functions: the CST algebra (cst.py), names dict (ast.py), frame stack (state.py), '
      'the runtime primitives (token/pattern/void/fail/eof/dot/empty/cut/expcall/isolate/repeat/closure/statescope/option/optional/if_/ifnot_) and the '
      'model nodes Optional/Choice/Group/SkipGroup/Lookahead/NegativeLookahead/Named/NamedList/Override against the documented clause of each '
      'construct, stated through the generic PARSE contract. The composed statement parse == documented semantics is a bounded run (never counted as proved).',
      'Trusted: pyvc, z3, the built-in model, PARSE determinism, regex engine (uninterpreted), contracts marked verify=False (listed in evidence).',
      'contract-based deductive verification (pyvc) + bounded oracle comparison as stand-in for the composed statement', '3/C01')
check('C05', 'proof',
      'Proved for all inputs: cut sets the flag on the top frame only; push/new start with no cut; merge/pop/undo never copy the flag downwards; '
      'Choice/Optional/option()/optional() re-raise iff the frame the body ran in has the flag; isolate keeps the flag of a failed iteration visible '
      'and repeat commits the repetition (the clause of docs/syntax.rst on closures).',
      'Trusted: pyvc, z3, PARSE generic contract for sub-expressions. The whole-grammar statement is a bounded run.',
      'contract-based deductive verification (pyvc) + bounded oracle comparison', '3/C05')
