#!/usr/bin/env python3
"""Run the repository's pinned baseline (guard OFF) and compare with /root/.vp/BASELINE.json.
exit 0 iff every stable_pass test passes."""
import json, os, subprocess, sys, tempfile
import xml.etree.ElementTree as ET

def main():
    base = json.load(open('/root/.vp/BASELINE.json'))
    out = tempfile.mktemp(suffix='.junit.xml', dir='/var/tmp')
    env = dict(os.environ)
    env.pop('TATSU_VERIF', None)
    cmd = base['cmd'].replace('<file>', out)
    subprocess.run(cmd, shell=True, env=env, stdout=subprocess.DEVNULL, stderr=subprocess.DEVNULL)
    passed = set()
    failed = set()
    for tc in ET.parse(out).getroot().iter('testcase'):
        name = f"{tc.get('classname')}::{tc.get('name')}"
        bad = any(c.tag in ('failure', 'error', 'skipped') for c in tc)
        (failed if bad else passed).add(name)
    os.unlink(out)
    missing = [t for t in base['stable_pass'] if t not in passed]
    print(f'passed={len(passed)} failed={len(failed)} baseline={len(base["stable_pass"])} baseline_missing={len(missing)}')
    for t in missing:
        print('  MISSING', t)
    if '-v' in sys.argv:
        for t in sorted(failed):
            print('  FAILED', t)
    return 1 if missing else 0

if __name__ == '__main__':
    sys.exit(main())
