#!/usr/bin/env python3
"""snapshot the (unparsed) source of every function under contract that has loop invariants into contracts/baseline/ --
the reference for recovering renamed locals (pyvc/renames.py).  Run on the tree the contracts were written against."""
import ast
import os
import sys
sys.path.insert(0, os.path.dirname(os.path.dirname(os.path.abspath(__file__))))
from contracts import build_registry
from pyvc.interp import World
from pyvc.renames import BASE, baseline_path

reg = build_registry()
w = World(reg)
os.makedirs(BASE, exist_ok=True)
n = 0
for key, c in sorted(reg.contracts.items()):
    if not (c.invariants or c.locals_sig):
        continue
    fn, _cls, _sha = w.repo.find(key)
    if fn is None:
        continue
    with open(baseline_path(key), 'w', encoding='utf-8') as f:
        f.write(ast.unparse(fn) + '\n')
    n += 1
print(n, 'baseline sources written to', BASE)
