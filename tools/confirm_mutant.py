#!/usr/bin/env python3
"""Confirm a seeded change in a scratch worktree of /repo (outside /repo and /verif):
   demo passes on the unchanged tree, fails with the change, the pinned baseline tests still pass.
   usage: confirm_mutant.py <srcdir with patch.diff demo.py meta.json> <id>   -> writes /verif/seeded/<id>/"""
import json, os, shutil, subprocess, sys, xml.etree.ElementTree as ET

src, mid = sys.argv[1], sys.argv[2]
wt = f'/var/tmp/mw_{mid}'
subprocess.run(['git', '-C', '/repo', 'worktree', 'remove', '--force', wt], capture_output=True)
subprocess.run(['git', '-C', '/repo', 'worktree', 'add', '-q', '--detach', wt, 'HEAD'], check=True)
res = {'id': mid}
try:
    demo = os.path.join(src, 'demo.py')
    # the demonstration runs from the root of the scratch worktree (a copy there: `import tatsu` must find the worktree's package)
    local = os.path.join(wt, f'_demo_{mid}.py')
    shutil.copy(demo, local)
    run = lambda: subprocess.run(['/venv/bin/python', local], cwd=wt, capture_output=True, text=True, timeout=1800,
                                 env={**os.environ, 'PYTHONPATH': wt})
    r0 = run()
    res['demo_unchanged_exit'] = r0.returncode
    ap = subprocess.run(['git', '-C', wt, 'apply', '--3way', os.path.join(src, 'patch.diff')], capture_output=True, text=True)
    if ap.returncode != 0:
        ap = subprocess.run(['git', '-C', wt, 'apply', os.path.join(src, 'patch.diff')], capture_output=True, text=True)
    res['patch_applies'] = ap.returncode == 0
    res['patch_err'] = ap.stderr[-300:]
    if ap.returncode == 0:
        r1 = run()
        res['demo_changed_exit'] = r1.returncode
        res['demo_changed_tail'] = (r1.stdout + r1.stderr)[-400:]
        base = json.load(open('/root/.vp/BASELINE.json'))
        out = f'/var/tmp/mw_{mid}.xml'
        subprocess.run(f'cd {wt} && /venv/bin/python -m pytest -q -p no:cacheprovider --timeout=900 --continue-on-collection-errors --junitxml={out}',
                       shell=True, capture_output=True)
        passed = set()
        for tc in ET.parse(out).getroot().iter('testcase'):
            if not any(c.tag in ('failure', 'error', 'skipped') for c in tc):
                passed.add(f"{tc.get('classname')}::{tc.get('name')}")
        os.unlink(out)
        missing = [t for t in base['stable_pass'] if t not in passed]
        res['baseline_missing'] = missing[:5]
        res['baseline_ok'] = not missing
        # refreshed diff against the current HEAD
        os.unlink(local)
        res['diff'] = subprocess.run(['git', '-C', wt, 'diff', 'HEAD'], capture_output=True, text=True).stdout
finally:
    subprocess.run(['git', '-C', '/repo', 'worktree', 'remove', '--force', wt], capture_output=True)
ok = res.get('demo_unchanged_exit') == 0 and res.get('patch_applies') and res.get('demo_changed_exit', 0) != 0 and res.get('baseline_ok')
res['confirmed'] = bool(ok)
print(json.dumps({k: v for k, v in res.items() if k != 'diff'}, indent=1))
if ok:
    dst = f'/verif/seeded/{mid}'
    os.makedirs(dst, exist_ok=True)
    open(os.path.join(dst, 'patch.diff'), 'w').write(res['diff'])
    shutil.copy(demo, os.path.join(dst, 'demo.py'))
    meta = json.load(open(os.path.join(src, 'meta.json')))
    meta['confirmed'] = {'scratch_worktree': 'git worktree of /repo HEAD under /var/tmp (removed afterwards)',
                         'demo_on_unchanged_tree': 'exit 0', 'demo_with_change': f"exit {res['demo_changed_exit']}",
                         'baseline_470_tests_with_change': 'all pass', 'repo_head': subprocess.run(['git', '-C', '/repo', 'rev-parse', '--short', 'HEAD'], capture_output=True, text=True).stdout.strip()}
    json.dump(meta, open(os.path.join(dst, 'meta.json'), 'w'), indent=1)
sys.exit(0 if ok else 1)
