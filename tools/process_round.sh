#!/bin/bash
# confirm and evaluate the seeded changes delivered so far under <dir>/out that are not yet in /verif/seeded
# usage: process_round.sh /tmp/mutants3
dir=$1
cd /verif
for d in $dir/out/*/; do
  id=$(basename $d)
  [ -f $d/patch.diff ] && [ -f $d/meta.json ] && [ -f $d/demo.py ] || continue
  [ -d seeded/$id ] && continue
  python3 tools/confirm_mutant.py $d $id > /var/tmp/confirm_$id.log 2>&1
  if [ -d seeded/$id ]; then
    prop=$(python3 -c "import json;print(json.load(open('seeded/$id/meta.json'))['property'])")
    res=$(tools/eval_mutant.sh $id $prop 2>&1 | grep "^==\|^VIOLATION" | head -2 | tr '\n' ' ' | cut -c1-330)
    echo "$id CONFIRMED  $res"
  else
    echo "$id NOT CONFIRMED: $(grep -v WARN /var/tmp/confirm_$id.log | tr '\n' ' ' | cut -c1-300)"
  fi
done
