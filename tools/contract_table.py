#!/usr/bin/env python3
"""print the as-built table of functions under contract (DESIGN.md, Appendix B'): per repository file the contracts verified by
pyvc and the assumed ones, from the contract registry."""
import os
import sys
sys.path.insert(0, os.path.dirname(os.path.dirname(os.path.abspath(__file__))))
from contracts import build_registry

reg = build_registry()
rows = {}
for key, c in sorted(reg.contracts.items()):
    f, q = key.split(':', 1)
    r = rows.setdefault(f, {'v': [], 'a': [], 'p': set()})
    (r['v'] if c.verify else r['a']).append(q)
    r['p'].update(c.props)
print('| file | verified by pyvc | assumed (listed in every evidence file) | props |')
print('|------|------------------|------------------------------------------|-------|')
nv = na = 0
for f, r in sorted(rows.items()):
    nv += len(r['v'])
    na += len(r['a'])
    fmt = lambda xs: ' '.join(f'`{x}`' for x in xs) or '—'
    print(f"| `{f.replace('tatsu/', '')}` | {fmt(r['v'])} | {fmt(r['a'])} | {' '.join(sorted(r['p']))} |")
print()
print(f"{nv} verified, {na} assumed; generic contracts: {', '.join(f'`{g}`' for g in sorted(reg.generic))}")
