#!/usr/bin/env python3
"""Evaluate seeded changes / refactorings in parallel WITHOUT touching /repo: every job gets a scratch copy of /repo's HEAD
(git archive) with the patch applied and runs the check of the property in its own worktree of /verif with VERIF_REPO and
PYTHONPATH pointing at the copy.  Scratch copies and worktrees live under /var/tmp and are removed afterwards.

    eval_parallel.py [-j N] seeded|benign [id ...]        -> one line per id: id prop exit=<rc> <summary>; VIOLATION / UNDECIDED lines

Expected: seeded -> exit 1; benign -> exit 0.  (The registered checks themselves always run against /repo.)"""
import argparse, json, os, shutil, subprocess, sys
from concurrent.futures import ThreadPoolExecutor

VERIF = os.path.dirname(os.path.dirname(os.path.abspath(__file__)))


def sh(cmd, **kw):
    return subprocess.run(cmd, shell=True, capture_output=True, text=True, **kw)


def job(args):
    slot, corpus, mid = args
    d = os.path.join(VERIF, corpus, mid)
    prop = json.load(open(os.path.join(d, 'meta.json')))['property']
    props = [prop] + (open(os.path.join(d, 'also.txt')).read().split() if os.path.exists(os.path.join(d, 'also.txt')) else [])
    repo = f'/var/tmp/evr_{slot}_{mid}'
    shutil.rmtree(repo, ignore_errors=True)
    os.makedirs(repo)
    sh(f'git -C /repo archive HEAD | tar -x -C {repo}')
    ap = sh(f'cd {repo} && patch -p1 -s < {d}/patch.diff')
    out = []
    if ap.returncode != 0:
        shutil.rmtree(repo, ignore_errors=True)
        return [f'{mid} {prop} PATCH-DOES-NOT-APPLY {ap.stdout[-200:]}']
    wt = f'/var/tmp/evw_{slot}'
    env = dict(os.environ, VERIF_REPO=repo, PYTHONPATH=repo, VERIF_JOBS=os.environ.get('EVAL_JOBS', '6'))
    for p in props[:1]:
        r = subprocess.run(['./check', p], cwd=wt, env=env, capture_output=True, text=True)
        lines = r.stdout.strip().splitlines()
        out.append(f'{mid} {p} exit={r.returncode} {lines[-1][:150] if lines else r.stderr[-200:]}')
        out += [x[:260].replace(wt, '/verif') for x in lines if x.startswith(('VIOLATION', 'UNDECIDED'))][:3]
    shutil.rmtree(repo, ignore_errors=True)
    return out


def main():
    ap = argparse.ArgumentParser()
    ap.add_argument('-j', type=int, default=4)
    ap.add_argument('corpus', choices=['seeded', 'benign'])
    ap.add_argument('ids', nargs='*')
    a = ap.parse_args()
    ids = a.ids or sorted(x for x in os.listdir(os.path.join(VERIF, a.corpus)) if os.path.isfile(os.path.join(VERIF, a.corpus, x, 'patch.diff')))
    for s in range(a.j):
        wt = f'/var/tmp/evw_{s}'
        sh(f'git -C {VERIF} worktree remove --force {wt}')
        shutil.rmtree(wt, ignore_errors=True)
        r = sh(f'git -C {VERIF} worktree add -q --detach {wt} HEAD')
        if r.returncode:
            print(r.stderr)
            return 3
        os.symlink(os.path.join(VERIF, '.venv'), os.path.join(wt, '.venv'))
    # one job at a time per slot
    from queue import Queue
    q = Queue()
    for s in range(a.j):
        q.put(s)

    def run(mid):
        s = q.get()
        try:
            return job((s, a.corpus, mid))
        finally:
            q.put(s)

    with ThreadPoolExecutor(max_workers=a.j) as ex:
        for lines in ex.map(run, ids):
            print('\n'.join(lines), flush=True)
    for s in range(a.j):
        sh(f'git -C {VERIF} worktree remove --force /var/tmp/evw_{s}')
    return 0


if __name__ == '__main__':
    sys.exit(main())
