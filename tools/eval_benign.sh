#!/bin/bash
# apply each behaviour-preserving refactoring under <dir> (or /verif/benign) to /repo, run the check of its property and undo it;
# every check must exit 0 (anything else is a false alarm or a brittle proof).   usage: eval_benign.sh [dir] [id ...]
dir=${1:-/verif/benign}; shift
cd /verif
ids="$@"; [ -z "$ids" ] && ids=$(ls $dir)
for id in $ids; do
  d=$dir/$id
  [ -f $d/patch.diff ] || continue
  prop=$(python3 -c "import json;print(json.load(open('$d/meta.json'))['property'])")
  git -C /repo diff --quiet || { echo "/repo has local changes"; exit 3; }
  if ! git -C /repo apply $d/patch.diff 2>/dev/null; then echo "$id $prop PATCH-DOES-NOT-APPLY"; continue; fi
  out=$(./check $prop 2>&1); rc=$?
  git -C /repo checkout -- . ; git -C /repo clean -fdq tatsu 2>/dev/null
  echo "$id $prop exit=$rc $(echo "$out" | tail -1 | cut -c1-150)"
  echo "$out" | grep "^VIOLATION\|^UNDECIDED" | head -4 | cut -c1-260
done
