#!/bin/bash
# apply a seeded change to /repo, run the checks of the given properties, undo it straight afterwards
# usage: eval_mutant.sh <seeded-id> <prop> [<prop> ...]
id=$1; shift
cd /verif
git -C /repo diff --quiet || { echo "/repo has local changes"; exit 3; }
git -C /repo apply /verif/seeded/$id/patch.diff || { echo "patch does not apply"; exit 3; }
trap 'git -C /repo checkout -- .' EXIT
for p in "$@"; do
  out=$(./check $p 2>&1); rc=$?
  echo "== $id vs $p: exit=$rc  $(echo "$out" | tail -1)"
  echo "$out" | grep "^VIOLATION\|^UNDECIDED\|^  obligation" | head -6
done
