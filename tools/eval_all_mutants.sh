#!/bin/bash
# evaluate every seeded change against the check of its property (and extra properties given in seeded/<id>/also.txt);
# writes seeded/RESULTS.txt.  /repo is restored after each one.
cd /verif
out=seeded/RESULTS.txt
: > $out.tmp
for d in seeded/*/; do
  id=$(basename $d)
  [ -f $d/patch.diff ] || continue
  prop=$(python3 -c "import json;print(json.load(open('$d/meta.json'))['property'])")
  props="$prop $(cat $d/also.txt 2>/dev/null)"
  if ! git -C /repo apply --check /verif/$d/patch.diff 2>/dev/null; then
    if git -C /repo apply --check-NEVER /verif/$d/patch.diff 2>/dev/null; then mode="--3way"; else echo "$id $prop PATCH-DOES-NOT-APPLY" >> $out.tmp; continue; fi
  else mode=""; fi
  git -C /repo apply $mode /verif/$d/patch.diff 2>/dev/null
  for p in $props; do
    o=$(./check $p 2>&1); rc=$?
    first=$(echo "$o" | grep "^VIOLATION" | head -1 | sed 's/.*replay=[^ ]*replays\/[^/]*\///' | cut -c1-110)
    echo "$id $p exit=$rc $(echo "$o" | grep -c '^VIOLATION') violations; first: $first" >> $out.tmp
  done
  git -C /repo checkout -- . ; git -C /repo reset -q
done
mv $out.tmp $out
cat $out
