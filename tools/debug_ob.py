#!/usr/bin/env python3
"""print the path condition / goal / verdict of the obligations of one contract.   usage: debug_ob.py <contract key> [oid substring]"""
import sys, os
sys.path.insert(0, os.path.dirname(os.path.dirname(os.path.abspath(__file__))))
from contracts import build_registry
from pyvc.interp import World
from pyvc.contracts import verify_function
from pyvc import solve
reg = build_registry(); world = World(reg)
c = reg.contracts[sys.argv[1]]
rep = verify_function(world, c)
print(rep.status, rep.detail, 'paths', rep.paths, 'obligations', len(rep.obligations))
sel = sys.argv[2] if len(sys.argv) > 2 else None
for ob in rep.obligations:
    if sel and sel not in ob.oid:
        continue
    v = solve.discharge(world, [ob], timeout_ms=int(os.environ.get('MS', '10000')), jobs=1)[ob.oid]
    print('==', ob.oid, v.status, v.backend, round(v.ms), ob.note)
    if v.status != 'discharged' or os.environ.get('SHOW'):
        for f in ob.pc:
            print('   pc:', f.sexpr().replace('\n', ' ')[:400])
        print('   goal:', ob.goal.sexpr().replace('\n', ' ')[:600])
        if v.status == 'refuted':
            m = solve.model_of(world, ob)
            print('   model:', str(m)[:1500])
