#!/bin/bash
# run every registered quick check on the current tree; print one line per property
cd "$(dirname "$0")/.."
tier=${1:-quick}
for p in $(python3 -c "import json; print(' '.join(c['property_id'] for c in json.load(open('MANIFEST.json'))['checks']))"); do
  start=$(date +%s)
  out=$(./check $p --tier $tier 2>&1); rc=$?
  echo "$p exit=$rc $(( $(date +%s) - start ))s  $(echo "$out" | tail -1)"
  echo "$out" | grep "^VIOLATION\|^UNDECIDED\|CHECKER-ERROR" | head -5
done
.venv/bin/python - <<'PY'
import json, jsonschema, glob
sch = json.load(open('/root/.vp/EVIDENCE.schema.json'))
m = json.load(open('MANIFEST.json'))
jsonschema.validate(m, json.load(open('/root/.vp/MANIFEST.schema.json')))
for c in m['checks']:
    ev = json.load(open(c['evidence_file']))
    jsonschema.validate(ev, sch)
    cov = ev['coverage']
    if ev['level'] == 'proof' and cov['obligations'] != cov['discharged']:
        print('EVIDENCE MISMATCH', c['property_id'], cov['obligations'], cov['discharged'])
print('manifest + evidence files valid')
PY
