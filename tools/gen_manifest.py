#!/usr/bin/env python3
"""Regenerate /verif/MANIFEST.json from the table below (kept valid at all times)."""
import json
import os

HERE = os.path.dirname(os.path.dirname(os.path.abspath(__file__)))

CHECKS = {}
NOT_YET = {}


def check(pid, category, text, note, technique, design_ref):
    CHECKS[pid] = dict(
        property_id=pid,
        quick_cmd=f'./check {pid} --tier quick',
        thorough_cmd=f'./check {pid} --tier thorough',
        evidence_file=f'evidence/{pid}.json',
        replay_cmd_template=f'./check {pid} --replay {{path}}',
        engine='pyvc',
        level_claimed=dict(category=category, text=text, design_ref=design_ref),
        level_note=note,
        technique=technique,
    )


exec(open(os.path.join(HERE, 'tools', 'manifest_table.py')).read())

props = [json.loads(l)['id'] for l in open(os.path.join(HERE, 'properties.jsonl'))]
manifest = {
    'version': 1,
    'setup_cmd': 'cd /verif && ./setup.sh',
    'hooks': {
        'guard': 'TATSU_VERIF',
        'enable': 'no source hooks: contracts are sidecar files under /verif/contracts keyed by file:qualname; '
                  'bounded monitors are installed by monkey-patching inside the check process',
        'baseline_off_cmd': 'cd /verif && python3 tools/baseline.py',
        'source_commits': [],
        'add_only': True,
    },
    'engines': [
        {'name': 'pyvc', 'path': 'pyvc/', 'serves_properties': sorted(CHECKS),
         'kind_free_text': 'contract-based deductive verifier for a python subset: sidecar contracts, VCs generated from the '
                           'real function ASTs in /repo on every run (path-replay symbolic execution, loops cut by invariants, '
                           'callees replaced by contracts), discharged by z3 5.1 with z3 4.8.12 / cvc5 fallbacks; counter-models '
                           'replayed on the real functions'},
        {'name': 'bounded', 'path': 'bounded/', 'serves_properties': sorted(CHECKS),
         'kind_free_text': 'bounded stand-in: the same contracts / the documented-semantics oracle evaluated on the real code over '
                           'exhaustively enumerated small domains with stated bounds; never counted as proved'},
    ],
    'checks': [CHECKS[p] for p in props if p in CHECKS],
    'not_applicable': [{'property_id': p, 'reason': NOT_YET.get(p, 'check not built yet in this round; see DESIGN.md section 3 for the plan')}
                       for p in props if p not in CHECKS],
    'notes': 'See DESIGN.md. Exit codes of every check: 0 held, 1 violation (VIOLATION line), 2 undecided, 3 checker error.',
}
json.dump(manifest, open(os.path.join(HERE, 'MANIFEST.json'), 'w'), indent=1)
print('checks:', sorted(CHECKS), 'not_applicable:', [p for p in props if p not in CHECKS])
