"""Recovery of renamed locals.

Loop invariants have to mention the locals a loop works with (`lastpos`, `out`, `p`): a maintainer who renames such a local
changes nothing in the behaviour, and the proof must survive it.  The contract names are the names of the locals in the BASELINE
source of the function (a snapshot of its unparsed text, `contracts/baseline/`, taken when the contract was written).  When the
current source no longer assigns a name the contract uses, the name is matched to the current local that is assigned from the same
expressions (compared with the still-unmatched locals blanked out; when the edit also introduced or inlined a local, the candidate sharing the
most defining expressions); the match has to be unique, otherwise nothing is renamed and the function is reported `undecided` as before.  A wrong match cannot make a proof pass that should fail in any way other than by proving
an invariant about the wrong variable; invariants about the wrong variable of the same defining expressions are still true facts
about the code, and every postcondition is stated over parameters and results only.
"""
from __future__ import annotations

import ast
import os

HERE = os.path.dirname(os.path.dirname(os.path.abspath(__file__)))
BASE = os.path.join(HERE, 'contracts', 'baseline')


def baseline_path(key: str) -> str:
    safe = key.split('#')[0].replace('/', '__').replace(':', '--')
    return os.path.join(BASE, safe + '.src')


def _assignments(fn) -> dict[str, list[ast.AST]]:
    """local name -> the expressions it is assigned from (loop targets and `with ... as` record the iterable / manager)"""
    out: dict[str, list[ast.AST]] = {}

    def add(t, v):
        if isinstance(t, ast.Name):
            out.setdefault(t.id, []).append(v)
        elif isinstance(t, (ast.Tuple, ast.List)):
            for i, e in enumerate(t.elts):
                add(e, ast.Subscript(value=v, slice=ast.Constant(i), ctx=ast.Load()))

    for n in ast.walk(fn):
        if isinstance(n, ast.Assign):
            for t in n.targets:
                add(t, n.value)
        elif isinstance(n, ast.AnnAssign) and n.value is not None:
            add(n.target, n.value)
        elif isinstance(n, ast.AugAssign):
            add(n.target, ast.BinOp(left=ast.Name(id=getattr(n.target, 'id', '?'), ctx=ast.Load()), op=n.op, right=n.value))
        elif isinstance(n, ast.NamedExpr):
            add(n.target, n.value)
        elif isinstance(n, (ast.For, ast.comprehension)):
            add(n.target, ast.Call(func=ast.Name(id='iter', ctx=ast.Load()), args=[n.iter], keywords=[]))
        elif isinstance(n, ast.withitem) and n.optional_vars is not None:
            add(n.optional_vars, n.context_expr)
    return out


def _params(fn) -> set[str]:
    a = fn.args
    names = {x.arg for x in a.posonlyargs + a.args + a.kwonlyargs}
    if a.vararg:
        names.add(a.vararg.arg)
    if a.kwarg:
        names.add(a.kwarg.arg)
    return names


def _sig(exprs, known: dict[str, str], blank: set[str]) -> tuple:
    out = []
    for e in exprs:
        e2 = ast.parse(ast.unparse(ast.fix_missing_locations(e)), mode='eval').body

        class R(ast.NodeTransformer):
            def visit_Name(self, n):
                if n.id in blank:
                    return ast.copy_location(ast.Name(id='_', ctx=n.ctx), n)
                return ast.copy_location(ast.Name(id=known.get(n.id, n.id), ctx=n.ctx), n)
        out.append(ast.dump(R().visit(e2)))
    return tuple(sorted(out))


def recover(key: str, current_fn, needed: set[str]) -> dict[str, str]:
    """baseline-local -> current-local for the names in `needed` that the current source no longer assigns"""
    path = baseline_path(key)
    if not os.path.exists(path):
        return {}
    try:
        base_fn = ast.parse(open(path, encoding='utf-8').read()).body[0]
    except (SyntaxError, IndexError):
        return {}
    ba, ca = _assignments(base_fn), _assignments(current_fn)
    bl = set(ba) - _params(base_fn)
    cl = set(ca) - _params(current_fn)
    missing = {n for n in needed if n in bl and n not in cl}
    if not missing:
        return {}
    B = bl - cl  # baseline locals that disappeared
    C = cl - bl  # locals that appeared
    mapping: dict[str, str] = {}
    changed = True
    while changed:
        changed = False
        for b in sorted(B - set(mapping)):
            sb = _sig(ba[b], mapping, B - set(mapping))
            free = sorted(C - set(mapping.values()))
            sigs = {c: _sig(ca[c], {}, C - set(mapping.values())) for c in free}
            cands = [c for c in free if sigs[c] == sb]
            if len(cands) != 1:
                # no exact match (the edit also introduced or inlined a local): the candidate that shares the most defining
                # expressions, when it is the only one with that score and shares at least one
                def score(c):
                    rest = list(sigs[c])
                    n = 0
                    for x in sb:
                        if x in rest:
                            rest.remove(x)
                            n += 1
                    return n
                best = max((score(c) for c in free), default=0)
                cands = [c for c in free if score(c) == best] if best >= 1 else []
            if len(cands) == 1:
                mapping[b] = cands[0]
                changed = True
    return {b: c for b, c in mapping.items()}


def rename_clause(text: str, mapping: dict[str, str]) -> str:
    if not mapping:
        return text
    tree = ast.parse(text.strip(), mode='eval')

    class R(ast.NodeTransformer):
        def visit_Name(self, n):
            return ast.copy_location(ast.Name(id=mapping.get(n.id, n.id), ctx=n.ctx), n)
    return ast.unparse(R().visit(tree))


def names_in(texts) -> set[str]:
    out = set()
    for t in texts:
        try:
            out |= {n.id for n in ast.walk(ast.parse(t.strip(), mode='eval')) if isinstance(n, ast.Name)}
        except SyntaxError:
            pass
    return out


def baseline_locals(key: str) -> set[str]:
    """the names the baseline source of the function assigns (other than its parameters)"""
    path = baseline_path(key)
    if not os.path.exists(path):
        return set()
    try:
        base_fn = ast.parse(open(path, encoding='utf-8').read()).body[0]
    except (SyntaxError, IndexError):
        return set()
    return set(_assignments(base_fn)) - _params(base_fn)
