"""Discharging obligations: z3 (python API) first; `unknown` is retried on the other installed
solvers with the dumped SMT-LIB2 text.  Verdicts: discharged / refuted / undecided."""
from __future__ import annotations

import os
import subprocess
import tempfile
import time
from concurrent.futures import ProcessPoolExecutor
from dataclasses import dataclass, field

import z3


@dataclass
class Verdict:
    oid: str
    status: str  # 'discharged' | 'refuted' | 'undecided'
    backend: str
    ms: float
    reason: str = ''
    model: dict = field(default_factory=dict)


_SYMS: dict[int, frozenset] = {}


def symbols_of(e) -> frozenset:
    """names of the uninterpreted functions / constants of a formula (cached per AST id)"""
    k = e.get_id()
    got = _SYMS.get(k)
    if got is not None:
        return got
    out, seen, todo = set(), set(), [e]
    while todo:
        x = todo.pop()
        i = x.get_id()
        if i in seen:
            continue
        seen.add(i)
        if z3.is_quantifier(x):
            todo.append(x.body())
            continue
        if z3.is_app(x):
            d = x.decl()
            if d.kind() == z3.Z3_OP_UNINTERPRETED or d.kind() == z3.Z3_OP_RECURSIVE:
                out.add(d.name())
            todo.extend(x.children())
    got = frozenset(out)
    _SYMS[k] = got
    return got


def relevant_axioms(axioms, formulas):
    """axioms connected to the formulas through shared uninterpreted symbols (closure).  The omitted ones speak
    about disjoint symbols only, so neither `unsat` nor `sat` of the query depends on them."""
    syms = set()
    for f in formulas:
        syms |= symbols_of(f)
    rest = [(a, symbols_of(a)) for a in axioms]
    out = []
    changed = True
    while changed and rest:
        changed = False
        keep = []
        for a, sy in rest:
            if not sy or sy & syms:
                out.append(a)
                syms |= sy
                changed = changed or bool(sy)
            else:
                keep.append((a, sy))
        rest = keep
    return out


def to_smt2(axioms, pc, goal) -> str:
    s = z3.Solver()
    for a in relevant_axioms(axioms, list(pc) + [goal]):
        s.add(a)
    for c in pc:
        s.add(c)
    s.add(z3.Not(goal))
    return s.to_smt2()


def _z3_check(smt: str, timeout_ms: int):
    t0 = time.time()
    ctx = z3.Context()
    s = z3.Solver(ctx=ctx)
    s.set('timeout', timeout_ms)
    try:
        s.from_string(smt)
        r = s.check()
        res = str(r)
        reason = s.reason_unknown() if res == 'unknown' else ''
    except z3.Z3Exception as e:  # pragma: no cover
        res, reason = 'unknown', f'z3 error: {e}'
    return res, reason, (time.time() - t0) * 1000


def _cli_check(cmd: list[str], smt: str, timeout_s: int):
    t0 = time.time()
    with tempfile.NamedTemporaryFile('w', suffix='.smt2', dir='/var/tmp', delete=False) as f:
        f.write(smt)
        name = f.name
    try:
        out = subprocess.run(cmd + [name], capture_output=True, text=True, timeout=timeout_s)
        first = (out.stdout.strip().splitlines() or ['unknown'])[0].strip()
        res = first if first in ('sat', 'unsat', 'unknown') else 'unknown'
        reason = '' if res != 'unknown' else (out.stdout + out.stderr)[:200]
    except subprocess.TimeoutExpired:
        res, reason = 'unknown', 'timeout'
    finally:
        os.unlink(name)
    return res, reason, (time.time() - t0) * 1000


def solve_one(args):
    oid, smt, timeout_ms, fallbacks = args
    # Every solver runs as a separate process with a hard time limit (the in-process API does not always
    # honour its timeout).  Staged: z3 5.1 briefly, then the other installed solvers, then z3 5.1 with the
    # full budget -- most VCs take milliseconds, and the few hard ones are often easy for another solver.
    total = max(1, timeout_ms // 1000)
    first = min(5, total)
    stages = [(f'z3-{z3.get_version_string()} (cli)', ['z3-new', '-smt2', f'-T:{first}'], first + 5)]
    for name, cmd in fallbacks:
        stages.append((name, cmd, 25))
    if total > first:
        stages.append((f'z3-{z3.get_version_string()} (cli)', ['z3-new', '-smt2', f'-T:{total}'], total + 5))
    ms = 0.0
    reasons = []
    res, backend = 'unknown', stages[0][0]
    for name, cmd, hard in stages:
        r, why, t = _cli_check(cmd, smt, hard)
        ms += t
        if r == 'sat' and not name.startswith(f'z3-{z3.get_version_string()}') and ('define-fun-rec' in smt or 'define-funs-rec' in smt):
            # an obligation over RECURSIVE spec functions: only the primary solver's `sat` counts as a refutation.  z3 4.8.12 answered
            # `sat` on such an obligation that z3 5.1 proves (observed under load, when the primary's first slice had timed out: a false
            # alarm on a harmless edit).  Without recursive definitions the fallback solvers' `sat` (a model checked against the
            # quantified assumptions) is accepted: the primary often answers `unknown` there
            reasons.append(f'{name}: sat (not accepted from a fallback solver for recursive definitions)')
            continue
        if r in ('sat', 'unsat'):
            res, backend = r, name
            break
        reasons.append(f'{name}: {why[:60]}')
    status = {'unsat': 'discharged', 'sat': 'refuted'}.get(res, 'undecided')
    return Verdict(oid, status, backend, ms, ' | '.join(reasons) if status == 'undecided' else '')


FALLBACKS = [
    ('cvc5-1.0.3', ['/usr/bin/cvc5', '--lang', 'smt2', '--strings-exp', '--tlimit=15000']),
    ('z3-4.8.12', ['/usr/bin/z3', '-smt2', '-T:15']),
]


def discharge(world, obligations, timeout_ms=10000, jobs=None, use_fallbacks=True) -> dict[str, Verdict]:
    jobs = jobs or int(os.environ.get('VERIF_JOBS', '0')) or min(16, os.cpu_count() or 4)
    work = []
    for ob in obligations:
        smt = to_smt2(list(world.axioms) + list(ob.axioms), ob.pc, ob.goal)
        ob.smt = smt
        work.append((ob.oid, smt, timeout_ms, FALLBACKS if use_fallbacks else []))
    out: dict[str, Verdict] = {}
    if jobs <= 1 or len(work) <= 2:
        for w in work:
            v = solve_one(w)
            out[v.oid] = v
    else:
        with ProcessPoolExecutor(max_workers=jobs) as ex:
            for v in ex.map(solve_one, work, chunksize=1):
                out[v.oid] = v
    return out


def model_of(world, ob, timeout_ms=20000):
    """re-solve a refuted obligation in-process to obtain a z3 model; small models are tried first
    (lengths and integers bounded by 4, 12, 40) so that counter-examples are readable."""
    ints = []
    for entry in ob.vars.values():
        kind = entry[0]
        if kind in ('arrstr', 'arrlist'):
            ints.append(entry[2])
        elif kind in ('term',) and z3.is_int(entry[1]):
            ints.append(entry[1])
        elif kind == 'term' and z3.is_string(entry[1]):
            ints.append(z3.Length(entry[1]))
        elif kind == 'term' and z3.is_seq(entry[1]):
            ints.append(z3.Length(entry[1]))
    import threading
    hints = []
    for mk in getattr(world, 'model_hints', {}).values():
        # a fact about every input string (instantiated on the inputs: ground, or quantified over the index of a list of strings)
        for entry in ob.vars.values():
            if entry[0] == 'term' and z3.is_string(entry[1]):
                hints.append(mk(entry[1]))
            elif entry[0] == 'arrlist' and entry[1].sort().range() == z3.StringSort():
                k = z3.Int('k!hint')
                hints.append(z3.ForAll([k], mk(z3.Select(entry[1], k))))
    plan = [(4, True)] if hints else []
    plan += [(b, False) for b in (4, 12, 40, None)]
    for bound, with_hints in plan:
        s = z3.Solver()
        budget = min(timeout_ms, 8000) if with_hints else timeout_ms
        s.set('timeout', budget)
        watchdog = threading.Timer(budget / 1000 + 5, z3.main_ctx().interrupt)
        watchdog.daemon = True
        watchdog.start()
        for a in relevant_axioms(list(world.axioms) + list(ob.axioms), list(ob.pc) + [ob.goal]):
            s.add(a)
        for c in ob.pc:
            s.add(c)
        s.add(z3.Not(ob.goal))
        if with_hints:
            for h in hints:
                s.add(h)
        if bound is not None:
            for t in ints:
                s.add(t <= bound, t >= -bound)
        try:
            r = s.check()
        except z3.Z3Exception:
            r = z3.unknown
        finally:
            watchdog.cancel()
        if r == z3.sat:
            return s.model()
    return None
