"""z3 sorts used by pyvc: the universal Python value `Val`, exceptions, and record datatypes.

Python semantics assumed by this encoding (listed in every evidence file):
  * `int` is mathematical (exact: Python ints are unbounded);
  * `str` is a z3 Unicode string, or (sig `arrstr`) an `(Array Int Int, len)` pair of code points;
  * `==` on `Val` is structural equality (bool/int cross-equality `True == 1` and
    `closedlist == list` content equality are NOT modelled: code under contract that compares
    such mixed values is out of subset);
  * dict ordering is not modelled (a dict is a key set plus a value map).
"""
from __future__ import annotations

import z3

ValRef = z3.DatatypeSort('Val')
_V = z3.Datatype('Val')
_V.declare('none')
_V.declare('vbool', ('b', z3.BoolSort()))
_V.declare('vint', ('i', z3.IntSort()))
_V.declare('vstr', ('s', z3.StringSort()))
_V.declare('vlist', ('items', z3.SeqSort(ValRef)))
_V.declare('vclist', ('citems', z3.SeqSort(ValRef)))
_V.declare('vtup', ('titems', z3.SeqSort(ValRef)))
_V.declare(
    'vdict',
    ('dkeys', z3.ArraySort(z3.StringSort(), z3.BoolSort())),
    ('dvals', z3.ArraySort(z3.StringSort(), ValRef)),
)
_V.declare('vobj', ('ocls', z3.IntSort()), ('oid', z3.IntSort()))
Val = _V.create()

SeqVal = z3.SeqSort(Val)
StrSet = z3.ArraySort(z3.StringSort(), z3.BoolSort())
StrMap = z3.ArraySort(z3.StringSort(), Val)
IntSet = z3.ArraySort(z3.IntSort(), z3.BoolSort())

# exceptions: class id (index into the class table) and an identity
_E = z3.Datatype('Exc')
_E.declare('mkexc', ('ecls', z3.IntSort()), ('eid', z3.IntSort()))
Exc = _E.create()

RECORDS: dict[str, z3.DatatypeSortRef] = {}
RECORD_FIELDS: dict[str, list[tuple[str, str]]] = {}
LIST_RECORDS: dict[str, str] = {}  # record name of a nested list -> its element sort name
RECORD_MUTABLE: dict[str, bool] = {}


UNIONS: dict[str, z3.DatatypeSortRef] = {}


def declare_union(name: str, alts: list[tuple[str, list[tuple[str, str]]]]):
    """tagged union datatype: alts = [(ctor, [(field, sort), ...]), ...]"""
    if name in UNIONS:
        return UNIONS[name]
    d = z3.Datatype(name)
    for ctor, fields in alts:
        d.declare(ctor, *[(f'{ctor}__{f}', sort_of(s)) for f, s in fields])
    d = d.create()
    UNIONS[name] = d
    return d


def sort_of(name: str):
    """Map a sig sort name to a z3 sort (None for python-side kinds)."""
    name = name.strip()
    if name == 'Val':
        return Val
    if name == 'int':
        return z3.IntSort()
    if name == 'bool':
        return z3.BoolSort()
    if name == 'str':
        return z3.StringSort()
    if name == 'seq':
        return SeqVal
    if name == 'strset':
        return StrSet
    if name == 'intset':
        return IntSet
    if name == 'strmap':
        return StrMap
    if name == 'Exc':
        return Exc
    if name.startswith('seq[') and name.endswith(']'):
        return z3.SeqSort(sort_of(name[4:-1]))
    if name.startswith('arrlist[') and name.endswith(']'):
        # a list held as an element of another array-backed list: a record (items array, length)
        inner = name[len('arrlist['):-1]
        rname = 'ListOf_' + ''.join(ch if ch.isalnum() else '_' for ch in inner)
        if rname not in RECORDS:
            declare_record(rname, [('items', f'arr[int,{inner}]'), ('n', 'int')])
            LIST_RECORDS[rname] = inner
        return RECORDS[rname]
    if name.startswith('arr[') and name.endswith(']'):
        k, v = name[4:-1].split(',')
        return z3.ArraySort(sort_of(k), sort_of(v))
    if name in RECORDS:
        return RECORDS[name]
    if name in UNIONS:
        return UNIONS[name]
    return None


def declare_record(name: str, fields: list[tuple[str, str]], mutable: bool = False):
    """Declare a z3 datatype record.  Field sorts are sig sort names."""
    if name in RECORDS:
        return RECORDS[name]
    d = z3.Datatype(name)
    decl = []
    for fname, fsort in fields:
        s = sort_of(fsort)
        if s is None:
            raise ValueError(f'record {name}: unknown sort {fsort} for field {fname}')
        decl.append((f'{name}__{fname}', s))
    d.declare(f'mk_{name}', *decl)
    d = d.create()
    RECORDS[name] = d
    RECORD_FIELDS[name] = list(fields)
    RECORD_MUTABLE[name] = mutable
    return d


def record_name(sort) -> str | None:
    for n, s in RECORDS.items():
        if s == sort:
            return n
    return None


def rec_get(term, field: str):
    name = record_name(term.sort())
    return getattr(RECORDS[name], f'{name}__{field}')(term)


def rec_fields(name: str) -> list[str]:
    return [f for f, _ in RECORD_FIELDS[name]]


def rec_make(name: str, **kw):
    d = RECORDS[name]
    args = [kw[f] for f, _ in RECORD_FIELDS[name]]
    return getattr(d, f'mk_{name}')(*args)


def rec_set(term, field: str, value):
    name = record_name(term.sort())
    d = RECORDS[name]
    args = []
    for f, _ in RECORD_FIELDS[name]:
        args.append(value if f == field else getattr(d, f'{name}__{f}')(term))
    return getattr(d, f'mk_{name}')(*args)


def is_val(t) -> bool:
    return z3.is_expr(t) and t.sort() == Val


def is_seq(t) -> bool:
    return z3.is_expr(t) and z3.is_seq(t) and not z3.is_string(t)


def is_str(t) -> bool:
    return z3.is_expr(t) and z3.is_string(t)


def is_int(t) -> bool:
    return z3.is_expr(t) and z3.is_int(t)


def is_bool(t) -> bool:
    return z3.is_expr(t) and z3.is_bool(t)


def is_record(t) -> bool:
    return z3.is_expr(t) and record_name(t.sort()) is not None


def box(t):
    """Coerce a native z3 term into Val (python value embedding)."""
    if isinstance(t, bool):
        return Val.vbool(z3.BoolVal(t))
    if isinstance(t, int):
        return Val.vint(z3.IntVal(t))
    if isinstance(t, str):
        return Val.vstr(z3.StringVal(t))
    if t is None:
        return Val.none
    if is_val(t):
        return t
    if is_bool(t):
        return Val.vbool(t)
    if is_int(t):
        return Val.vint(t)
    if is_str(t):
        return Val.vstr(t)
    if is_seq(t) and t.sort() == SeqVal:
        return Val.vlist(t)
    raise TypeError(f'cannot box {t!r} of sort {t.sort() if z3.is_expr(t) else type(t)}')


def truth(v):
    """Python truthiness of a Val term."""
    return z3.If(
        Val.is_none(v), z3.BoolVal(False),
        z3.If(Val.is_vbool(v), Val.b(v),
        z3.If(Val.is_vint(v), Val.i(v) != 0,
        z3.If(Val.is_vstr(v), z3.Length(Val.s(v)) > 0,
        z3.If(Val.is_vlist(v), z3.Length(Val.items(v)) > 0,
        z3.If(Val.is_vclist(v), z3.Length(Val.citems(v)) > 0,
        z3.If(Val.is_vtup(v), z3.Length(Val.titems(v)) > 0,
        z3.If(Val.is_vdict(v), Val.dkeys(v) != z3.K(z3.StringSort(), z3.BoolVal(False)),
              OBJ_TRUTHY(v)))))))))


# truthiness of any other object (sets, user classes with __bool__/__len__) is not known
OBJ_TRUTHY = z3.Function('obj_truthy', Val, z3.BoolSort())


def listlike_items(v):
    """items of a list / closedlist Val (caller must establish it is one)."""
    return z3.If(Val.is_vlist(v), Val.items(v), Val.citems(v))


def is_listlike(v):
    return z3.Or(Val.is_vlist(v), Val.is_vclist(v))
