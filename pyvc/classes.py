"""Class tables read from the repository on every run (exceptions, model classes)."""
from __future__ import annotations

import ast
import os

import z3

REPO = os.environ.get('VERIF_REPO', '/repo')

BUILTIN_EXC = {
    'BaseException': [],
    'Exception': ['BaseException'],
    'KeyboardInterrupt': ['BaseException'],
    'SystemExit': ['BaseException'],
    'ArithmeticError': ['Exception'],
    'ZeroDivisionError': ['ArithmeticError'],
    'OverflowError': ['ArithmeticError'],
    'LookupError': ['Exception'],
    'KeyError': ['LookupError'],
    'IndexError': ['LookupError'],
    'ValueError': ['Exception'],
    'UnicodeError': ['ValueError'],
    'TypeError': ['Exception'],
    'AttributeError': ['Exception'],
    'NameError': ['Exception'],
    'RuntimeError': ['Exception'],
    'RecursionError': ['RuntimeError'],
    'NotImplementedError': ['RuntimeError'],
    'AssertionError': ['Exception'],
    'StopIteration': ['Exception'],
    'SyntaxError': ['Exception'],
    'OSError': ['Exception'],
    'InterruptedError': ['OSError'],
    'MemoryError': ['Exception'],
    # stands for "any exception class defined by user code (semantic actions)"
    'UserError': ['Exception'],
}


def _read_classes(relpath: str) -> dict[str, list[str]]:
    tree = ast.parse(open(os.path.join(REPO, relpath), encoding='utf-8').read())
    out = {}
    for node in ast.walk(tree):
        if isinstance(node, ast.ClassDef):
            bases = []
            for b in node.bases:
                if isinstance(b, ast.Name):
                    bases.append(b.id)
                elif isinstance(b, ast.Attribute):
                    bases.append(b.attr)
                elif isinstance(b, ast.Subscript) and isinstance(b.value, ast.Name):
                    bases.append(b.value.id)
            out[node.name] = bases
    return out


class ExcTable:
    """Exception classes: builtins + everything defined in tatsu/exceptions.py (re-read every run)."""

    def __init__(self):
        self.bases = dict(BUILTIN_EXC)
        self.bases.update(_read_classes('tatsu/exceptions.py'))
        # exception classes defined next to the code that raises them
        for rel in ('tatsu/util/safeeval.py',):
            for n, b in _read_classes(rel).items():
                if any(x in self.bases or x.endswith('Error') for x in b):
                    self.bases[n] = b
        # aliases (module-level NAME = Class)
        tree = ast.parse(open(os.path.join(REPO, 'tatsu/exceptions.py'), encoding='utf-8').read())
        self.alias = {}
        for node in tree.body:
            if (
                isinstance(node, ast.Assign)
                and len(node.targets) == 1
                and isinstance(node.targets[0], ast.Name)
                and isinstance(node.value, ast.Name)
                and node.value.id in self.bases
            ):
                self.alias[node.targets[0].id] = node.value.id
        self.names = sorted(self.bases)
        self.ids = {n: i for i, n in enumerate(self.names)}

    def resolve(self, name: str) -> str:
        return self.alias.get(name, name)

    def known(self, name: str) -> bool:
        return self.resolve(name) in self.bases

    def ancestors(self, name: str) -> set[str]:
        name = self.resolve(name)
        seen = set()
        todo = [name]
        while todo:
            n = todo.pop()
            if n in seen or n not in self.bases:
                continue
            seen.add(n)
            todo.extend(self.bases[n])
        return seen

    def subclasses(self, name: str) -> list[str]:
        name = self.resolve(name)
        return [n for n in self.names if name in self.ancestors(n)]

    def cid(self, name: str) -> int:
        return self.ids[self.resolve(name)]

    def is_sub(self, cls_term, name: str):
        """z3 formula: class id `cls_term` is a subclass of `name`."""
        subs = self.subclasses(name)
        if z3.is_int_value(cls_term):
            return z3.BoolVal(self.names[cls_term.as_long()] in subs)
        return z3.Or([cls_term == self.ids[s] for s in subs]) if subs else z3.BoolVal(False)

    def in_range(self, cls_term):
        return z3.And(cls_term >= 0, cls_term < len(self.names))


MODEL_FILES = [
    'tatsu/peg/base.py', 'tatsu/peg/basic.py', 'tatsu/peg/syntax.py', 'tatsu/peg/choice.py',
    'tatsu/peg/closure.py', 'tatsu/peg/named.py', 'tatsu/peg/pattern.py', 'tatsu/peg/meta.py',
    'tatsu/peg/rulelike.py',
]


class ModelClassTable:
    """Nominal class table of the grammar-model classes (for `isinstance(exp, Group)` etc.)."""

    def __init__(self):
        self.bases: dict[str, list[str]] = {}
        self.where: dict[str, str] = {}
        for f in MODEL_FILES:
            for n, b in _read_classes(f).items():
                self.bases[n] = b
                self.where[n] = f
        self.names = sorted(self.bases)
        self.ids = {n: i for i, n in enumerate(self.names)}

    def ancestors(self, name):
        seen = set()
        todo = [name]
        while todo:
            n = todo.pop()
            if n in seen:
                continue
            seen.add(n)
            todo.extend(self.bases.get(n, []))
        return seen

    def subclasses(self, name):
        return [n for n in self.names if name in self.ancestors(n)]

    def is_sub(self, cls_term, name):
        subs = self.subclasses(name)
        return z3.Or([cls_term == self.ids[s] for s in subs]) if subs else z3.BoolVal(False)

    def in_range(self, cls_term):
        return z3.And(cls_term >= 0, cls_term < len(self.names))
