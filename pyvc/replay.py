"""Counter-model concretisation and replay on the real function."""
from __future__ import annotations

import ast
import importlib
import os
import sys
import traceback

import z3

from . import charclasses as CC
from . import sorts as S
from .interp import ArrList, ArrStr, Char, FuncVal, Opaque, PRec, PyTuple, ZRec
from .sorts import Val


class NotConcretizable(Exception):
    pass


def zstr(v) -> str:
    """the python text of a z3 string value (z3 prints non-ascii characters as \\u{hex})"""
    import re
    return re.sub(r'\\u\{([0-9a-fA-F]+)\}', lambda m: chr(int(m.group(1), 16)), v.as_string())


def realize_width(model, world, t, text: str) -> str:
    """theory `display_width`: the solver treats the display width as an uninterpreted function, so the text of a model
    string need not have the width the model gives it; rebuild the text with that width (same length, the end-of-track
    marker kept where it is): narrow characters become wide ones or the other way round"""
    from .interp import display_width
    f = world.ufs.get('display_width')
    if f is None:
        return text
    try:
        want = _int(model, f(t))
    except NotConcretizable:
        return text
    chars = list(text)
    for i, ch in enumerate(chars):
        have = display_width(''.join(chars))
        if have == want:
            break
        if ch == '\uff04':
            continue
        wide = display_width(ch) == 2
        if have < want and not wide:
            chars[i] = '\u6f22'
        elif have > want and wide:
            chars[i] = 'x'
    return ''.join(chars)


def _int(model, t):
    v = model.eval(t, model_completion=True)
    if z3.is_int_value(v):
        return v.as_long()
    raise NotConcretizable(f'non-numeral {v}')


def _seq_items(model, seq):
    n = _int(model, z3.Length(seq))
    if n > 64:
        raise NotConcretizable('sequence too long')
    return [model.eval(seq[i], model_completion=True) for i in range(n)]


def _array_true_keys(model, arr):
    """keys mapped to True in a model array (finite part)."""
    v = model.eval(arr, model_completion=True)
    keys = []
    default = False
    todo = v
    for _ in range(200):
        if z3.is_store(todo):
            a, k, val = todo.children()
            keys.append((k, val))
            todo = a
        elif z3.is_const_array(todo):
            default = todo.children()[0]
            break
        elif z3.is_as_array(todo):
            f = z3.get_as_array_func(todo)
            interp = model[f]
            if interp is None:
                break
            for i in range(interp.num_entries()):
                e = interp.entry(i)
                keys.append((e.arg_value(0), e.value()))
            default = interp.else_value()
            break
        else:
            break
    out = {}
    for k, val in reversed(keys):
        out[k] = val
    return out, default


def val_to_py(model, t, depth=0):
    from tatsu.contexts.cst import closedlist

    if depth > 8:
        raise NotConcretizable('too deep')
    v = model.eval(t, model_completion=True)
    name = v.decl().name()
    if name == 'none':
        return None
    if name == 'vbool':
        return z3.is_true(model.eval(Val.b(v), model_completion=True))
    if name == 'vint':
        return _int(model, Val.i(v))
    if name == 'vstr':
        return zstr(model.eval(Val.s(v), model_completion=True))
    if name in ('vlist', 'vclist', 'vtup'):
        acc = {'vlist': Val.items, 'vclist': Val.citems, 'vtup': Val.titems}[name]
        items = [val_to_py(model, x, depth + 1) for x in _seq_items(model, acc(v))]
        if name == 'vlist':
            return items
        if name == 'vclist':
            return closedlist(items)
        return tuple(items)
    if name == 'vdict':
        keys, _ = _array_true_keys(model, Val.dkeys(v))
        out = {}
        for k, present in keys.items():
            if z3.is_true(present):
                out[k.as_string()] = val_to_py(model, z3.Select(Val.dvals(v), k), depth + 1)
        return out
    if name == 'vobj':
        return _Obj(_int(model, Val.oid(v)))
    raise NotConcretizable(f'value {v}')


class _Obj:
    def __init__(self, i):
        self.i = i

    def __repr__(self):
        return f'<obj#{self.i}>'

    def __eq__(self, o):
        return isinstance(o, _Obj) and o.i == self.i

    def __hash__(self):
        return hash(self.i)


def arrstr_to_py(model, world, arr, n_term):
    n = _int(model, n_term)
    if n > 200:
        raise NotConcretizable('string too long')
    chars = []
    fs = [world.uf(f'chr_{p}', z3.IntSort(), z3.BoolSort()) for p in CC.PREDS]
    for i in range(n):
        code = _int(model, z3.Select(arr, i))
        vec = tuple(z3.is_true(model.eval(f(code), model_completion=True)) for f in fs)
        chars.append(CC.concretize_char(code, vec))
    return ''.join(chars)


def charset_to_py(model, world, t, universe: str):
    """membership of the characters that matter (those of the text, ascii letters/underscore)."""
    out = set()
    for ch in set(universe) | set('_-$@#.'):
        if z3.is_true(model.eval(z3.Select(t, ord(ch)), model_completion=True)):
            out.add(ch)
    return out


def concretize_arg(model, world, sortname: str, entry, reg, strings: list):
    kind = entry[0]
    if kind == 'arrstr':
        s = arrstr_to_py(model, world, entry[1], entry[2])
        strings.append(s)
        return s
    if kind == 'charset':
        return ('charset', entry[1])
    if kind == 'arrlist':
        n = _int(model, entry[2])
        if n > 200:
            raise NotConcretizable('list too long')
        return [concretize_arg(model, world, '', ('term', z3.Select(entry[1], i)), reg, strings) for i in range(n)]
    if kind == 'char':
        code = _int(model, entry[1])
        fs = [world.uf(f'chr_{p}', z3.IntSort(), z3.BoolSort()) for p in CC.PREDS]
        vec = tuple(z3.is_true(model.eval(f(code), model_completion=True)) for f in fs)
        return CC.concretize_char(code, vec)
    if kind == 'term' or kind == 'zrec':
        t = entry[-1]
        if S.is_val(t):
            return val_to_py(model, t)
        if S.is_int(t):
            return _int(model, t)
        if S.is_bool(t):
            return z3.is_true(model.eval(t, model_completion=True))
        if S.is_str(t):
            return realize_width(model, world, t, zstr(model.eval(t, model_completion=True)))
        if S.is_seq(t) and t.sort() == S.SeqVal:
            return [val_to_py(model, x) for x in _seq_items(model, t)]
        if S.is_record(t) and S.record_name(t.sort()) in S.LIST_RECORDS:
            n = _int(model, S.rec_get(t, 'n'))
            if n > 200:
                raise NotConcretizable('list too long')
            return [concretize_arg(model, world, '', ('term', z3.Select(S.rec_get(t, 'items'), i)), reg, strings) for i in range(n)]
        if S.is_record(t):
            name = S.record_name(t.sort())
            d = {}
            for f, fs in S.RECORD_FIELDS[name]:
                d[f] = concretize_arg(model, world, fs, ('term', S.rec_get(t, f)), reg, strings)
            return ('record', name, d)
        if z3.is_array(t):
            keys, _ = _array_true_keys(model, t)
            if t.sort().domain() == z3.StringSort():
                return {k.as_string() for k, v in keys.items() if z3.is_true(v)}
            return ('array', t)
        raise NotConcretizable(f'term of sort {t.sort()}')
    raise NotConcretizable(f'kind {kind}')


def concretize_inputs(model, world, contract, ob, reg):
    """python values for the contract's parameters from a counter-model."""
    out = {}
    strings: list[str] = []
    pending_sets = []
    for name, sortname in contract.sig.items():
        sortname = sortname.strip()
        if sortname in reg.classes and 'fields' in reg.classes[sortname]:
            def prec(prefix, cls):
                fields = {}
                for fname, fsort in reg.classes[cls]['fields'].items():
                    if fsort in reg.classes and 'fields' in reg.classes[fsort]:
                        fields[fname] = prec(f'{prefix}.{fname}', fsort)
                        continue
                    e = ob.vars.get(f'{prefix}.{fname}')
                    if e is None:
                        raise NotConcretizable(f'no symbol for {prefix}.{fname}')
                    fields[fname] = concretize_arg(model, world, fsort, e, reg, strings)
                return ('prec', cls, fields)
            out[name] = prec(name, sortname)
            continue
        if sortname == 'None':
            out[name] = None
            continue
        e = ob.vars.get(name)
        if e is None:
            raise NotConcretizable(f'no symbol for {name}')
        out[name] = concretize_arg(model, world, sortname, e, reg, strings)
    universe = ''.join(strings)

    def fix(v):
        if isinstance(v, tuple) and v and v[0] == 'charset':
            return charset_to_py(model, world, v[1], universe)
        if isinstance(v, tuple) and v and v[0] == 'prec':
            return ('prec', v[1], {k: fix(x) for k, x in v[2].items()})
        return v

    return {k: fix(v) for k, v in out.items()}


# --------------------------------------------------------------------------- concrete evaluation


def load_real(key: str):
    rel, qual = key.split('#')[0].split(':', 1)
    modname = rel[:-3].replace('/', '.')
    mod = importlib.import_module(modname)
    obj = mod
    for part in qual.split('.'):
        if part == '<locals>':
            raise NotConcretizable('nested function')
        obj = getattr(obj, part)
    return obj


def concrete_env(reg):
    """names available to contract clauses when evaluated concretely."""
    env = {}
    import importlib.util

    for name, path in reg.spec_modules.items():
        modname = 'contracts.' + os.path.basename(path)[:-3]
        mod = importlib.import_module(modname)
        env[name] = getattr(mod, name)

    def int_ok(s):
        try:
            int(s)
            return s == s.strip()
        except ValueError:
            return False

    def uint_ok(s):
        return int_ok(s) and s[:1] not in '+-'

    def float_ok(s):
        try:
            float(s)
            return s == s.strip()
        except ValueError:
            return False

    env.update(int_ok=int_ok, uint_ok=uint_ok, float_ok=float_ok, implies=lambda a, b: (not a) or b, old=lambda x: x)
    try:
        from tatsu.util.strtools import unicode_display_len
        for name, model in getattr(reg, 'extern_funcs', {}).items():
            if model == 'display_width':
                env[name] = unicode_display_len
    except ImportError:
        pass
    try:
        from tatsu.input.infos import LineIndexInfo, LineInfo, PosLine
        env.update(PosLine=PosLine, LineInfo=LineInfo, LineIndexInfo=LineIndexInfo)
    except ImportError:
        pass
    return env


def run_real(contract, reg, inputs: dict, builders: dict):
    """call the real function on concretised inputs; evaluate the contract concretely.
    returns dict(outcome='violation'|'holds'|'precondition-false'|'error', detail=...)"""
    import copy

    fn = load_real(contract.key)
    args = {}
    for name, v in inputs.items():
        if isinstance(v, tuple) and v and v[0] == 'prec':
            b = builders.get(v[1])
            if b is None:
                raise NotConcretizable(f'no builder for record class {v[1]}')
            args[name] = b(v[2])
        elif isinstance(v, tuple) and v and v[0] == 'record':
            b = builders.get(v[1])
            if b is None:
                raise NotConcretizable(f'no builder for record {v[1]}')
            args[name] = b(v[2])
        else:
            args[name] = v
    env = concrete_env(reg)
    env.update(args)
    # ghosts of the contract are recomputed from the real objects (the model's ghost values describe the
    # model's copy of the data, which the builder re-derives from the text)
    gb = builders.get('ghosts:' + contract.key.split('#')[0])
    if gb is not None:
        env.update(gb(args))
    for clause in contract.requires:
        try:
            if not eval(clause, dict(env)):
                return {'outcome': 'precondition-false', 'detail': clause}
        except Exception as e:  # noqa: BLE001
            return {'outcome': 'error', 'detail': f'requires {clause!r}: {e!r}'}
    olds = {}
    for k, v in args.items():
        try:
            olds[f'old_{k}'] = copy.deepcopy(v)
        except Exception:  # noqa: BLE001
            try:
                olds[f'old_{k}'] = copy.copy(v)
            except Exception:  # noqa: BLE001
                olds[f'old_{k}'] = v
    env.update(olds)
    try:
        if getattr(contract, 'varparam', ''):
            rest = args.pop(contract.varparam)
            result = fn(*args.values(), *rest)
            args[contract.varparam] = rest
        else:
            result = fn(**args)
    except BaseException as e:  # noqa: BLE001
        cname = type(e).__name__
        allowed = list(contract.raises)
        import tatsu.exceptions as TE
        for a in allowed:
            cls = getattr(TE, a, None) or getattr(__import__('builtins'), a, None)
            if cls is not None and isinstance(e, cls):
                return {'outcome': 'holds', 'detail': f'raised allowed {cname}'}
        return {'outcome': 'violation', 'detail': f'raised {cname}: {e}', 'exception': cname,
                'traceback': traceback.format_exc()[-1500:]}
    env['result'] = result
    failed = []
    for tag, clause in contract.clauses() + [(l, c) for l, c in contract.assumed_ensures]:
        try:
            ok = eval(clause, dict(env))
        except Exception as e:  # noqa: BLE001
            return {'outcome': 'error', 'detail': f'ensures {clause!r}: {e!r}', 'result': repr(result)}
        if not ok:
            failed.append(clause)
    if failed:
        return {'outcome': 'violation', 'detail': 'postcondition false: ' + ' ;; '.join(failed), 'result': repr(result)}
    return {'outcome': 'holds', 'detail': '', 'result': repr(result)}
